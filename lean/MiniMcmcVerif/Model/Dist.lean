import MiniMcmcVerif.Model.Util
/-
  C15 — closed forms of the built-in densities of distributions.rs, written once over a scalar `α` with the usual
  notation classes plus a tiny `Transc` class (`ln`, `pi`), and their closed-form gradients.

  * `Gaussian2D`          : `Normalized::logp` (164-187), `Target::unnorm_logp` (189-206)
  * `DiffableGaussian2D`  : `new` (227-251: inverse, log-det, norm_const), batched (262-288) and single (296-315) evaluation
  * `IsotropicGaussian`   : `logp(from, to)` (374-386), `unnorm_logp` (395-401), `sample = from + σ·z` (364-372)
  * `Rosenbrock2D` (497-524), `RosenbrockND` (531-547)
-/

namespace MiniMcmcVerif.Dist

class Transc (α : Type) where
  ln : α → α
  pi : α

instance : Transc Float := ⟨Float.log, 3.14159265358979323846⟩
instance : Transc Float32 := ⟨Float32.log, 3.14159265358979323846⟩

variable {α : Type} [Add α] [Sub α] [Mul α] [Div α] [Neg α] [NatCast α] [OfNat α 0] [Transc α]

def two : α := ((2 : Nat) : α)
def half : α := ((1 : Nat) : α) / ((2 : Nat) : α)

/-- 2×2 covariance `[[a, b], [c, d]]` -/
structure Cov2 (α : Type) where
  a : α
  b : α
  c : α
  d : α

def Cov2.det (s : Cov2 α) : α := s.a * s.d - s.b * s.c

/-- `diff.dot(inv_cov).dot(diff)` with `inv_cov = [[d, -b], [-c, a]] / det` -/
def quad2 (s : Cov2 α) (m0 m1 x0 x1 : α) : α :=
  let det := s.det
  let d0 := x0 - m0
  let d1 := x1 - m1
  let i00 := s.d / det; let i01 := (-s.b) / det; let i10 := (-s.c) / det; let i11 := s.a / det
  (d0 * i00 + d1 * i10) * d0 + (d0 * i01 + d1 * i11) * d1

/-- `Target::unnorm_logp` of `Gaussian2D` -/
def gauss2dUnnorm (s : Cov2 α) (m0 m1 x0 x1 : α) : α := (-half) * quad2 s m0 m1 x0 x1

/-- absolute value via the order is not available polymorphically: the code uses `det.abs().ln()`; SPD covariances
    have `det > 0`, where `|det| = det`. The model takes `absdet` as the value of `det.abs()`. -/
def gauss2dLogp (s : Cov2 α) (absdet : α) (m0 m1 x0 x1 : α) : α :=
  (-(Transc.ln (two * Transc.pi))) + (-half) * Transc.ln absdet + (-half) * quad2 s m0 m1 x0 x1

/-- `DiffableGaussian2D::new`: `(inv_cov, logdet, norm_const)` -/
structure DG (α : Type) where
  i00 : α
  i01 : α
  i10 : α
  i11 : α
  logdet : α
  normConst : α

def dgNew (s : Cov2 α) : DG α :=
  let det := s.det
  let invDet := ((1 : Nat) : α) / det
  let logdet := Transc.ln det
  { i00 := s.d * invDet, i01 := (-s.b) * invDet, i10 := (-s.c) * invDet, i11 := s.a * invDet
    logdet := logdet
    normConst := (-(two * Transc.ln (two * Transc.pi) + logdet)) / two }

/-- `z = delta.matmul(inv_cov); quad = (z * delta).sum()` -/
def dgQuad (g : DG α) (m0 m1 x0 x1 : α) : α :=
  let d0 := x0 - m0
  let d1 := x1 - m1
  (d0 * g.i00 + d1 * g.i10) * d0 + (d0 * g.i01 + d1 * g.i11) * d1

/-- one row of `unnorm_logp_batch`: `norm_c - quad * 0.5` -/
def dgBatchRow (g : DG α) (m0 m1 x0 x1 : α) : α := g.normConst - dgQuad g m0 m1 x0 x1 * half
/-- `GradientTarget::unnorm_logp`: `-(quad * 0.5) + norm_const` -/
def dgSingle (g : DG α) (m0 m1 x0 x1 : α) : α := (-(dgQuad g m0 m1 x0 x1 * half)) + g.normConst
def dgBatch (g : DG α) (m0 m1 : α) (rows : List (α × α)) : List α := rows.map fun r => dgBatchRow g m0 m1 r.1 r.2
/-- closed-form gradient of `dgSingle` -/
def dgGrad (g : DG α) (m0 m1 x0 x1 : α) : α × α :=
  let d0 := x0 - m0
  let d1 := x1 - m1
  ((-half) * (two * g.i00 * d0 + (g.i01 + g.i10) * d1), (-half) * ((g.i01 + g.i10) * d0 + two * g.i11 * d1))

/-- `IsotropicGaussian::logp(from, to)` -/
def isoLogp (std : α) (from_ to : List α) : α :=
  let var := std * std
  let s := (List.zipWith (fun f t => (-((t - f) * (t - f))) / (two * var)) from_ to).foldl (· + ·) 0
  s + (-((from_.length : α))) * half * Transc.ln (two * Transc.pi * var)

/-- `IsotropicGaussian::unnorm_logp` -/
def isoUnnorm (std : α) (x : List α) : α :=
  (-half) * (x.foldl (fun acc v => acc + v * v) 0) / (std * std)

/-- `Rosenbrock2D`: `-((a - x)² + b (y - x²)²)` -/
def rosen2d (a b x y : α) : α := -((a - x) * (a - x) + (y - x * x) * (y - x * x) * b)
def rosen2dGrad (a b x y : α) : α × α :=
  (two * (a - x) + ((4 : Nat) : α) * b * x * (y - x * x), (-(two * b * (y - x * x))))

/-- `RosenbrockND` on one row: `-Σ_{i<n-1} (100 (x_{i+1} - x_i²)² + (1 - x_i)²)` -/
def rosenND (x : List α) : α :=
  -((List.zipWith (fun lo hi => (hi - lo * lo) * (hi - lo * lo) * ((100 : Nat) : α) + (((1 : Nat) : α) - lo) * (((1 : Nat) : α) - lo))
      x (x.drop 1)).foldl (· + ·) 0)

/-- closed-form gradient of `rosenND`, coordinate `k` -/
def rosenNDGradAt (x : Array α) (k : Nat) : α :=
  let n := x.size
  let xk := x.getD k 0
  let fwd : α := if k + 1 < n then ((400 : Nat) : α) * xk * (x.getD (k + 1) 0 - xk * xk) + two * (((1 : Nat) : α) - xk) else 0
  let bwd : α := if 1 ≤ k then ((200 : Nat) : α) * (xk - x.getD (k - 1) 0 * x.getD (k - 1) 0) else 0
  fwd - bwd

def rosenNDGrad (x : List α) : List α := (List.range x.length).map (rosenNDGradAt x.toArray)

end MiniMcmcVerif.Dist

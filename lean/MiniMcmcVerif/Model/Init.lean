/-
  C18 — model of the initial-position helpers, core.rs 394-435:

      fn _init(n, d, mut rng) = (0..n).map(|_| (0..d).map(|_| T::from_f64(StandardNormal.sample(&mut rng))).collect()).collect()
      init_with_seed(n, d, seed) = _init(n, d, SmallRng::seed_from_u64(seed));   init_det(n, d) = init_with_seed(n, d, 42)

  The generator is an explicit input: `s` is the list of variates in the order the generator yields them
  (row-major consumption); `gen seed` is the stream of the generator seeded with `seed`.
-/

namespace MiniMcmcVerif.Init

variable {α : Type}

/-- `n` rows, each taking the next `d` variates. -/
def initRows : Nat → Nat → List α → List (List α)
  | 0, _, _ => []
  | n + 1, d, s => s.take d :: initRows n d (s.drop d)

def initWithSeed (gen : UInt64 → List α) (n d : Nat) (seed : UInt64) : List (List α) := initRows n d (gen seed)

def initDet (gen : UInt64 → List α) (n d : Nat) : List (List α) := initWithSeed gen n d 42

end MiniMcmcVerif.Init

/-
  C11 / C12 / C13 — models of stats.rs, written once, polymorphically over the scalar `α` through notation
  classes only, so that the same definitions are (i) executed by the driver at `Float32` (operation-for-operation
  what the Rust code does in f32) and at `Float` (reference), and (ii) reasoned about at an ordered field.

  Data layout: a sample is `List (List (List α))` = [chain][draw][parameter]; per-parameter computations work on
  `List (List α)` = [chain][draw].
-/

namespace MiniMcmcVerif.Stats

variable {α : Type} [Add α] [Sub α] [Mul α] [Div α] [NatCast α] [OfNat α 0]

def sum (xs : List α) : α := xs.foldl (· + ·) 0
def mean (xs : List α) : α := sum xs / (xs.length : α)
def sq (x : α) : α := x * x

/-- column `p` of a [draw][parameter] table -/
def column (rows : List (List α)) (p : Nat) : List α := rows.map fun r => r.getD p 0

/-! ### C11: split R-hat (stats.rs 396-477) -/

/-- `splitcat`: first `n/2` and last `n/2` draws of every chain, first halves of all chains then second halves
    (`concatenate(Axis(0), [half_1, half_2])`); the middle draw of an odd-length chain is dropped. -/
def splitcat {β : Type} (sample : List (List β)) : List (List β) :=
  let n := (sample.headD []).length
  let half := n / 2
  sample.map (fun ch => ch.take half) ++ sample.map (fun ch => ch.drop (ch.length - half))

/-- `withinvar` for one parameter: `data` = [half-chain][draw], `n` = draws per half-chain.
    Returns `(W, var⁺)` with `W` = mean over chains of `(1/n) Σ (x - x̄_j)²`,
    `B = n/(c-1) Σ (x̄_j - x̄)²`, `var⁺ = (n-1)/n·W + B/n`. -/
def withinVar (data : List (List α)) : α × α :=
  let c := data.length
  let n := (data.headD []).length
  let chainMeans := data.map mean
  let overall := mean chainMeans
  let b := sum (chainMeans.map fun m => sq (m - overall)) * ((n : α) / ((c - 1 : Nat) : α))
  let squares := data.map fun row => sum (row.map fun v => sq (v - mean row)) / (n : α)
  let w := mean squares
  let v := (((n : α) - ((1 : Nat) : α)) / (n : α)) * w + b / (n : α)
  (w, v)

/-- the square of the reported split R-hat: `var⁺ / W` (the code reports its square root). -/
def rhatSq (data : List (List α)) : α := let wv := withinVar data; wv.2 / wv.1

/-! ### C13: streaming trackers (stats.rs 26-306), per (chain, parameter) scalar -/

structure Mom (α : Type) where
  n : Nat
  mean : α
  meanSq : α

def Mom.init : Mom α := ⟨0, 0, 0⟩

/-- one `step` of `ChainTracker` / `MultiChainTracker` on one coordinate. -/
def Mom.step (m : Mom α) (x : α) : Mom α :=
  let n := m.n + 1
  let nf : α := (n : α)
  let one : α := ((1 : Nat) : α)
  { n := n
    mean := (m.mean * (nf - one) + x) / nf
    meanSq := if n = 1 then sq x else (m.meanSq * (nf - one) + sq x) / nf }

/-- `sm2 = (mean_sq - mean²)·n/(n-1)` -/
def Mom.sm2 (m : Mom α) : α := (m.meanSq - sq m.mean) * (m.n : α) / ((m.n : α) - ((1 : Nat) : α))

def Mom.feed (xs : List α) : Mom α := xs.foldl Mom.step Mom.init

/-- `collect_rhat` / `withinvar_from_cs` for one parameter, from the per-chain `(n, mean, sm2)`;
    `between = Σ(mean_j - mean)² / (m - 1)`, `n = avg n_j`, `var = between + within·(n-1)/n`; returns `var / within`. -/
def collectRhatSq (stats : List (Nat × α × α)) : α :=
  let m := stats.length
  let means := stats.map fun s => s.2.1
  let within := mean (stats.map fun s => s.2.2)
  let gm := mean means
  let between := sum (means.map fun x => sq (x - gm)) / ((m - 1 : Nat) : α)
  let n : α := sum (stats.map fun s => ((s.1 : Nat) : α)) / (m : α)
  let var := between + within * ((n - ((1 : Nat) : α)) / n)
  var / within

/-- `MultiChainTracker::within_and_var` + `rhat` for one parameter from the per-chain moments (all with the same `n`). -/
def multiRhatSq (ms : List (Mom α)) (n : Nat) : α :=
  let m := ms.length
  let means := ms.map (·.mean)
  let mc := mean means
  let nf : α := (n : α)
  let one : α := ((1 : Nat) : α)
  let fac := nf / ((m : α) - one)
  let between := sum (means.map fun x => sq (x - mc)) * fac
  let sm2 := ms.map fun k => (k.meanSq - sq k.mean) * nf / (nf - one)
  let within := mean sm2
  let var := within * ((nf - one) / nf) + between * (one / nf)
  var / within

/-- exponential moving average of acceptance indicators, `p ← (1-a)·p + a·ind` -/
def emaStep (a : α) (p : α) (ind : Bool) : α :=
  (((1 : Nat) : α) - a) * p + a * (if ind then ((1 : Nat) : α) else 0)

end MiniMcmcVerif.Stats

namespace MiniMcmcVerif.Stats

variable {α : Type} [Add α] [Sub α] [Mul α] [Div α] [NatCast α] [OfNat α 0]

/-! ### C12: effective sample size (stats.rs 496-654) -/

/-- centred copy of a sequence: `x - mean(x)` -/
def centre (xs : List α) : List α := let m := mean xs; xs.map (· - m)

/-- `autocov_bf` for one column: `out[lag] = (Σ_{t < n-lag} c[t]·c[t+lag]) / n` on the centred sequence
    (`zipWith` of `c` with `c` shifted by `lag` pairs exactly the terms `t < n - lag`). -/
def autocovBF (xs : List α) : List α :=
  let n := xs.length
  let c := centre xs
  (List.range n).map fun lag => sum (List.zipWith (· * ·) c (c.drop lag)) / (n : α)

/-- `let mut n_padded = 1; while n_padded < 2*n - 1 { n_padded <<= 1 }` (fuel = number of doublings allowed) -/
def npadGo (target : Nat) : Nat → Nat → Nat
  | 0, p => p
  | fuel + 1, p => if p < target then npadGo target fuel (p * 2) else p

def npad (n : Nat) : Nat := npadGo (2 * n - 1) (2 * n) 1

/-- zero-padded centred sequence as a function of the index -/
def padded (c : List α) (t : Nat) : α := if t < c.length then c.getD t 0 else 0

/-- `autocov_fft` for one column: what `ifft(fft(x)·conj(fft(x)))[lag] / n_padded / n` equals by the DFT
    correlation identity (trusted): the *circular* correlation of the zero-padded centred sequence, divided by `n`. -/
def autocovCirc (xs : List α) : List α :=
  let n := xs.length
  let c := centre xs
  let np := npad n
  (List.range n).map fun lag =>
    sum ((List.range np).map fun t => padded c t * padded c ((t + lag) % np)) / (n : α)

/-- the 100-row switch of `autocov` -/
def autocov (xs : List α) : List α := if xs.length ≤ 100 then autocovBF xs else autocovCirc xs

/-- `windows_with_stride(2, 2)` pair sums `ρ_{2k} + ρ_{2k+1}` -/
def pairSums : List α → List α
  | a :: b :: r => (a + b) :: pairSums r
  | _ => []

variable [LT α] [DecidableLT α] [LE α] [DecidableLE α]

/-- Geyer's initial positive monotone sequence, as the loop in `ess` runs it: stop at the first pair sum `≤ 0`,
    clamp each to the running minimum, accumulate. Returns the accumulated sum. -/
def geyer : List α → α → α → α
  | [], _, out => out
  | p :: ps, mn, out =>
    if p ≤ 0 then out
    else
      let p' := if mn < p then mn else p
      geyer ps p' (out + p')

/-- the clamped pair sums that get accumulated (ghost: the sequence itself) -/
def geyerSeq : List α → α → List α
  | [], _ => []
  | p :: ps, mn =>
    if p ≤ 0 then []
    else
      let p' := if mn < p then mn else p
      p' :: geyerSeq ps p'

/-- `ess` for one parameter: `data` = [half-chain][draw]; `w`, `v` = within variance and var⁺ of that parameter;
    `acov` = the autocovariance function used. Returns `(ρ, τ, ess)`. -/
def essWith (acov : List α → List α) (data : List (List α)) (w v : α) : List α × α × α :=
  let c := data.length
  let n := (data.headD []).length
  let chainAcov := data.map acov
  -- `chain_rho.mean_axis(Axis(0))`: elementwise sum over chains, divided by the number of chains
  let avg : List α := (chainAcov.foldl (fun acc a => List.zipWith (· + ·) acc a) (List.replicate n 0)).map (· / (c : α))
  let one : α := ((1 : Nat) : α)
  let rho := avg.map fun a => (0 - ((0 - a + w) / v)) + one
  let ps := pairSums rho
  let mn0 : α := if 2 ≤ rho.length then rho.getD 0 0 + rho.getD 1 0 else 0
  let out := geyer ps mn0 0
  let tau := (0 - one) + ((2 : Nat) : α) * out
  (rho, tau, (one / tau) * (c : α) * (n : α))

def ess (data : List (List α)) (w v : α) : List α × α × α := essWith autocov data w v

/-- `withinvar_from_cs` for one parameter: `(within, var⁺)` from the per-chain `(n, mean, sm2)` -/
def collectWV (stats : List (Nat × α × α)) : α × α :=
  let m := stats.length
  let means := stats.map fun s => s.2.1
  let within := mean (stats.map fun s => s.2.2)
  let gm := mean means
  let between := sum (means.map fun x => sq (x - gm)) / ((m - 1 : Nat) : α)
  let n : α := sum (stats.map fun s => ((s.1 : Nat) : α)) / (m : α)
  (within, between + within * ((n - ((1 : Nat) : α)) / n))

/-- `ess_from_chainstats` for one parameter: the ESS of the *unsplit* chains with `W`, `var⁺` taken from the trackers'
    statistics (stats.rs 665-668) -/
def essFromChainStats (chains : List (List α)) (stats : List (Nat × α × α)) : α :=
  let wv := collectWV stats
  (ess chains wv.1 wv.2).2.2

/-- `split_rhat_mean_ess` for one parameter on the *unsplit* [chain][draw] data: returns `(rhat², ess)`. -/
def splitRhatSqEss (acov : List α → List α) (chains : List (List α)) : α × α :=
  let data := splitcat chains
  let wv := withinVar data
  (wv.2 / wv.1, (essWith acov data wv.1 wv.2).2.2)

end MiniMcmcVerif.Stats

namespace MiniMcmcVerif.Stats

variable {α : Type} [Add α] [Sub α] [Mul α] [Div α] [NatCast α] [OfNat α 0] [LT α] [DecidableLT α]

/-! ### C11: summary statistics (`basic_stats`, stats.rs 310-336) -/

/-- insertion into a descending list -/
def insertDesc (x : α) : List α → List α
  | [] => [x]
  | y :: ys => if y < x then x :: y :: ys else y :: insertDesc x ys

/-- descending sort (`sort_by(|a, b| b.cmp(a))`) -/
def sortDesc (xs : List α) : List α := xs.foldr insertDesc []

structure Basic (α : Type) where
  min : α
  median : α
  max : α
  mean : α
  /-- sample variance (ddof 1); the code reports its square root -/
  var : α

/-- `basic_stats`: descending sort, `min = last`, `max = first`, `median = element len/2`, mean, std(ddof 1) -/
def basicStats (xs : List α) : Basic α :=
  let s := sortDesc xs
  let m := mean xs
  { min := s.getLastD 0
    median := s.getD (s.length / 2) 0
    max := s.headD 0
    mean := m
    var := sum (xs.map fun x => sq (x - m)) / ((xs.length - 1 : Nat) : α) }

end MiniMcmcVerif.Stats

/-
  C07 — schedule model of a multi-chain sampler: the sampler owns a list of chain states, every chain owns its
  generator (part of its state); a *schedule* is the order in which chain steps happen to be executed by the worker
  threads (a list of chain indices). `exec` applies one chain step per entry.
-/

namespace MiniMcmcVerif.Sched

variable {σ : Type}

/-- one step of chain `i` (reads and writes chain `i` only) -/
def stepAt (step : σ → σ) (chains : List σ) (i : Nat) : List σ := chains.modify i step

def exec (step : σ → σ) (chains : List σ) (sched : List Nat) : List σ := sched.foldl (stepAt step) chains

end MiniMcmcVerif.Sched

/-
  C03 / C14 — model of one NUTS transition (Hoffman & Gelman, Algorithm 6) as coded in nuts.rs:
  `leapfrog` (979-996), `stop_criterion` (963-977), `build_tree` (764-946), `NUTSChain::step` (550-674).

  Abstract scalar `K` and vector `V` (`+`, `-`, scalar multiplication, inner product `dot`); the target is a function
  returning log-density and gradient. All randomness is an explicit input: the momentum, the Exp(1) draw, and the
  uniforms in the order the code consumes them (`dirs` for the direction of each doubling, `sel` for the candidate
  selection inside `build_tree` in recursion order, `acc` for adopting the candidate after each doubling).

  `buildTree` returns, besides what the code returns, the ghost list `leaves` of phase points it visited.
-/

namespace MiniMcmcVerif.NUTS

structure Pt (K V : Type) where
  pos : V
  mom : V
  grad : V
  logp : K

structure Tree (K V : Type) where
  minus : Pt K V
  plus : Pt K V
  prime : Pt K V
  n : Nat
  s : Bool
  alpha : K
  nalpha : Nat
  leaves : List (Pt K V)

class HasExp (K : Type) where
  exp : K → K

variable {K V : Type} [Add K] [Sub K] [Mul K] [Div K] [Neg K] [LT K] [LE K] [DecidableLT K] [DecidableLE K]
  [NatCast K] [HasExp K] [Add V] [Sub V] [SMul K V]

/-- `0.5` -/
def halfK : K := ((1 : Nat) : K) / ((2 : Nat) : K)

/-- `T::min(T::one(), x)`: returns `1` unless `x < 1` (so a NaN argument gives `1`, as Rust's `Float::min`) -/
def minOne (x : K) : K := if x < ((1 : Nat) : K) then x else ((1 : Nat) : K)

/-- joint log-density `logp - ½ p·p` -/
def joint (dot : V → V → K) (z : Pt K V) : K := z.logp - dot z.mom z.mom * (halfK : K)

/-- one leapfrog step of (signed) size `e`: `mom' = mom + grad·e·½; pos' = pos + mom'·e; mom'' = mom' + grad'·e·½` -/
def leapfrog (target : V → K × V) (e : K) (z : Pt K V) : Pt K V :=
  let mom1 := z.mom + (halfK : K) • (e • z.grad)
  let pos1 := z.pos + e • mom1
  let t := target pos1
  let mom2 := mom1 + (halfK : K) • (e • t.2)
  ⟨pos1, mom2, t.2, t.1⟩

/-- U-turn test: `(θ⁺ - θ⁻)·r⁻ ≥ 0 ∧ (θ⁺ - θ⁻)·r⁺ ≥ 0` -/
def noUTurn (dot : V → V → K) (minus plus : Pt K V) : Bool :=
  let diff := plus.pos - minus.pos
  decide (((0 : Nat) : K) ≤ dot diff minus.mom) && decide (((0 : Nat) : K) ≤ dot diff plus.mom)

/-- `build_tree`; `dirNeg = true` means `v = -1`. Consumes selection uniforms from `sel`, returns the rest. -/
def buildTree (target : V → K × V) (dot : V → V → K) (logu : K) (dirNeg : Bool) (eps joint0 : K) :
    Nat → Pt K V → List K → Tree K V × List K
  | 0, z, sel =>
    let e := if dirNeg then -eps else eps
    let z' := leapfrog target e z
    let jt := joint dot z'
    let n' := if logu < jt then 1 else 0
    let s' := decide (logu - ((1000 : Nat) : K) < jt)
    (⟨z', z', z', n', s', minOne (HasExp.exp (jt - joint0)), 1, [z']⟩, sel)
  | j + 1, z, sel =>
    let r1 := buildTree target dot logu dirNeg eps joint0 j z sel
    let t1 := r1.1
    if t1.s then
      let start := if dirNeg then t1.minus else t1.plus
      let r2 := buildTree target dot logu dirNeg eps joint0 j start r1.2
      let t2 := r2.1
      let minus := if dirNeg then t2.minus else t1.minus
      let plus := if dirNeg then t1.plus else t2.plus
      let u := r2.2.headD (((0 : Nat) : K))
      let rest := r2.2.tail
      let ratio := ((t2.n : Nat) : K) / ((max (t1.n + t2.n) 1 : Nat) : K)
      let prime := if u < ratio then t2.prime else t1.prime
      (⟨minus, plus, prime, t1.n + t2.n, t2.s && noUTurn dot minus plus, t1.alpha + t2.alpha, t1.nalpha + t2.nalpha,
        t1.leaves ++ t2.leaves⟩, rest)
    else (t1, r1.2)

/-- state of the doubling loop of `NUTSChain::step` -/
structure Loop (K V : Type) where
  pos : V
  minus : Pt K V
  plus : Pt K V
  j : Nat
  n : Nat
  s : Bool
  alpha : K
  nalpha : Nat
  dirs : List K
  sel : List K
  acc : List K
  /-- ghost: per doubling `(v = -1?, n', s', adopted?)` -/
  log : List (Bool × Nat × Bool × Bool)

/-- one iteration of `while s { … }` -/
def doubling (target : V → K × V) (dot : V → V → K) (logu eps joint0 : K) (st : Loop K V) : Loop K V :=
  let u1 := st.dirs.headD (((0 : Nat) : K))
  -- `v = 2·[u1 < 0.5] - 1`: `u1 < 0.5` gives `+1`
  let dirNeg := !(decide (u1 < (halfK : K)))
  let start := if dirNeg then st.minus else st.plus
  let r := buildTree target dot logu dirNeg eps joint0 st.j start st.sel
  let t := r.1
  let minus := if dirNeg then t.minus else st.minus
  let plus := if dirNeg then st.plus else t.plus
  let tmp := minOne (((t.n : Nat) : K) / ((st.n : Nat) : K))
  let u2 := st.acc.headD (((0 : Nat) : K))
  let adopt := t.s && decide (u2 < tmp)
  { pos := if adopt then t.prime.pos else st.pos
    minus := minus, plus := plus, j := st.j + 1, n := st.n + t.n
    s := t.s && noUTurn dot minus plus
    alpha := t.alpha, nalpha := t.nalpha
    dirs := st.dirs.tail, sel := r.2, acc := st.acc.tail
    log := st.log ++ [(dirNeg, t.n, t.s, adopt)] }

/-- the doubling loop with fuel (the code has no depth cap; `none` = fuel exhausted) -/
def loop (target : V → K × V) (dot : V → V → K) (logu eps joint0 : K) : Nat → Loop K V → Option (Loop K V)
  | 0, _ => none
  | fuel + 1, st => if st.s then loop target dot logu eps joint0 fuel (doubling target dot logu eps joint0 st) else some st

/-- `NUTSChain::step` up to (not including) the step-size adaptation: returns the final loop state. -/
def transition (target : V → K × V) (dot : V → V → K) (eps : K) (pos mom0 : V) (exp1 : K)
    (dirs sel acc : List K) (fuel : Nat) : Option (Loop K V) :=
  let t := target pos
  let z0 : Pt K V := ⟨pos, mom0, t.2, t.1⟩
  let joint0 := joint dot z0
  let logu := joint0 - exp1
  loop target dot logu eps joint0 fuel
    ⟨pos, z0, z0, 0, 1, true, ((0 : Nat) : K), 0, dirs, sel, acc, []⟩

end MiniMcmcVerif.NUTS

namespace MiniMcmcVerif.NUTS

class HasLnFin (K : Type) where
  ln : K → K
  isFinite : K → Bool

variable {K V : Type} [Add K] [Sub K] [Mul K] [Div K] [Neg K] [LT K] [LE K] [DecidableLT K] [DecidableLE K]
  [NatCast K] [HasExp K] [HasLnFin K] [Add V] [Sub V] [SMul K V]

/-- `find_reasonable_epsilon` (nuts.rs 695-761), with fuel for its two `while` loops.
    `allFinite v` = `all_real` on the gradient vector. Returns `none` when the fuel runs out. -/
def findReasonableEps (target : V → K × V) (dot : V → V → K) (allFinite : V → Bool) (pos mom : V) (fuel : Nat) : Option K :=
  let one : K := ((1 : Nat) : K)
  let two : K := ((2 : Nat) : K)
  let t0 := target pos
  let z0 : Pt K V := ⟨pos, mom, t0.2, t0.1⟩
  let logAcc (z : Pt K V) : K := z.logp - t0.1 - (dot z.mom z.mom - dot mom mom) * halfK
  -- first loop: halve while the latest log-density is non-finite *and* the gradient of the FIRST leapfrog was
  -- non-finite (the code never refreshes `grad_prime` inside the loop)
  let first := leapfrog target one z0
  let gradBad := !(allFinite first.grad)
  let rec halve (fuel : Nat) (k : K) (z : Pt K V) : Option (K × Pt K V) :=
    match fuel with
    | 0 => none
    | fuel + 1 =>
      if !(HasLnFin.isFinite z.logp) && gradBad then
        let k' := k * halfK
        halve fuel k' (leapfrog target (one * k') z0)
      else some (k, z)
  match halve fuel one first with
  | none => none
  | some (k, z1) =>
    let eps0 := halfK * k * one
    let la0 := logAcc z1
    let aPos := decide (HasLnFin.ln (halfK : K) < la0)
    let a : K := if aPos then one else -one
    -- second loop: double / halve until the acceptance probability crosses 1/2
    let rec cross (fuel : Nat) (eps la : K) : Option K :=
      match fuel with
      | 0 => none
      | fuel + 1 =>
        if (-a) * HasLnFin.ln two < a * la then
          let eps' := eps * (if aPos then two else halfK)
          cross fuel eps' (logAcc (leapfrog target eps' z0))
        else some eps
    cross fuel eps0 la0

end MiniMcmcVerif.NUTS

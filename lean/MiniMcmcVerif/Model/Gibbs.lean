/-
  C05 — model of one Gibbs sweep, gibbs.rs `GibbsMarkovChain::step` (lines 95-99):

      (0..self.current_state.len()).for_each(|i| self.current_state[i] = self.target.sample(i, &self.current_state));

  The user's `Conditional` is an arbitrary *stateful* program `samp : κ → Nat → List S → S × κ`
  (`&mut self`, index, `given`) ↦ (value, new self). The model also returns the ghost **call log**
  `[(index, given)]` so that "every coordinate once, conditioning on the freshest state" can be stated.
-/

namespace MiniMcmcVerif.Gibbs

variable {S κ : Type}

structure Sweep (S κ : Type) where
  state : List S
  cond : κ
  log : List (Nat × List S)

/-- body of the `for_each` at index `i`. -/
def sweepBody (samp : κ → Nat → List S → S × κ) (acc : Sweep S κ) (i : Nat) : Sweep S κ :=
  let r := samp acc.cond i acc.state
  { state := acc.state.set i r.1, cond := r.2, log := acc.log ++ [(i, acc.state)] }

/-- the state after the first `i` coordinates of the sweep have been refreshed. -/
def sweepUpTo (samp : κ → Nat → List S → S × κ) (k : κ) (s : List S) (i : Nat) : Sweep S κ :=
  (List.range i).foldl (sweepBody samp) ⟨s, k, []⟩

/-- `GibbsMarkovChain::step`. -/
def gibbsStep (samp : κ → Nat → List S → S × κ) (k : κ) (s : List S) : Sweep S κ :=
  sweepUpTo samp k s s.length

end MiniMcmcVerif.Gibbs

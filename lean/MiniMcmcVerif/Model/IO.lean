/-
  C17 — model of the row/label/offset logic of the export functions (values are opaque tokens; the byte encoders
  and decoders of csv / arrow-ipc / parquet are trusted):

  * `rowsChainMajor` : io/csv.rs `save_csv_tensor` (118-148): `for chain in 0..C { for obs in 0..N { offset = chain*N*K + obs*K; flat[offset..offset+K] } }`
  * `rowsObsMajor`   : io/parquet.rs `save_parquet_tensor` (172-226): tensor is [obs, chain, dim]; `offset = obs*C*K + chain*K`, labels (obs, chain)
  * `rowsArray3`     : `save_csv` / `save_arrow` / `save_parquet`: nested `axis_iter(Axis(0)).enumerate()` loops over a [chain][obs][dim] array
  * `header`, `headerObsMajor`
-/

namespace MiniMcmcVerif.IO

variable {α : Type}

structure Row (α : Type) where
  l1 : Nat
  l2 : Nat
  vals : List α
  deriving Repr, DecidableEq

def dimNames (K : Nat) : List String := (List.range K).map fun i => "dim_" ++ toString i
def header (K : Nat) : List String := ["chain", "observation"] ++ dimNames K
def headerObsMajor (K : Nat) : List String := ["observation", "chain"] ++ dimNames K

/-- `&flat[offset..offset + K]` -/
def slice (flat : List α) (offset K : Nat) : List α := (flat.drop offset).take K

def rowsChainMajor (C N K : Nat) (flat : List α) : List (Row α) :=
  (List.range C).flatMap fun c => (List.range N).map fun o => ⟨c, o, slice flat (c * N * K + o * K) K⟩

def rowsObsMajor (N C K : Nat) (flat : List α) : List (Row α) :=
  (List.range N).flatMap fun o => (List.range C).map fun c => ⟨o, c, slice flat (o * C * K + c * K) K⟩

/-- nested enumerate over `data[chain][obs] : List α` -/
def rowsArray3 (data : List (List (List α))) : List (Row α) :=
  (List.zipIdx data).flatMap fun (chain, c) => (List.zipIdx chain).map fun (obs, o) => ⟨c, o, obs⟩

/-- row-major reshape of a flat buffer to [A][B][K] -/
def reshape3 (A B K : Nat) (flat : List α) : List (List (List α)) :=
  (List.range A).map fun a => (List.range B).map fun b => slice flat (a * B * K + b * K) K

end MiniMcmcVerif.IO

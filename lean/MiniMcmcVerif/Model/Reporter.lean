import MiniMcmcVerif.Model.Run
/-
  C10 — models of progress mode.

  (i)  worker, core.rs `run_chain_progress` (90-136) / nuts.rs `NUTSChain::run_progress` (473-526): the `run_chain`
       loop body plus a message whenever the wall clock says so (`clock i`, arbitrary) and always at `i = total - 1`;
       the result of `send` (`ok`/`err` when the receiver is gone) is ignored.
  (ii) reporter thread, core.rs 258-323 = nuts.rs 238-303: `active` (≤ 5 chain ids shown), `next_active`,
       `n_finished`, `most_recent` (latest count seen per chain). One loop iteration = `iter`.
-/

namespace MiniMcmcVerif.Reporter
open MiniMcmcVerif.Run

variable {σ ρ : Type}

/-- loop body of the worker at index `i`: the `run_chain` body, plus the counts sent to the reporter. -/
def progBody (step : σ → σ) (obs : σ → ρ) (d total : Nat) (clock : Nat → Bool)
    (acc : (σ × List ρ) × List Nat) (i : Nat) : (σ × List ρ) × List Nat :=
  (runBody step obs d acc.1 i, if clock i || i == total - 1 then acc.2 ++ [i + 1] else acc.2)

/-- `run_chain_progress`: returns (state, rows) and the list of counts `n` it sent. -/
def runChainProgress (step : σ → σ) (obs : σ → ρ) (zero : ρ) (c d : Nat) (clock : Nat → Bool) (s : σ) :
    (σ × List ρ) × List Nat :=
  (List.range (c + d)).foldl (progBody step obs d (c + d) clock) ((s, List.replicate c zero), [])

/-! #### reporter -/

structure RState where
  active : List Nat
  nextActive : Nat
  nFinished : Nat
  mostRecent : List (Option Nat)
  deriving Repr, DecidableEq

/-- initial state for `N` chains: the first `min N 5` chains are shown. -/
def RState.init (N : Nat) : RState :=
  ⟨List.range (min N 5), min N 5, 0, List.replicate N none⟩

/-- `while let Ok(stats) = rx.recv_timeout(0) { most_recent[i] = Some(stats) }` for every channel: the latest count wins. -/
def drain (mr : List (Option Nat)) (arrivals : List (Nat × Nat)) : List (Option Nat) :=
  arrivals.foldl (fun mr a => mr.set a.1 (some a.2)) mr

def finished (mr : List (Option Nat)) (total i : Nat) : Bool := mr.getD i none == some total

/-- the pass over `active`: a shown chain whose latest count is `total` is counted as finished and replaced by the
    next waiting chain, or removed when none is waiting. Returns (new active, new next_active, number counted). -/
def sweep (mr : List (Option Nat)) (total N : Nat) : List Nat → Nat → List Nat × Nat × Nat
  | [], na => ([], na, 0)
  | i :: rest, na =>
    if finished mr total i then
      if na < N then
        let r := sweep mr total N rest (na + 1)
        (na :: r.1, r.2.1, r.2.2 + 1)
      else
        let r := sweep mr total N rest na
        (r.1, r.2.1, r.2.2 + 1)
    else
      let r := sweep mr total N rest na
      (i :: r.1, r.2.1, r.2.2)

/-- one iteration of the reporter loop; `true` = the loop breaks (`n_finished >= n_chains`). -/
def iter (total N : Nat) (st : RState) (arrivals : List (Nat × Nat)) : RState × Bool :=
  let mr := drain st.mostRecent arrivals
  let r := sweep mr total N st.active st.nextActive
  let st' : RState := ⟨r.1, r.2.1, st.nFinished + r.2.2, mr⟩
  (st', decide (N ≤ st'.nFinished))

/-- run the loop on a list of per-iteration arrival batches; returns the state and whether it has exited. -/
def runIters (total N : Nat) : RState → List (List (Nat × Nat)) → RState × Bool
  | st, [] => (st, false)
  | st, a :: rest =>
    let r := iter total N st a
    if r.2 then r else runIters total N r.1 rest

end MiniMcmcVerif.Reporter

/-
  C02 — model of one HMC update, hmc.rs `HMC::step` (304-377) and `HMC::leapfrog` (397-431).

  Written over an abstract scalar type `K` and vector type `V` with `+` on vectors and scalar multiplication, so
  that the same definitions are executed by the driver at `K = Float`, `V = List Float` (row of the batch) and
  reasoned about at a module over a field.

  * `verlet`        : the textbook velocity-Verlet (leapfrog) step: half-step momentum, full-step position, half-step momentum
  * `leapfrogCode`  : the loop as coded, with the *carried* summand `g = (ε·½)·∇logp(pos)` (`last_grad_summands`)
  * `hmcStepRow`    : one row of `HMC::step`: recompute `g` at the current position, `H = -logp + ke(p)`, leapfrog,
                      accept iff `H(x,p) - H(x',p') ≥ ln u`, `mask_where` = per-row select (never a blend)
  * `hmcStep`       : the batch: rows are updated independently (`zipWith3`), the carried summand of the previous
                      step is an explicit (ignored) input
-/

namespace MiniMcmcVerif.HMC

variable {K V : Type} [Add V] [SMul K V] [Mul K]

/-- one velocity-Verlet step of size `eps` for the potential `-logp` (`grad = ∇logp`); `half = 0.5`. -/
def verlet (grad : V → V) (eps half : K) (s : V × V) : V × V :=
  let p1 := s.2 + (eps * half) • grad s.1
  let x1 := s.1 + eps • p1
  let p2 := p1 + (eps * half) • grad x1
  (x1, p2)

/-- loop body of `HMC::leapfrog`: `(pos, mom, g)` with `g` the carried summand. -/
def leapBody (grad : V → V) (eps half : K) (s : V × V × V) : V × V × V :=
  let mom1 := s.2.1 + s.2.2
  let pos1 := s.1 + eps • mom1
  let g1 := (eps * half) • grad pos1
  let mom2 := mom1 + g1
  (pos1, mom2, g1)

/-- `n`-fold application -/
def iter {σ : Type} (f : σ → σ) : Nat → σ → σ
  | 0, s => s
  | n + 1, s => iter f n (f s)

def leapfrogCode (grad : V → V) (eps half : K) (L : Nat) (s : V × V × V) : V × V × V := iter (leapBody grad eps half) L s

variable [Neg K] [Add K] [Sub K] [LE K] [DecidableLE K]

/-- Hamiltonian `-logp(x) + ke(p)` -/
def hamiltonian (logp ke : V → K) (x p : V) : K := (-(logp x)) + ke p

/-- one row of `HMC::step`; returns the new position and the summand it leaves behind. -/
def hmcStepRow (logp : V → K) (grad : V → V) (ke : V → K) (eps half : K) (L : Nat) (x p : V) (lnu : K) : V × V :=
  let g := (eps * half) • grad x
  let r := leapfrogCode grad eps half L (x, p, g)
  let h0 := hamiltonian logp ke x p
  let h1 := hamiltonian logp ke r.1 r.2.1
  (if lnu ≤ h0 - h1 then r.1 else x, r.2.2)

/-- the batch update; `carried` = the summands left by the previous step (overwritten before use). -/
def hmcStep (logp : V → K) (grad : V → V) (ke : V → K) (eps half : K) (L : Nat)
    (positions : List V) (_carried : List V) (momenta : List V) (lnus : List K) : List V × List V :=
  let rows := List.zipWith (fun (xp : V × V) lnu => hmcStepRow logp grad ke eps half L xp.1 xp.2 lnu) (List.zip positions momenta) lnus
  (rows.map (·.1), rows.map (·.2))

end MiniMcmcVerif.HMC

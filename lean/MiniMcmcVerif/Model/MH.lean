/-
  C01 / C14 — model of one Metropolis–Hastings step, metropolis_hastings.rs `MHMarkovChain::step` (303-315):

      let proposed        = self.proposal.sample(&self.current_state);
      let current_lp      = self.target.unnorm_logp(&self.current_state);
      let proposed_lp     = self.target.unnorm_logp(&proposed);
      let log_q_forward   = self.proposal.logp(&self.current_state, &proposed);
      let log_q_backward  = self.proposal.logp(&proposed, &self.current_state);
      let log_accept_ratio = (proposed_lp + log_q_backward) - (current_lp + log_q_forward);
      let u: F = self.rng.random();
      if log_accept_ratio > u.ln() { self.current_state = proposed; }

  The user's `Target` / `Proposal` are arbitrary functions (`Oracle`); `x` is the current state, `y` the candidate
  the proposal produced, `lnu = ln u`. Polymorphic in the state type and in the scalar.
-/

namespace MiniMcmcVerif.MH

structure Oracle (S F : Type) where
  /-- `Target::unnorm_logp` -/
  logp : S → F
  /-- `Proposal::logp(from, to)` = log q(to | from) -/
  q : S → S → F

variable {S F : Type} [Add F] [Sub F] [LT F] [DecidableLT F]

/-- `(proposed_lp + log_q_backward) - (current_lp + log_q_forward)` with exactly this association. -/
def logRatio (o : Oracle S F) (x y : S) : F := (o.logp y + o.q y x) - (o.logp x + o.q x y)

/-- `log_accept_ratio > u.ln()` (strict). -/
def accepts (o : Oracle S F) (x y : S) (lnu : F) : Bool := decide (lnu < logRatio o x y)

/-- the state the chain is left in: the candidate itself or the untouched current state. -/
def mhStep (o : Oracle S F) (x y : S) (lnu : F) : S := if lnu < logRatio o x y then y else x

end MiniMcmcVerif.MH

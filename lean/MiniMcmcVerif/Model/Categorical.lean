/-
  C16 — model of `Categorical` (distributions.rs 430-477), polymorphic in the scalar so that the very same
  definitions are run by the driver at `Float`/`Float32` and reasoned about at an ordered field.

  * `normalize`   : `Categorical::new` — `sum = fold(0, acc + x)`, `p / sum`
  * `sampleIdx`   : `Discrete::sample` — inverse-CDF scan `cum += p; if r < cum { k = i; break }` with the fallback
                    "last index whose probability is positive, else `len - 1`"
  * `logpIdx`     : `Discrete::logp`
-/

namespace MiniMcmcVerif.Categorical

variable {α : Type} [Add α] [Div α] [LT α] [DecidableLT α] [OfNat α 0]

def total (ws : List α) : α := ws.foldl (· + ·) 0

def normalize (ws : List α) : List α := ws.map (· / total ws)

/-- `probs.iter().rposition(|p| p > 0)`, scanning from the right; `none` if no positive entry. -/
def lastPos : List α → Option Nat
  | [] => none
  | p :: ps =>
    match lastPos ps with
    | some k => some (k + 1)
    | none => if (0 : α) < p then some 0 else none

def fallback (probs : List α) : Nat := (lastPos probs).getD (probs.length - 1)

/-- the `for (i, &p) in probs.iter().enumerate()` scan from position `i` with running sum `cum`;
    `none` = loop ended without `break`. -/
def scan (r : α) : List α → α → Nat → Option Nat
  | [], _, _ => none
  | p :: ps, cum, i =>
    let cum' := cum + p
    if r < cum' then some i else scan r ps cum' (i + 1)

def sampleIdx (probs : List α) (r : α) : Nat := (scan r probs 0 0).getD (fallback probs)

end MiniMcmcVerif.Categorical

/-
  C07 / C08 — exact 64-bit model of how the samplers seed their generators.

  * `seedFromU64`  : rand 0.9 `Xoshiro256PlusPlus::seed_from_u64` (= `SmallRng::seed_from_u64` on 64-bit targets):
                     four rounds of splitmix64 fill the state words.
  * `Xo.next`      : xoshiro256++ `next_u64`.
  * per-chain seed derivations of the four samplers (all additions wrap):
      MetropolisHastings::seed : acceptance `seed + i + 1`, proposal `seed + i + 1 + 2^63`
      GibbsSampler::set_seed   : `seed + i`
      NUTS::set_seed           : `seed + i + 1`
      HMC::set_seed            : one generator seeded with `seed`
-/

namespace MiniMcmcVerif.Seeds

abbrev W := BitVec 64

def PHI : W := 0x9e3779b97f4a7c15#64
def M1 : W := 0xbf58476d1ce4e5b9#64
def M2 : W := 0x94d049bb133111eb#64

def xs (k : Nat) (z : W) : W := z ^^^ (z >>> k)

/-- splitmix64 output function -/
def mix (z : W) : W := xs 31 (xs 27 (xs 30 z * M1) * M2)

structure Xo where
  s0 : W
  s1 : W
  s2 : W
  s3 : W
  deriving DecidableEq, Repr

def seedFromU64 (seed : W) : Xo :=
  ⟨mix (seed + PHI), mix (seed + PHI + PHI), mix (seed + PHI + PHI + PHI), mix (seed + PHI + PHI + PHI + PHI)⟩

def Xo.next (x : Xo) : W × Xo :=
  let result := (x.s0 + x.s3).rotateLeft 23 + x.s0
  let t := x.s1 <<< 17
  let s2 := x.s2 ^^^ x.s0
  let s3 := x.s3 ^^^ x.s1
  let s1 := x.s1 ^^^ s2
  let s0 := x.s0 ^^^ s3
  let s2 := s2 ^^^ t
  let s3 := s3.rotateLeft 45
  (result, ⟨s0, s1, s2, s3⟩)

def Xo.take : Nat → Xo → List W
  | 0, _ => []
  | n + 1, x => let r := x.next; r.1 :: Xo.take n r.2

/-- the generator state after `n` draws -/
def Xo.iter : Nat → Xo → Xo
  | 0, x => x
  | n + 1, x => Xo.iter n x.next.2

/-- rand 0.9 `StandardUniform` for `f64`: the top 53 bits of one `next_u64`, scaled by `2^-53`
    (`scale * (value >> 11) as f64`). The numerator: -/
def unif53 (w : W) : Nat := (w >>> 11).toNat
/-- rand 0.9 `StandardUniform` for `f32`: `next_u32` of xoshiro256++ is the top 32 bits of `next_u64`; the sample is
    `(value >> 8) as f32 * 2^-24`, i.e. the top 24 bits of the word. The numerator: -/
def unif24 (w : W) : Nat := (w >>> 40).toNat

/-- executable: the `f64` uniform of a word -/
def unifF64 (w : W) : Float := Float.ofNat (unif53 w) / Float.ofNat (2 ^ 53)
/-- executable: the `f32` uniform of a word -/
def unifF32 (w : W) : Float32 := Float32.ofNat (unif24 w) / Float32.ofNat (2 ^ 24)

def mhAcceptSeed (seed : W) (i : Nat) : W := seed + BitVec.ofNat 64 i + 1#64
def mhProposalSeed (seed : W) (i : Nat) : W := mhAcceptSeed seed i + (1#64 <<< 63)
def gibbsSeed (seed : W) (i : Nat) : W := seed + BitVec.ofNat 64 i
def nutsSeed (seed : W) (i : Nat) : W := seed + BitVec.ofNat 64 i + 1#64

end MiniMcmcVerif.Seeds

/-
  C04 — model of the NUTS step-size adaptation, nuts.rs 676-690 (inside `step`), `init_chain` (528-545) and
  `find_reasonable_epsilon` (695-761).

      if m <= n_discard { eta = 1/(m + t0);  h_bar = (1-eta)·h_bar + eta·(δ - α/n_α)
                          ε = clamp(exp(μ - √m/γ·h_bar));  eta = m^(-κ);  ε̄ = clamp(exp((1-eta)·ln ε̄ + eta·ln ε)) }
      else { ε = ε̄ }
      clamp(e) = e.max(T::min_positive_value()).min(T::max_value())

  (since fix aad1add: before it, h_bar was updated on every transition and there was no clamp — finding F9.)
-/

namespace MiniMcmcVerif.DualAvg

class TrOps (K : Type) where
  exp : K → K
  ln : K → K
  sqrt : K → K
  /-- `x.powf(-κ)` -/
  npow : K → K → K
  /-- `clamp lo hi e = e.max(lo).min(hi)` with Rust's `max`/`min` (a NaN operand loses) -/
  clamp : K → K → K → K

/-- Rust `e.max(lo).min(hi)` spelled with comparisons only: an `e` that is not `≥ lo` (too small, or NaN) gives `lo`. -/
def clampOrd {K : Type} [LE K] [DecidableLE K] (lo hi e : K) : K :=
  let y := if lo ≤ e then e else lo
  if y ≤ hi then y else hi

structure Adapt (K : Type) where
  m : Nat
  nDiscard : Nat
  eps : K
  epsBar : K
  hBar : K
  mu : K

variable {K : Type} [Add K] [Sub K] [Mul K] [Div K] [NatCast K] [TrOps K]

/-- the adaptation at the end of `step` (after `self.m += 1` at its start), given the transition's statistic `a = α/n_α`;
    `lo`/`hi` are `T::min_positive_value()` / `T::max_value()` -/
def adaptStep (lo hi : K) (delta gamma kappa : K) (t0 : Nat) (st : Adapt K) (a : K) : Adapt K :=
  let m := st.m + 1
  if m ≤ st.nDiscard then
    let eta := ((1 : Nat) : K) / ((m + t0 : Nat) : K)
    let hBar := (((1 : Nat) : K) - eta) * st.hBar + eta * (delta - a)
    let mK : K := ((m : Nat) : K)
    let eps := TrOps.clamp lo hi (TrOps.exp (st.mu - TrOps.sqrt mK / gamma * hBar))
    let eta2 := TrOps.npow mK kappa
    let epsBar := TrOps.clamp lo hi (TrOps.exp ((((1 : Nat) : K) - eta2) * TrOps.ln st.epsBar + eta2 * TrOps.ln eps))
    { st with m := m, eps := eps, epsBar := epsBar, hBar := hBar }
  else
    { st with m := m, eps := st.epsBar }

/-- `init_chain`: stores the warm-up length of this run and re-centres `μ = ln(10 ε)`; keeps `m`, `h_bar`, `ε̄`, `ε`
    (`ε` is found by `find_reasonable_epsilon` on first use only — passed in as `eps0`). -/
def initChain (st : Adapt K) (nDiscard : Nat) (firstUse : Bool) (eps0 : K) : Adapt K :=
  let eps := if firstUse then eps0 else st.eps
  { st with nDiscard := nDiscard, eps := eps, mu := TrOps.ln (((10 : Nat) : K) * eps) }

/-- a whole `run` as far as the step size is concerned: `init_chain`, then one `adaptStep` per transition -/
def runAdapt (lo hi : K) (delta gamma kappa : K) (t0 : Nat) (st : Adapt K) (nDiscard : Nat) (firstUse : Bool) (eps0 : K) (stats : List K) : Adapt K :=
  stats.foldl (adaptStep lo hi delta gamma kappa t0) (initChain st nDiscard firstUse eps0)

end MiniMcmcVerif.DualAvg

/-
  C04 — model of the NUTS step-size adaptation, nuts.rs 676-690 (inside `step`), `init_chain` (528-545) and
  `find_reasonable_epsilon` (695-761).

      eta = 1/(m + t0);  h_bar = (1-eta)·h_bar + eta·(δ - α/n_α)
      if m <= n_discard { ε = exp(μ - √m/γ·h_bar);  eta = m^(-κ);  ε̄ = exp((1-eta)·ln ε̄ + eta·ln ε) } else { ε = ε̄ }
-/

namespace MiniMcmcVerif.DualAvg

class TrOps (K : Type) where
  exp : K → K
  ln : K → K
  sqrt : K → K
  /-- `x.powf(-κ)` -/
  npow : K → K → K

structure Adapt (K : Type) where
  m : Nat
  nDiscard : Nat
  eps : K
  epsBar : K
  hBar : K
  mu : K

variable {K : Type} [Add K] [Sub K] [Mul K] [Div K] [NatCast K] [TrOps K]

/-- the adaptation at the end of `step` (after `self.m += 1` at its start), given the transition's statistic `a = α/n_α` -/
def adaptStep (delta gamma kappa : K) (t0 : Nat) (st : Adapt K) (a : K) : Adapt K :=
  let m := st.m + 1
  let eta := ((1 : Nat) : K) / ((m + t0 : Nat) : K)
  let hBar := (((1 : Nat) : K) - eta) * st.hBar + eta * (delta - a)
  if m ≤ st.nDiscard then
    let mK : K := ((m : Nat) : K)
    let eps := TrOps.exp (st.mu - TrOps.sqrt mK / gamma * hBar)
    let eta2 := TrOps.npow mK kappa
    let epsBar := TrOps.exp ((((1 : Nat) : K) - eta2) * TrOps.ln st.epsBar + eta2 * TrOps.ln eps)
    { st with m := m, eps := eps, epsBar := epsBar, hBar := hBar }
  else
    { st with m := m, eps := st.epsBar, hBar := hBar }

/-- `init_chain`: stores the warm-up length of this run and re-centres `μ = ln(10 ε)`; keeps `m`, `h_bar`, `ε̄`, `ε`
    (`ε` is found by `find_reasonable_epsilon` on first use only — passed in as `eps0`). -/
def initChain (st : Adapt K) (nDiscard : Nat) (firstUse : Bool) (eps0 : K) : Adapt K :=
  let eps := if firstUse then eps0 else st.eps
  { st with nDiscard := nDiscard, eps := eps, mu := TrOps.ln (((10 : Nat) : K) * eps) }

/-- a whole `run` as far as the step size is concerned: `init_chain`, then one `adaptStep` per transition -/
def runAdapt (delta gamma kappa : K) (t0 : Nat) (st : Adapt K) (nDiscard : Nat) (firstUse : Bool) (eps0 : K) (stats : List K) : Adapt K :=
  stats.foldl (adaptStep delta gamma kappa t0) (initChain st nDiscard firstUse eps0)

end MiniMcmcVerif.DualAvg

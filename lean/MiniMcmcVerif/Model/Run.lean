/-
  C09 — models of the three `run` loops, written the way the Rust code is written.

  * `runChain`  : core.rs `run_chain` (lines 55-73): `out = zeros(c)`, `for i in 0..c+d { step; if i >= d { out[i-d] = state } }`
  * `hmcRun`    : hmc.rs `HMC::run` (137-158): discard loop, `for step in 1..=c { step; out[step-1] = positions }`, permute.
  * `nutsRun`   : nuts.rs `NUTSChain::run` (457-471) with `init_chain` (528-545): row 0 := current position,
                  `for m in 1..c+d { step; if m >= d { out[m-d] = position } }`.
  * `runAll`    : `par_iter_mut().map(run_chain).collect()` + `stack(Axis(0))` — order preserving map (rayon's
                  indexed collect and ndarray's `stack` are in the trusted base).

  A chain is an abstract state `σ` with a deterministic `step : σ → σ` (all randomness the chain owns lives in `σ`)
  and an observation `obs : σ → ρ` (the row that gets stored).
-/

namespace MiniMcmcVerif.Run

variable {σ ρ : Type}

/-- `n`-fold application (`(0..n).for_each(|_| self.step())`); equals Mathlib's `step^[n]` (`iter_eq`). -/
def iter (step : σ → σ) : Nat → σ → σ
  | 0, s => s
  | n + 1, s => iter step n (step s)

/-- loop body of `run_chain` at loop index `i`. -/
def runBody (step : σ → σ) (obs : σ → ρ) (d : Nat) (acc : σ × List ρ) (i : Nat) : σ × List ρ :=
  let st := step acc.1
  (st, if d ≤ i then acc.2.set (i - d) (obs st) else acc.2)

/-- core.rs `run_chain`. Returns the chain state it leaves behind and the collected rows. -/
def runChain (step : σ → σ) (obs : σ → ρ) (zero : ρ) (c d : Nat) (s : σ) : σ × List ρ :=
  (List.range (c + d)).foldl (runBody step obs d) (s, List.replicate c zero)

/-- hmc.rs `HMC::run` before the final permute: `d` discarded steps, then `for step in 1..=c`. -/
def hmcRun (step : σ → σ) (obs : σ → ρ) (zero : ρ) (c d : Nat) (s : σ) : σ × List ρ :=
  let s1 := iter step d s
  (List.range' 1 c).foldl
    (fun (acc : σ × List ρ) stepi => let st := step acc.1; (st, acc.2.set (stepi - 1) (obs st)))
    (s1, List.replicate c zero)

/-- `permute([1,0,2])` of a `[c, chains, dim]` tensor given as `c` rows of `chains` entries. -/
def permute10 (nChains : Nat) (rows : List (List ρ)) (dflt : ρ) : List (List ρ) :=
  (List.range nChains).map fun ch => rows.map fun r => r.getD ch dflt

/-- nuts.rs `NUTSChain::run`; `init` is `init_chain` (may change the chain state: it draws a momentum, finds
    the first step size, stores `n_discard`), it does not move the position. Requires `c ≥ 1` in the code
    (`slice_assign([0..1, ..])` on an empty tensor panics). -/
def nutsRun (init : σ → σ) (step : σ → σ) (obs : σ → ρ) (zero : ρ) (c d : Nat) (s : σ) : σ × List ρ :=
  let s0 := init s
  (List.range' 1 (c + d - 1)).foldl (runBody step obs d) (s0, (List.replicate c zero).set 0 (obs s0))

/-- `ChainRunner::run` / `NUTS::run`: every chain run on its own, results stacked in chain order. -/
def runAll (run1 : σ → σ × List ρ) (chains : List σ) : List σ × List (List ρ) :=
  let rs := chains.map run1
  (rs.map (·.1), rs.map (·.2))

/-- A history of consecutive `run` calls on one chain; returns the rows of every call. -/
def runHistory (run1 : Nat → Nat → σ → σ × List ρ) : List (Nat × Nat) → σ → σ × List (List ρ)
  | [], s => (s, [])
  | (c, d) :: rest, s =>
    let r := run1 c d s
    let r' := runHistory run1 rest r.1
    (r'.1, r.2 :: r'.2)

end MiniMcmcVerif.Run

/-
  A short explicit list of IEEE-754 facts about special values, as a type class. The "never moves to a NaN / -inf
  density" theorems (C01, C14) are proved for every carrier satisfying them. `XR` is a concrete 4-constructor
  model (`nan | ninf | fin q | pinf`) proved to satisfy the laws (non-vacuity, `Props/IEEE.lean`); that hardware
  floats satisfy them is in the trusted base and the law table is evaluated on native f32/f64 by the harness on every run.
-/

namespace MiniMcmcVerif

/-- `Bad a` is meant as "a is NaN or −inf" (a log-density of zero / undefined density). -/
class IEEELaws (F : Type) [Add F] [Sub F] [LT F] where
  Bad : F → Prop
  /-- NaN + x = NaN, −inf + x ∈ {−inf, NaN} -/
  bad_add_left : ∀ a b : F, Bad a → Bad (a + b)
  /-- x + NaN = NaN, x + −inf ∈ {−inf, NaN} -/
  bad_add_right : ∀ a b : F, Bad b → Bad (a + b)
  /-- NaN − x = NaN, −inf − x ∈ {−inf, NaN} -/
  bad_sub_left : ∀ a b : F, Bad a → Bad (a - b)
  /-- nothing is strictly below NaN or −inf -/
  not_lt_bad : ∀ a c : F, Bad a → ¬ c < a
  /-- `IsNaN a`: every comparison with a NaN is false, NaN propagates through + and − on either side -/
  IsNaN : F → Prop
  nan_bad : ∀ a : F, IsNaN a → Bad a
  nan_add_left : ∀ a b : F, IsNaN a → IsNaN (a + b)
  nan_add_right : ∀ a b : F, IsNaN b → IsNaN (a + b)
  nan_sub_left : ∀ a b : F, IsNaN a → IsNaN (a - b)
  nan_sub_right : ∀ a b : F, IsNaN b → IsNaN (a - b)
  not_lt_nan : ∀ a c : F, IsNaN a → ¬ c < a
  not_nan_lt : ∀ a c : F, IsNaN a → ¬ a < c

end MiniMcmcVerif

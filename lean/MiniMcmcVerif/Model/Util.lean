/-
  Shared helpers for the executable models and the line-protocol driver.
  Core Lean only (no Mathlib / Batteries) so that the compiled driver links.
-/

namespace MiniMcmcVerif

/-- `NatCast Float` is not in core. The polymorphic numeric models use `((n : Nat) : α)`. -/
instance : NatCast Float := ⟨Float.ofNat⟩
instance : NatCast Float32 := ⟨Float32.ofNat⟩

def hexDigit (c : Char) : Option Nat :=
  if '0' ≤ c ∧ c ≤ '9' then some (c.toNat - '0'.toNat)
  else if 'a' ≤ c ∧ c ≤ 'f' then some (c.toNat - 'a'.toNat + 10)
  else none

def parseHex (s : String) : Option Nat :=
  if s.isEmpty then none else
  s.toList.foldl (fun acc c => do let a ← acc; let d ← hexDigit c; pure (a * 16 + d)) (some 0)

def hexOf (width : Nat) (n : Nat) : String :=
  let ds := Nat.toDigits 16 n
  String.ofList (List.replicate (width - ds.length) '0' ++ ds)

/-- f64 from a 16-hex-digit bit pattern. -/
def f64OfHex (s : String) : Option Float := (parseHex s).map fun n => Float.ofBits n.toUInt64
def f64ToHex (x : Float) : String := hexOf 16 x.toBits.toNat
/-- f32 from an 8-hex-digit bit pattern. -/
def f32OfHex (s : String) : Option Float32 := (parseHex s).map fun n => Float32.ofBits n.toUInt32
def f32ToHex (x : Float32) : String := hexOf 8 x.toBits.toNat

/-- Tolerant-compare tokens: `d<16 hex>` for an f64 value, `s<8 hex>` for an f32 value. -/
def tokD (x : Float) : String := "d" ++ f64ToHex x
def tokS (x : Float32) : String := "s" ++ f32ToHex x

def words (line : String) : List String :=
  (line.trimAscii.toString.splitOn " ").filter (· ≠ "")

def allSome {α} : List (Option α) → Option (List α)
  | [] => some []
  | none :: _ => none
  | some a :: r => (allSome r).map (a :: ·)

def parseNats (ws : List String) : Option (List Nat) := allSome (ws.map String.toNat?)
def parseInts (ws : List String) : Option (List Int) := allSome (ws.map String.toInt?)
def parseF64s (ws : List String) : Option (List Float) := allSome (ws.map f64OfHex)
def parseF32s (ws : List String) : Option (List Float32) := allSome (ws.map f32OfHex)

/-- split a list into consecutive chunks of length `k` (last may be shorter); `k = 0` gives `[]`. -/
def chunks {α} (k : Nat) (l : List α) : List (List α) :=
  if k = 0 then [] else
  let rec go (fuel : Nat) (l : List α) (acc : List (List α)) : List (List α) :=
    match fuel with
    | 0 => acc.reverse
    | fuel + 1 => if l.isEmpty then acc.reverse else go fuel (l.drop k) (l.take k :: acc)
  go l.length l []

/-- split a word list at every occurrence of `sep`. -/
def splitAt' (sep : String) (ws : List String) : List (List String) :=
  let (cur, acc) := ws.foldl (fun (cur, acc) w =>
    if w = sep then ([], cur.reverse :: acc) else (w :: cur, acc)) ([], [])
  (cur.reverse :: acc).reverse

def join (ws : List String) : String := " ".intercalate ws

end MiniMcmcVerif

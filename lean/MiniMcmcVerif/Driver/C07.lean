import MiniMcmcVerif.Model.Util
import MiniMcmcVerif.Model.Seeds

namespace MiniMcmcVerif.Driver
open MiniMcmcVerif MiniMcmcVerif.Seeds

def wordsOf (seed : W) : String := ",".intercalate ((Xo.take 4 (seedFromU64 seed)).map fun w => hexOf 16 w.toNat)

/-- `c07 <id> mh|gibbs|nuts|hmc <seed> <nchains>` → per chain the first four `next_u64` of every generator the
    sampler seeds: `a:…` acceptance / chain generator, `p:…` proposal generator (MH only). -/
def c07 (args : List String) : String :=
  match args with
  | [id, kind, seed, n] =>
    match seed.toNat?, n.toNat? with
    | some s, some n =>
      let s : W := BitVec.ofNat 64 s
      let chains := (List.range n).map fun i =>
        match kind with
        | "mh" => "a:" ++ wordsOf (mhAcceptSeed s i) ++ " p:" ++ wordsOf (mhProposalSeed s i)
        | "gibbs" => "a:" ++ wordsOf (gibbsSeed s i)
        | "nuts" => "a:" ++ wordsOf (nutsSeed s i)
        | "hmc" => "a:" ++ wordsOf s
        | _ => "bad-kind"
      id ++ " " ++ " | ".intercalate chains
    | _, _ => id ++ " bad-op"
  | id :: _ => id ++ " bad-op"
  | _ => "bad-op"

/-- `c07u <id> <seed>` → the first four `random::<f64>()` and the first four `random::<f32>()` of
    `SmallRng::seed_from_u64(seed)` (bit patterns, compared exactly). -/
def c07u (args : List String) : String :=
  match args with
  | [id, seed] =>
    match seed.toNat? with
    | some s =>
      let ws := Xo.take 4 (seedFromU64 (BitVec.ofNat 64 s))
      id ++ " " ++ ",".intercalate (ws.map fun w => f64ToHex (unifF64 w)) ++ " " ++ ",".intercalate (ws.map fun w => f32ToHex (unifF32 w))
    | none => id ++ " bad-op"
  | id :: _ => id ++ " bad-op"
  | _ => "bad-op"

end MiniMcmcVerif.Driver

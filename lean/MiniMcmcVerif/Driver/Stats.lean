import MiniMcmcVerif.Model.Util
import MiniMcmcVerif.Model.Stats

/-! Driver glue for C11 / C12 / C13: the polymorphic statistics models at `Float` (reference) and at `Float32`
    (operation-for-operation mirror of the f32 Rust code, used to judge conditioning). -/

namespace MiniMcmcVerif.Driver
open MiniMcmcVerif MiniMcmcVerif.Stats

def toF64s (xs : List Float32) : List Float := xs.map Float32.toFloat

/-- relative agreement of the f32 mirror with the f64 reference; NaN agrees with NaN -/
def agree (a : Float) (b : Float32) (tol : Float) : Bool :=
  let b' := b.toFloat
  if a.isNaN || b'.isNaN then a.isNaN && b'.isNaN
  else if a.isInf || b'.isInf then a == b'
  else (a - b').abs ≤ tol * (max a.abs b'.abs) + 1e-30

def chainsOfColumn {β : Type} (m n : Nat) (flat : List β) (dflt : β) : List (List β) :=
  let a := flat.toArray
  (List.range m).map fun c => (List.range n).map fun t => a.getD (c * n + t) dflt

/-- `c11 <id> <chains> <draws> ; column (f32 bits, chain-major)` → `<id> rhat` for that parameter.
    INDET when the f32 mirror and the f64 reference disagree by more than a quarter of the comparison tolerance
    (ill-conditioned input: the f32 code cannot be expected to agree with the exact value). -/
def c11 (args : List String) : String :=
  match args with
  | id :: m :: n :: ";" :: toks =>
    match m.toNat?, n.toNat?, parseF32s toks with
    | some m, some n, some xs =>
      let d32 := splitcat (chainsOfColumn m n xs 0)
      let d64 := splitcat (chainsOfColumn m n (toF64s xs) 0)
      let r64 := (rhatSq d64).sqrt
      let r32 := (rhatSq d32).sqrt
      -- W = 0 (e.g. a constant parameter): the diagnostic is undefined (0/0), nothing to compare
      if r64.isNaN then id ++ " INDET"
      else if agree r64 r32 5e-4 then id ++ " " ++ tokD r64 else id ++ " INDET"
    | _, _, _ => id ++ " bad-op"
  | id :: _ => id ++ " bad-op"
  | _ => "bad-op"

/-- `c11b <id> ; values (f32 bits, all finite)` → `<id> min median max mean std` -/
def c11b (args : List String) : String :=
  match args with
  | id :: ";" :: toks =>
    match parseF32s toks with
    | some xs =>
      let b32 := basicStats xs
      let b64 := basicStats (toF64s xs)
      id ++ " " ++ join [f32ToHex b32.min, f32ToHex b32.median, f32ToHex b32.max, tokD b64.mean, tokD b64.var.sqrt]
    | none => id ++ " bad-op"
  | id :: _ => id ++ " bad-op"
  | _ => "bad-op"

/-- index of the first non-positive pair sum (the Geyer truncation point) -/
def truncIdx32 (ps : List Float32) : Nat := (ps.takeWhile fun p => ¬ (p ≤ 0)).length
def truncIdx64 (ps : List Float) : Nat := (ps.takeWhile fun p => ¬ (p ≤ 0)).length

/-- `c12 <id> <chains> <draws> ; column` → `<id> ess`. The model uses the brute-force autocovariance for every
    length (`circ_eq_linear`: the padded circular form is the same function); INDET when the f32 mirror truncates
    Geyer's sequence elsewhere or disagrees by more than a quarter of the tolerance (ESS is discontinuous there). -/
def c12 (args : List String) : String :=
  match args with
  | id :: m :: n :: ";" :: toks =>
    match m.toNat?, n.toNat?, parseF32s toks with
    | some m, some n, some xs =>
      let d32 := splitcat (chainsOfColumn m n xs 0)
      let d64 := splitcat (chainsOfColumn m n (toF64s xs) 0)
      let wv32 := withinVar d32
      let wv64 := withinVar d64
      let e32 := essWith autocovBF d32 wv32.1 wv32.2
      let e64 := essWith autocovBF d64 wv64.1 wv64.2
      let t32 := truncIdx32 (pairSums e32.1)
      let t64 := truncIdx64 (pairSums e64.1)
      if e64.2.2.isNaN then id ++ " INDET"
      else if t32 == t64 && agree e64.2.2 e32.2.2 1.2e-3 then id ++ " " ++ tokD e64.2.2 else id ++ " INDET"
    | _, _, _ => id ++ " bad-op"
  | id :: _ => id ++ " bad-op"
  | _ => "bad-op"

/-- `c12a <id> ; column` → `<id> acov_bf[lag]/acov[0] … # acov_circ[lag]/acov[0] …` (the circular form only for n ≤ 256, else the bf values again) -/
def c12a (args : List String) : String :=
  match args with
  | id :: ";" :: toks =>
    match parseF32s toks with
    | some xs =>
      let x := toF64s xs
      let bf := autocovBF x
      let a0 := bf.getD 0 1
      let circ := if x.length ≤ 256 then autocovCirc x else bf
      id ++ " " ++ join (bf.map fun a => tokD (a / a0)) ++ " # " ++ join (circ.map fun a => tokD (a / a0))
    | none => id ++ " bad-op"
  | id :: _ => id ++ " bad-op"
  | _ => "bad-op"

def momsOf {β : Type} [Add β] [Sub β] [Mul β] [Div β] [NatCast β] [OfNat β 0]
    (m n p : Nat) (flat : Array β) (dflt : β) : List (List (Mom β)) :=
  -- [chain][param] moments after feeding draws 1..n (row 0 of every chain is the initial state)
  (List.range m).map fun c => (List.range p).map fun d =>
    Mom.feed ((List.range n).map fun t => flat.getD ((c * (n + 1) + t + 1) * p + d) dflt)

/-- `c13 <id> <chains> <draws> <params> ; data` with `draws+1` rows per chain (row 0 = initial state), chain-major.
    → `<id> n # p_accept(chain 0) # mean… # sm2… (chain 0) # collect_rhat… # multi_rhat… # multi p_accept` -/
def c13 (args : List String) : String :=
  match args with
  | id :: m :: n :: p :: ";" :: toks =>
    match m.toNat?, n.toNat?, p.toNat?, parseF32s toks with
    | some m, some n, some p, some xs =>
      let xa := xs.toArray
      let ms64 := momsOf m n p (toF64s xs).toArray 0
      let ms32 := momsOf m n p xa 0
      let row (c t : Nat) : List Float32 := (List.range p).map fun d => xa.getD ((c * (n + 1) + t) * p + d) 0
      -- ChainTracker acceptance EMA of chain 0 (f32, exactly as coded: start from the first-coordinate indicator)
      let a : Float32 := 0.01
      let pacc0 : Float32 := (List.range n).foldl (fun (acc : Float32) t =>
          let cur := row 0 (t + 1); let prev := row 0 t
          let start : Float32 := if acc ≥ 0 then acc else (if cur.getD 0 0 != prev.getD 0 0 then 1 else 0)
          emaStep a start (cur != prev)) (-1)
      -- MultiChainTracker acceptance EMA: starts at 0, last_state starts as zeros, one update per chain row
      let paccM : Float32 := (List.range n).foldl (fun (acc : Float32) t =>
          (List.range m).foldl (fun (acc : Float32) c =>
            let cur := row c (t + 1)
            let prev := if t = 0 then (List.range p).map (fun _ => (0 : Float32)) else row c t
            emaStep a acc (cur != prev)) acc) 0
      let c0 := ms64.getD 0 []
      let statsOf (ms : List (List (Mom Float))) (d : Nat) : List (Nat × Float × Float) :=
        ms.map fun ch => let k := ch.getD d Mom.init; (k.n, k.mean, k.sm2)
      let statsOf32 (ms : List (List (Mom Float32))) (d : Nat) : List (Nat × Float32 × Float32) :=
        ms.map fun ch => let k := ch.getD d Mom.init; (k.n, k.mean, k.sm2)
      let collect := (List.range p).map fun d => (collectRhatSq (statsOf ms64 d)).sqrt
      let collect32 := (List.range p).map fun d => (collectRhatSq (statsOf32 ms32 d)).sqrt
      let multi := (List.range p).map fun d => (multiRhatSq (ms64.map fun (ch : List (Mom Float)) => ch.getD d Mom.init) n).sqrt
      let sm2s := c0.map (·.sm2)
      let sm2s32 := (ms32.getD 0 []).map (·.sm2)
      let ok := (List.zipWith (fun a b => agree a b 5e-4) collect collect32).all (fun b => b)
                && (List.zipWith (fun a b => agree a b 5e-4) sm2s sm2s32).all (fun b => b)
      if ok then
        id ++ " " ++ toString n ++ " # " ++ tokS pacc0 ++ " # " ++ join (c0.map fun k => tokD k.mean) ++ " # " ++ join (sm2s.map tokD)
          ++ " # " ++ join (collect.map tokD) ++ " # " ++ join (multi.map tokD) ++ " # " ++ tokS paccM
      else id ++ " INDET"
    | _, _, _, _ => id ++ " bad-op"
  | id :: _ => id ++ " bad-op"
  | _ => "bad-op"

/-- `c13e <id> <chains> <draws> ; column (f32 bits, chain-major)` → `<id> ess_from_chainstats` for that parameter: every
    chain's tracker is fed all its draws, `W`/`var⁺` come from the trackers, the autocovariances from the draws.
    INDET exactly as for `c12` (f32 mirror truncating elsewhere or disagreeing). -/
def c13e (args : List String) : String :=
  match args with
  | id :: m :: n :: ";" :: toks =>
    match m.toNat?, n.toNat?, parseF32s toks with
    | some m, some n, some xs =>
      let ch32 := chainsOfColumn m n xs 0
      let ch64 := chainsOfColumn m n (toF64s xs) 0
      let st32 : List (Nat × Float32 × Float32) := ch32.map fun c => let k := Mom.feed c; (k.n, k.mean, k.sm2)
      let st64 : List (Nat × Float × Float) := ch64.map fun c => let k := Mom.feed c; (k.n, k.mean, k.sm2)
      let wv32 := collectWV st32
      let wv64 := collectWV st64
      let e32 := essWith autocovBF ch32 wv32.1 wv32.2
      let e64 := essWith autocovBF ch64 wv64.1 wv64.2
      let t32 := truncIdx32 (pairSums e32.1)
      let t64 := truncIdx64 (pairSums e64.1)
      if e64.2.2.isNaN then id ++ " INDET"
      -- `essFromChainStats ch64 st64 = e64.2.2` by `essFromChainStats_path_independent` (the brute-force form is evaluated:
      -- the list-based circular form is cubic)
      else if t32 == t64 && agree e64.2.2 e32.2.2 1.2e-3 then id ++ " " ++ tokD e64.2.2 else id ++ " INDET"
    | _, _, _ => id ++ " bad-op"
  | id :: _ => id ++ " bad-op"
  | _ => "bad-op"

end MiniMcmcVerif.Driver

import MiniMcmcVerif.Model.Util
import MiniMcmcVerif.Model.Reporter

namespace MiniMcmcVerif.Driver
open MiniMcmcVerif MiniMcmcVerif.Reporter

def parseMr (ws : List String) : List (Option Nat) := ws.map fun w => if w = "-" then none else w.toNat?

def fmtState (st : RState) (exit : Bool) : String :=
  "a=" ++ ",".intercalate (st.active.map toString) ++ " n=" ++ toString st.nextActive ++ " f=" ++ toString st.nFinished
    ++ " x=" ++ (if exit then "1" else "0")

/-- `c10 <id> <total> <N> ; mr after drain in iteration 1 | iteration 2 | …`  (`-` = nothing received yet)
    → `<id> a=… n=… f=… x=… | …` : the reporter bookkeeping after every iteration, replayed on the observed arrivals. -/
def c10 (args : List String) : String :=
  match args with
  | id :: total :: n :: ";" :: rest =>
    match total.toNat?, n.toNat? with
    | some total, some N =>
      let batches := (splitAt' "|" rest).map parseMr
      let (_, outs) := batches.foldl (fun (acc : RState × List String) mr =>
        let arrivals := (mr.zipIdx.filterMap fun (o, i) => o.map fun k => (i, k))
        let r := iter total N acc.1 arrivals
        (r.1, acc.2 ++ [fmtState r.1 r.2])) (RState.init N, [])
      id ++ " " ++ " | ".intercalate outs
    | _, _ => id ++ " bad-op"
  | id :: _ => id ++ " bad-op"
  | _ => "bad-op"

/-- `c10w <id> <c> <d>` → `<id> messages…` : the counts a worker sends when the 1-second clock never fires. -/
def c10w (args : List String) : String :=
  match args with
  | [id, c, d] =>
    match c.toNat?, d.toNat? with
    | some c, some d =>
      let r := runChainProgress (σ := Nat) (ρ := Nat) (· + 1) (fun s => s) 0 c d (fun _ => false) 0
      id ++ " " ++ join (r.2.map toString) ++ " # " ++ join (r.1.2.map toString)
    | _, _ => id ++ " bad-op"
  | id :: _ => id ++ " bad-op"
  | _ => "bad-op"

end MiniMcmcVerif.Driver

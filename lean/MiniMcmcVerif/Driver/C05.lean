import MiniMcmcVerif.Model.Util
import MiniMcmcVerif.Model.Gibbs

/-! Driver glue for C05: the Gibbs sweep model under a scripted, call-counting conditional. -/

namespace MiniMcmcVerif.Driver
open MiniMcmcVerif MiniMcmcVerif.Gibbs

/-- `c05 <id> <nsteps> ; s0 s1 … ; v0 v1 …` → `<id> i:given … # final-state # calls`
    The conditional returns the next scripted value (state = number of calls so far). -/
def c05 (args : List String) : String :=
  match args with
  | id :: nsteps :: rest =>
    match nsteps.toNat?, splitAt' ";" rest with
    | some n, [_, s0, script] =>
      let samp : Nat → Nat → List String → String × Nat := fun k _ _ => (script.getD k "OOS", k + 1)
      let (st, k, log) := (List.range n).foldl (fun (acc : List String × Nat × List String) _ =>
        let r := gibbsStep samp acc.2.1 acc.1
        (r.state, r.cond, acc.2.2 ++ r.log.map fun e => toString e.1 ++ ":" ++ ",".intercalate e.2)) (s0, 0, [])
      id ++ " " ++ join log ++ " # " ++ ",".intercalate st ++ " # " ++ toString k
    | _, _ => id ++ " bad-op"
  | _ => "bad-op"

/-- `c05p <id> <d> <panicAt> ; s0 … ; v0 …` → same output format: the conditional fails (once) when asked for call number
    `panicAt`; the chain has then completed `panicAt / d` sweeps and refreshed the first `panicAt % d` coordinates of the
    next one (`sweepUpTo`), keeps that state, and afterwards performs one complete sweep. -/
def c05p (args : List String) : String :=
  match args with
  | id :: d :: pa :: rest =>
    match d.toNat?, pa.toNat?, splitAt' ";" rest with
    | some d, some pa, [_, s0, script] =>
      -- the scripted conditional cycles through its script (`script[k % len]`)
      let samp : Nat → Nat → List String → String × Nat := fun k _ _ => (script.getD (k % script.length) "OOS", k + 1)
      let fmt (l : List (Nat × List String)) := l.map fun e => toString e.1 ++ ":" ++ ",".intercalate e.2
      let (st, k, log) := (List.range (pa / d)).foldl (fun (acc : List String × Nat × List String) _ =>
        let r := gibbsStep samp acc.2.1 acc.1
        (r.state, r.cond, acc.2.2 ++ fmt r.log)) (s0, 0, [])
      let part := sweepUpTo samp k st (pa % d)
      let fin := gibbsStep samp part.cond part.state
      id ++ " " ++ join (log ++ fmt part.log ++ fmt fin.log) ++ " # " ++ ",".intercalate fin.state ++ " # " ++ toString fin.cond
    | _, _, _ => id ++ " bad-op"
  | _ => "bad-op"

end MiniMcmcVerif.Driver

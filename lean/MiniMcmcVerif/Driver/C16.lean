import MiniMcmcVerif.Model.Util
import MiniMcmcVerif.Model.Categorical

/-! Driver glue for C16: the Categorical model at `Float` (f64) and `Float32` (f32). -/

namespace MiniMcmcVerif.Driver
open MiniMcmcVerif MiniMcmcVerif.Categorical

/-- `c16 <id> f64|f32 <r bits> ; w0 w1 …` → `<id> p0 p1 … # idx # logp(idx) logp(len) # logp(0) … logp(len-1)`
    probabilities and index are compared exactly (same sequential IEEE operations), log-probabilities tolerantly. -/
def c16 (args : List String) : String :=
  match args with
  | id :: ty :: rtok :: ";" :: ws =>
    if ty = "f64" then
      match f64OfHex rtok, parseF64s ws with
      | some r, some w =>
        let p := normalize w
        let k := sampleIdx p r
        let lp (i : Nat) : Float := if i < p.length then Float.log (p.getD i 0) else Float.log 0
        id ++ " " ++ join (p.map f64ToHex) ++ " # " ++ toString k ++ " # " ++ tokD (lp k) ++ " " ++ tokD (lp p.length)
          ++ " # " ++ join ((List.range p.length).map fun i => tokD (lp i))
      | _, _ => id ++ " bad-op"
    else if ty = "f32" then
      match f32OfHex rtok, parseF32s ws with
      | some r, some w =>
        let p := normalize w
        let k := sampleIdx p r
        let lp (i : Nat) : Float32 := if i < p.length then Float32.log (p.getD i 0) else Float32.log 0
        id ++ " " ++ join (p.map f32ToHex) ++ " # " ++ toString k ++ " # " ++ tokS (lp k) ++ " " ++ tokS (lp p.length)
          ++ " # " ++ join ((List.range p.length).map fun i => tokS (lp i))
      | _, _ => id ++ " bad-op"
    else id ++ " bad-op"
  | _ => "bad-op"

/-- `c16p <id> f64|f32 <r bits> ; p0 p1 …` → `<id> idx # logp(0) … logp(len-1)`: the probabilities are given as stored
    (the public `probs` field was overwritten after construction; no normalisation happens then) -/
def c16p (args : List String) : String :=
  match args with
  | id :: ty :: rtok :: ";" :: ps =>
    if ty = "f64" then
      match f64OfHex rtok, parseF64s ps with
      | some r, some p =>
        id ++ " " ++ toString (sampleIdx p r) ++ " # " ++ join (p.map fun x => tokD (Float.log x))
      | _, _ => id ++ " bad-op"
    else if ty = "f32" then
      match f32OfHex rtok, parseF32s ps with
      | some r, some p =>
        id ++ " " ++ toString (sampleIdx p r) ++ " # " ++ join (p.map fun x => tokS (Float32.log x))
      | _, _ => id ++ " bad-op"
    else id ++ " bad-op"
  | _ => "bad-op"

end MiniMcmcVerif.Driver

import MiniMcmcVerif.Model.Util
import MiniMcmcVerif.Model.HMC
import MiniMcmcVerif.Driver.Targets

/-! Driver glue for C02 / C14: one row of an HMC step replayed at `Float` from the momentum and the uniform the
    real step consumed. -/

namespace MiniMcmcVerif.Driver
open MiniMcmcVerif MiniMcmcVerif.HMC

instance : Add (List Float) := ⟨List.zipWith (· + ·)⟩
instance : SMul Float (List Float) := ⟨fun k v => v.map (k * ·)⟩

def keF (p : List Float) : Float := (p.map fun t => t * t).foldl (· + ·) 0 * 0.5

/-- `c02 <id> <ty> <L> <eps> ; target… ; x… ; p… ; u` → `<id> acc x'…`
    `acc` = 1 if the row moves to the proposal. INDET when the decision margin `|ΔH - ln u|` is below the precision
    the f32/f64 implementation can resolve, or the trajectory is numerically unstable (energy error huge / non-finite
    intermediate while the decision is still close). -/
def c02 (args : List String) : String :=
  match args with
  | id :: ty :: l :: eps :: ";" :: rest =>
    let nums (l : List String) : Option (List Float) :=
      if ty = "f32" then (parseF32s l).map fun v => v.map Float32.toFloat else parseF64s l
    match l.toNat?, nums [eps], splitAt' ";" rest with
    | some L, some [eps], [tspec, xs, ps, us] =>
      match parseTarget ty tspec, nums xs, nums ps, nums us with
      | some t, some x, some p, some [u] =>
        let lnu := Float.log u
        let g : List Float := (eps * 0.5) • t.grad x
        let r := leapfrogCode t.grad eps 0.5 L (x, p, g)
        let h0 := hamiltonian t.logp keF x p
        let h1 := hamiltonian t.logp keF r.1 r.2.1
        let dh := h0 - h1
        let res := hmcStepRow t.logp t.grad keF eps 0.5 L x p lnu
        let acc := decide (lnu ≤ dh)
        let tol : Float := if ty = "f32" then 2e-3 else 1e-7
        let scale := 1 + h0.abs + h1.abs
        -- a NaN / infinite energy difference is decisive (rejected); a finite one must clear the margin
        if dh.isNaN || dh.isInf || lnu.isInf then
          id ++ " " ++ (if acc then "1" else "0") ++ " " ++ join (res.1.map tokD)
        else if (dh - lnu).abs < tol * scale then id ++ " INDET"
        else
          -- conditioning: an input perturbation of the size of one rounding error must not move the result visibly
          -- (f32: ~100 accumulated roundings; f64: the built-in tensor targets store their parameters as f32)
          let e : Float := if ty = "f32" then 1e-5 else 2e-7
          let x2 := x.map fun t => t * (1 + e)
          let p2 := p.map fun t => t * (1 - e)
          let res2 := hmcStepRow t.logp t.grad keF eps 0.5 L x2 p2 lnu
          let r2 := leapfrogCode t.grad eps 0.5 L (x2, p2, (eps * 0.5) • t.grad x2)
          let dh2 := hamiltonian t.logp keF x2 p2 - hamiltonian t.logp keF r2.1 r2.2.1
          -- the decision itself must be stable under that perturbation
          let ec : Float := if ty = "f32" || tspec.head? == some "student" || tspec.head? == some "gauss2" then 1e-5 else 2e-7
          let x2c := x.map fun t => t * (1 + ec)
          let p2c := p.map fun t => t * (1 - ec)
          let r2c := leapfrogCode t.grad eps 0.5 L (x2c, p2c, (eps * 0.5) • t.grad x2c)
          let dh2c := hamiltonian t.logp keF x2c p2c - hamiltonian t.logp keF r2c.1 r2c.2.1
          let decisionStable := !(dh2.isNaN) && (dh - dh2).abs < 0.2 * (dh - lnu).abs
            && !(dh2c.isNaN) && (dh - dh2c).abs < 0.5 * (dh - lnu).abs
          -- a second, sign-alternating perturbation (excites other directions)
          let x3 := x.zipIdx.map fun (t, i) => t * (1 + (if i % 2 == 0 then e else -e)) + (if i % 3 == 0 then e else 0)
          let p3 := p.zipIdx.map fun (t, i) => t * (1 + (if i % 2 == 1 then 2 * e else -e))
          let res3 := hmcStepRow t.logp t.grad keF eps 0.5 L x3 p3 lnu
          let devOf (a b : List Float) : Float := (List.zipWith (fun a b => (a - b).abs / (1 + a.abs)) a b).foldl max 0
          let dev := max (devOf res.1 res2.1) (devOf res.1 res3.1)
          let finite := res.1.all fun t => !(t.isNaN || t.isInf)
          -- very long trajectories accumulate a rounding error per step that a single input perturbation underestimates
          let longTraj := (L.toFloat * eps > 12) && !(dh.abs > 50)
          if !decisionStable || longTraj then id ++ " INDET"
          else if !finite || dev > 0.1 * (if ty = "f32" then 3e-3 else 2e-5) then id ++ " INDET"
          else id ++ " " ++ (if acc then "1" else "0") ++ " " ++ join (res.1.map tokD)
      | _, _, _, _ => id ++ " bad-op"
    | _, _, _ => id ++ " bad-op"
  | id :: _ => id ++ " bad-op"
  | _ => "bad-op"

end MiniMcmcVerif.Driver

import MiniMcmcVerif.Model.Util
import MiniMcmcVerif.Model.MH

/-! Driver glue for C01/C14: the MH step model at `Float` / `Float32` on a two-point state space {x, y}. -/

namespace MiniMcmcVerif.Driver
open MiniMcmcVerif MiniMcmcVerif.MH

def oracleOf {F : Type} (lpx lpy qxy qyx : F) : Oracle String F :=
  { logp := fun s => if s = "x" then lpx else lpy
    q := fun a _ => if a = "x" then qxy else qyx }

/-- `c01 <id> f64|f32 lp(x) lp(y) q(y|x)=logp(x,y) q(x|y)=logp(y,x) u` → `<id> x|y` (the state the chain is left in) -/
def c01 (args : List String) : String :=
  match args with
  | [id, "f64", a, b, c, d, u] =>
    match parseF64s [a, b, c, d, u] with
    | some [lpx, lpy, qxy, qyx, u] => id ++ " " ++ mhStep (oracleOf lpx lpy qxy qyx) "x" "y" (Float.log u)
    | _ => id ++ " bad-op"
  | [id, "f32", a, b, c, d, u] =>
    match parseF32s [a, b, c, d, u] with
    | some [lpx, lpy, qxy, qyx, u] => id ++ " " ++ mhStep (oracleOf lpx lpy qxy qyx) "x" "y" (Float32.log u)
    | _ => id ++ " bad-op"
  | id :: _ => id ++ " bad-op"
  | _ => "bad-op"

end MiniMcmcVerif.Driver

import MiniMcmcVerif.Model.Util
import MiniMcmcVerif.Model.Init

namespace MiniMcmcVerif.Driver
open MiniMcmcVerif MiniMcmcVerif.Init

/-- `c18 <id> <n> <d> ; stream tokens…` → `<id> row | row | …` (rows of the request laid out from the stream) -/
def c18 (args : List String) : String :=
  match args with
  | id :: n :: d :: ";" :: stream =>
    match n.toNat?, d.toNat? with
    | some n, some d => id ++ " " ++ " | ".intercalate ((initRows n d stream).map join)
    | _, _ => id ++ " bad-op"
  | id :: _ => id ++ " bad-op"
  | _ => "bad-op"

end MiniMcmcVerif.Driver

import MiniMcmcVerif.Model.Util
import MiniMcmcVerif.Model.Dist

namespace MiniMcmcVerif.Driver
open MiniMcmcVerif MiniMcmcVerif.Dist

/-- parse a list of hex tokens of type `ty` into f64 values (f32 inputs are widened exactly) -/
def parseAs (ty : String) (ws : List String) : Option (List Float) :=
  if ty = "f32" then (parseF32s ws).map fun l => l.map Float32.toFloat else parseF64s ws

def pairsF : List Float → List (Float × Float)
  | a :: b :: r => (a, b) :: pairsF r
  | _ => []

def c15g2 (args : List String) : String :=
  match args with
  | id :: ty :: rest =>
    match parseAs ty rest with
    | some [m0, m1, a, b, c, d, x0, x1] =>
      let s : Cov2 Float := ⟨a, b, c, d⟩
      id ++ " " ++ tokD (gauss2dLogp s s.det.abs m0 m1 x0 x1) ++ " " ++ tokD (gauss2dUnnorm s m0 m1 x0 x1)
    | _ => id ++ " bad-op"
  | _ => "bad-op"

def c15dg (args : List String) : String :=
  match args with
  | id :: ty :: rest =>
    match splitAt' ";" rest with
    | [par, pts] =>
      match parseAs ty par, parseAs ty pts with
      | some [m0, m1, a, b, c, d], some ps =>
        let g := dgNew (⟨a, b, c, d⟩ : Cov2 Float)
        id ++ " " ++ join ((pairsF ps).map fun p =>
          let gr := dgGrad g m0 m1 p.1 p.2
          join [tokD (dgBatchRow g m0 m1 p.1 p.2), tokD (dgSingle g m0 m1 p.1 p.2), tokD gr.1, tokD gr.2])
      | _, _ => id ++ " bad-op"
    | _ => id ++ " bad-op"
  | _ => "bad-op"

def c15iso (args : List String) : String :=
  match args with
  | id :: ty :: rest =>
    match splitAt' ";" rest with
    | [par, fr, to] =>
      match parseAs ty par, parseAs ty fr, parseAs ty to with
      | some [std], some f, some t =>
        id ++ " " ++ join [tokD (isoLogp std f t), tokD (isoLogp std t f), tokD (isoUnnorm std t)]
      | _, _, _ => id ++ " bad-op"
    | _ => id ++ " bad-op"
  | _ => "bad-op"

def c15r2 (args : List String) : String :=
  match args with
  | id :: ty :: rest =>
    match splitAt' ";" rest with
    | [par, pts] =>
      match parseAs ty par, parseAs ty pts with
      | some [a, b], some ps =>
        id ++ " " ++ join ((pairsF ps).map fun p =>
          let gr := rosen2dGrad a b p.1 p.2
          join [tokD (rosen2d a b p.1 p.2), tokD gr.1, tokD gr.2])
      | _, _ => id ++ " bad-op"
    | _ => id ++ " bad-op"
  | _ => "bad-op"

def c15rn (args : List String) : String :=
  match args with
  | id :: ty :: dim :: ";" :: pts =>
    match dim.toNat?, parseAs ty pts with
    | some dim, some ps =>
      id ++ " " ++ join ((chunks dim ps).map fun row => join (tokD (rosenND row) :: (rosenNDGrad row).map tokD))
    | _, _ => id ++ " bad-op"
  | id :: _ => id ++ " bad-op"
  | _ => "bad-op"

end MiniMcmcVerif.Driver

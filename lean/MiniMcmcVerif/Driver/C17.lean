import MiniMcmcVerif.Model.Util
import MiniMcmcVerif.Model.IO

namespace MiniMcmcVerif.Driver
open MiniMcmcVerif MiniMcmcVerif.IO

/-- how a stored element shows up when the file is read back -/
def readBack (elem : String) (tok : String) : String :=
  match elem with
  | "f64" => match f64OfHex tok with
    | some x => if x.isNaN then "nan" else f64ToHex x
    | none => "bad"
  | "f32" => match f32OfHex tok with
    | some x => if x.isNaN then "nan" else f32ToHex x
    | none => "bad"
  | "f32w" => match f32OfHex tok with       -- Arrow / Parquet: the value widened to f64
    | some x => if x.isNaN then "nan" else f64ToHex x.toFloat
    | none => "bad"
  | "i32w" => match tok.toInt? with          -- integers widened to f64
    | some n => f64ToHex (Float.ofInt n)
    | none => "bad"
  | _ => tok

/-- `c17 <id> cm|om|a3 A B K <elem> ; flat tokens…` → `<id> header… | l1 l2 v… | …` -/
def c17 (args : List String) : String :=
  match args with
  | id :: layout :: a :: b :: k :: elem :: ";" :: flat =>
    match a.toNat?, b.toNat?, k.toNat? with
    | some A, some B, some K =>
      let flat := flat.map (readBack elem)
      let (hdr, rows) : List String × List (Row String) :=
        match layout with
        | "cm" => (header K, rowsChainMajor A B K flat)
        | "om" => (headerObsMajor K, rowsObsMajor A B K flat)
        | "a3" => (header K, rowsArray3 (reshape3 A B K flat))
        | _ => (["bad-layout"], [])
      id ++ " " ++ " | ".intercalate (join hdr :: rows.map fun r => join (toString r.l1 :: toString r.l2 :: r.vals))
    | _, _, _ => id ++ " bad-op"
  | id :: _ => id ++ " bad-op"
  | _ => "bad-op"

end MiniMcmcVerif.Driver

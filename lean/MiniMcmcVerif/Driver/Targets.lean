import MiniMcmcVerif.Model.Util
import MiniMcmcVerif.Model.Dist

/-! Closed-form targets (log-density and gradient) shared by the HMC / NUTS driver glue, at `Float`. -/

namespace MiniMcmcVerif.Driver
open MiniMcmcVerif MiniMcmcVerif.Dist

structure TargetF where
  logp : List Float → Float
  grad : List Float → List Float

def dot (a b : List Float) : Float := (List.zipWith (· * ·) a b).foldl (· + ·) 0
def matVec (m : List (List Float)) (v : List Float) : List Float := m.map fun r => dot r v
def vsub (a b : List Float) : List Float := List.zipWith (· - ·) a b

/-- target specification tokens → closed-form target
    * `gauss2 m0 m1 a b c d`   : `DiffableGaussian2D`
    * `rosen2 a b`             : `Rosenbrock2D`
    * `rosenN`                 : `RosenbrockND`
    * `gaussd dim mean… P…`    : `-½ (x-m)ᵀ P (x-m)`, `P` symmetric (row-major)
    * `student nu`             : `-(ν+1)/2 Σ ln(1 + x²/ν)`
    * `quartic`                : `-Σ x⁴/4`
    * `halfline rate`          : `-rate·x₀ - ½ Σ_{i≥1} x_i²` for `x₀ > 0`, `-inf` otherwise (boundary; C14)
    * `logbox`                 : `Σ ln(x_i) + ln(1 - x_i)` on (0,1)^d, NaN outside (C14)
    * `sqrtgamma rate`         : `Σ ln(√x_i) - rate·x_i` on x > 0, value and gradient NaN outside (C04/C14: the halving loop of
                                 `find_reasonable_epsilon`)
    * `gaussoff dim mean… P… off` : `gaussd` plus the constant `off` (a log-density large in absolute value; C03)
    * `cliff r2 drop`          : `-½|x|²`, lowered by `drop` where `|x|² > r2` (energy errors at the divergence bound; C03) -/
def parseTarget (ty : String) (ws : List String) : Option TargetF :=
  let nums (l : List String) : Option (List Float) :=
    if ty = "f32" then (parseF32s l).map fun v => v.map Float32.toFloat else parseF64s l
  match ws with
  | "gauss2" :: rest =>
    match nums rest with
    | some [m0, m1, a, b, c, d] =>
      let g := dgNew (⟨a, b, c, d⟩ : Cov2 Float)
      some ⟨fun x => dgSingle g m0 m1 (x.getD 0 0) (x.getD 1 0),
            fun x => let r := dgGrad g m0 m1 (x.getD 0 0) (x.getD 1 0); [r.1, r.2]⟩
    | _ => none
  | "rosen2" :: rest =>
    match nums rest with
    | some [a, b] => some ⟨fun x => rosen2d a b (x.getD 0 0) (x.getD 1 0),
                           fun x => let r := rosen2dGrad a b (x.getD 0 0) (x.getD 1 0); [r.1, r.2]⟩
    | _ => none
  | ["rosenN"] => some ⟨rosenND, rosenNDGrad⟩
  | "gaussd" :: dim :: rest =>
    match dim.toNat?, nums rest with
    | some d, some v =>
      let mean := v.take d
      let P := chunks d (v.drop d)
      some ⟨fun x => let dx := vsub x mean; -0.5 * dot dx (matVec P dx),
            fun x => (matVec P (vsub x mean)).map fun t => -t⟩
    | _, _ => none
  | ["student", nu] =>
    match nums [nu] with
    | some [nu] => some ⟨fun x => -(nu + 1) / 2 * (x.map fun t => Float.log (1 + t * t / nu)).foldl (· + ·) 0,
                         fun x => x.map fun t => -(nu + 1) * t / (nu + t * t)⟩
    | _ => none
  | ["quartic"] => some ⟨fun x => -((x.map fun t => t * t * t * t / 4).foldl (· + ·) 0), fun x => x.map fun t => -(t * t * t)⟩
  | ["halfline", rate] =>
    match nums [rate] with
    | some [rate] => some ⟨fun x => if x.getD 0 0 > 0 then -rate * x.getD 0 0 - 0.5 * ((x.drop 1).map fun t => t * t).foldl (· + ·) 0 else Float.log 0,
                           fun x => (-rate) :: (x.drop 1).map fun t => -t⟩
    | _ => none
  | ["logbox"] => some ⟨fun x => (x.map fun t => Float.log t + Float.log (1 - t)).foldl (· + ·) 0,
                        fun x => x.map fun t => 1 / t - 1 / (1 - t)⟩
  | ["sqrtgamma", rate] =>
    match nums [rate] with
    | some [rate] =>
      let nan : Float := 0.0 / 0.0
      some ⟨fun x => (x.map fun t => Float.log (Float.sqrt t) - rate * t).foldl (· + ·) 0,
            -- autodiff through `ln ∘ sqrt`: `(1/√t)·(1/(2√t))`, NaN for `t < 0`
            fun x => x.map fun t => (if t < 0 then nan else 1 / Float.sqrt t / (2 * Float.sqrt t)) - rate⟩
    | _ => none
  | "gaussoff" :: dim :: rest =>
    match dim.toNat?, nums rest with
    | some d, some v =>
      let mean := v.take d
      let P := chunks d ((v.drop d).take (d * d))
      let off := v.getD (d + d * d) 0
      some ⟨fun x => let dx := vsub x mean; -0.5 * dot dx (matVec P dx) + off,
            fun x => (matVec P (vsub x mean)).map fun t => -t⟩
    | _, _ => none
  | ["cliff", r2, drop] =>
    match nums [r2, drop] with
    | some [r2, drop] =>
      some ⟨fun x => let q := (x.map fun t => t * t).foldl (· + ·) 0
                     if q > r2 then -0.5 * q - drop else -0.5 * q,
            fun x => x.map fun t => -t⟩
    | _ => none
  | _ => none

end MiniMcmcVerif.Driver

import MiniMcmcVerif.Model.Util
import MiniMcmcVerif.Model.Run

/-! Driver glue for C09: runs the `run` loop models on an abstract chain whose state is a pointer into the
    trace of states the harness obtained by stepping a clone of the real sampler by hand. -/

namespace MiniMcmcVerif.Driver
open MiniMcmcVerif MiniMcmcVerif.Run

def pairs : List Nat → List (Nat × Nat)
  | a :: b :: r => (a, b) :: pairs r
  | _ => []

/-- `c09 <id> <kind> c1 d1 c2 d2 ... ; t0 t1 t2 ...`  →  `<id> rows(run1) | rows(run2) ... # finalPointer` -/
def c09 (args : List String) : String :=
  match args with
  | id :: kind :: rest =>
    match splitAt' ";" rest with
    | [cds, trace] =>
      match parseNats cds with
      | some ns =>
        let obs : Nat → String := fun p => trace.getD p "OOB"
        let run1 : Nat → Nat → Nat → Nat × List String :=
          match kind with
          | "core" => fun c d s => runChain (· + 1) obs "Z" c d s
          | "hmc" => fun c d s => hmcRun (· + 1) obs "Z" c d s
          | "nuts" => fun c d s => nutsRun (fun s => s) (· + 1) obs "Z" c d s
          | _ => fun _ _ s => (s, ["bad-kind"])
        let r := runHistory run1 (pairs ns) 0
        id ++ " " ++ " | ".intercalate (r.2.map join) ++ " # " ++ toString r.1
      | none => id ++ " bad-op"
    | _ => id ++ " bad-op"
  | _ => "bad-op"

end MiniMcmcVerif.Driver

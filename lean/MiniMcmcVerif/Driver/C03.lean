import MiniMcmcVerif.Model.Util
import MiniMcmcVerif.Model.NUTS
import MiniMcmcVerif.Model.DualAvg
import MiniMcmcVerif.Driver.Targets
import MiniMcmcVerif.Driver.C02

/-! Driver glue for C03 / C04 / C14: NUTS transitions, trees, step-size adaptation replayed at `Float`. -/

namespace MiniMcmcVerif.Driver
open MiniMcmcVerif MiniMcmcVerif.NUTS MiniMcmcVerif.DualAvg

instance : Sub (List Float) := ⟨List.zipWith (· - ·)⟩
instance : HasExp Float := ⟨Float.exp⟩
instance : HasLnFin Float := ⟨Float.log, fun x => !(x.isNaN || x.isInf)⟩
instance : TrOps Float := ⟨Float.exp, Float.log, Float.sqrt, fun x k => Float.pow x (-k), clampOrd⟩

def targetFn (t : TargetF) : List Float → Float × List Float := fun x => (t.logp x, t.grad x)

def numsOf (ty : String) (l : List String) : Option (List Float) :=
  if ty = "f32" then (parseF32s l).map fun v => v.map Float32.toFloat else parseF64s l

def fmtLoop (st : Loop Float (List Float)) : String :=
  toString st.j ++ " " ++ toString st.n ++ " " ++ toString st.nalpha ++ " | "
    ++ " | ".intercalate (st.log.map fun e =>
        (if e.1 then "-1" else "1") ++ " " ++ toString e.2.1 ++ " " ++ (if e.2.2.1 then "T" else "F") ++ " " ++ (if e.2.2.2 then "A" else "K"))

def normF (a : List Float) : Float := Float.sqrt (dot a a)
/-- a dot product off by a rounding-sized amount: in `f32` the difference `θ⁺ - θ⁻` of the U-turn test carries an absolute
    error of about `ulp·|θ|`, so `(θ⁺ - θ⁻)·r` is uncertain by about `κ·|r|`; the knife-edge probes re-run the model with
    `dot ± κ·|b|·(1 + |a|)` -/
def dotBiased (k : Float) (a b : List Float) : Float := dot a b + k * normF b * (1 + normF a)

def devOf (a b : List Float) : Float := (List.zipWith (fun a b => (a - b).abs / (1 + a.abs)) a b).foldl max 0

/-- `c03 <id> <ty> <eps> ; target ; pos ; mom ; exp1 ; dirs ; sel ; acc`
    → `<id> depth n n_alpha | v n' s' adopt | … # alpha/n_alpha pos…`; INDET when the integer outputs change under a
    rounding-sized perturbation of the inputs (a slice / U-turn / divergence / selection comparison sits on a knife
    edge) or the trajectory is unstable. -/
def c03core (withStat : Bool) (args : List String) : String :=
  match args with
  | id :: ty :: eps :: ";" :: rest =>
    match numsOf ty [eps], splitAt' ";" rest with
    | some [eps], [tspec, ps, ms, e1, dirs, sel, acc] =>
      match parseTarget ty tspec, numsOf ty ps, numsOf ty ms, numsOf ty e1, numsOf ty dirs, parseF64s sel, numsOf ty acc with
      | some t, some pos, some mom, some [exp1], some dirs, some sel, some acc =>
        let run (pos mom : List Float) (eps : Float) :=
          transition (targetFn t) dot eps pos mom exp1 dirs sel acc 14
        let kap : Float := if ty = "f32" then 5e-6 else if tspec.head? == some "student" || tspec.head? == some "gauss2" then 1e-6 else 1e-13
        let runB (k : Float) := transition (targetFn t) (dotBiased k) eps pos mom exp1 dirs sel acc 14
        match run pos mom eps with
        | none => id ++ " INDET"
        | some st =>
          -- rounding accumulates along the trajectory: the probe perturbation grows with the number of leapfrog steps
          let scale : Float := max 1 (Float.ofNat (2 ^ st.j) / 100)
          -- targets whose implementation is only f32-accurate even on the f64 backend (built-in Gaussian: f32 parameters;
          -- Student-t: burn's autodiff of div_scalar/log) get the f32-sized probes
          let coarse := ty = "f32" || tspec.head? == some "student" || tspec.head? == some "gauss2"
          let e : Float := (if ty = "f32" then 1e-5 else 2e-7) * scale
          -- the discrete structure (depth, counts, decisions) must also survive an f32-sized perturbation for those targets
          let ec : Float := (if coarse then 1e-5 else 2e-7) * scale
          let structOk := match run (pos.map (· * (1 + ec))) (mom.map (· * (1 - ec))) eps,
                                run (pos.map (· * (1 - ec))) (mom.map (· * (1 + ec))) (eps * (1 + ec)) with
            | some a, some b => fmtLoop a == fmtLoop st && fmtLoop b == fmtLoop st
            | _, _ => false
          let alt1 := run (pos.map (· * (1 + e))) (mom.map (· * (1 - e))) eps
          let alt2 := run (pos.zipIdx.map fun (x, i) => x * (1 + (if i % 2 == 0 then e else -e)) + e) (mom.zipIdx.map fun (x, i) => x * (1 + (if i % 2 == 1 then e else -e))) (eps * (1 + e))
          let tol : Float := if ty = "f32" then 3e-3 else 2e-5
          -- for long trajectories the probe perturbation is already as large as the accumulated rounding (scale > 1):
          -- the deviation it causes may then use half of the comparison tolerance instead of a tenth
          let thr : Float := if scale > 1 then 0.5 * tol else 0.1 * tol
          let biasOk := match runB kap, runB (-kap) with
            | some a, some b => fmtLoop a == fmtLoop st && fmtLoop b == fmtLoop st
            | _, _ => false
          let stable := biasOk && structOk && match alt1, alt2 with
            | some a, some b => fmtLoop a == fmtLoop st && fmtLoop b == fmtLoop st
                && devOf st.pos a.pos ≤ thr && devOf st.pos b.pos ≤ thr
                && (st.alpha - a.alpha).abs ≤ thr * (1 + st.alpha.abs) && (st.alpha - b.alpha).abs ≤ thr * (1 + st.alpha.abs)
            | _, _ => false
          if stable then
            id ++ " " ++ fmtLoop st ++ " # " ++ (if withStat then tokD (st.alpha / Float.ofNat st.nalpha) ++ " " else "") ++ join (st.pos.map tokD)
          else id ++ " INDET"
      | _, _, _, _, _, _, _ => id ++ " bad-op"
    | _, _ => id ++ " bad-op"
  | id :: _ => id ++ " bad-op"
  | _ => "bad-op"

def c03 (args : List String) : String := c03core true args
/-- like `c03` without the acceptance statistic (C14: on out-of-support points the harness targets' autodiff gradient
    (0 / NaN through `mask_fill`) differs from the closed-form continuation the driver uses, which changes a NaN or -inf joint
    into the other and hence `min(1, exp(..))` from 1 to 0; positions and tree structure are unaffected) -/
def c03x (args : List String) : String := c03core false args

/-- `c03t <id> <ty> <eps> <v> <j> ; target ; pos ; mom ; logu joint0 ; sel…`
    → `<id> n' s' n_alpha # alpha prime… minus… plus…` (direct `build_tree` call) -/
def c03t (args : List String) : String :=
  match args with
  | id :: ty :: eps :: v :: j :: ";" :: rest =>
    match numsOf ty [eps], v.toInt?, j.toNat?, splitAt' ";" rest with
    | some [eps], some v, some j, [tspec, ps, ms, lj, sel] =>
      match parseTarget ty tspec, numsOf ty ps, numsOf ty ms, numsOf ty lj, parseF64s sel with
      | some t, some pos, some mom, some [logu, joint0], some sel =>
        let run (pos mom : List Float) (eps : Float) :=
          let tg := targetFn t pos
          (buildTree (targetFn t) dot logu (decide (v < 0)) eps joint0 j ⟨pos, mom, tg.2, tg.1⟩ sel).1
        let r := run pos mom eps
        let kap : Float := if ty = "f32" then 5e-6 else if tspec.head? == some "student" || tspec.head? == some "gauss2" then 1e-6 else 1e-13
        let runB (k : Float) :=
          let tg := targetFn t pos
          (buildTree (targetFn t) (dotBiased k) logu (decide (v < 0)) eps joint0 j ⟨pos, mom, tg.2, tg.1⟩ sel).1
        let key (r : Tree Float (List Float)) := toString r.n ++ " " ++ (if r.s then "T" else "F") ++ " " ++ toString r.nalpha
        let scale : Float := max 1 (Float.ofNat (2 ^ j) / 100)
        let coarse := ty = "f32" || tspec.head? == some "student" || tspec.head? == some "gauss2"
        let e : Float := (if ty = "f32" then 1e-5 else 2e-7) * scale
        let ec : Float := (if coarse then 1e-5 else 2e-7) * scale
        let a := run (pos.map (· * (1 + e))) (mom.map (· * (1 - e))) eps
        let b := run (pos.zipIdx.map fun (x, i) => x * (1 + (if i % 2 == 0 then e else -e)) + e) (mom.zipIdx.map fun (x, i) => x * (1 + (if i % 2 == 1 then e else -e))) (eps * (1 + e))
        let tol : Float := if ty = "f32" then 3e-3 else 2e-5
        let stable := key a == key r && key b == key r && key (runB kap) == key r && key (runB (-kap)) == key r
          && key (run (pos.map (· * (1 + ec))) (mom.map (· * (1 - ec))) eps) == key r
          && key (run (pos.map (· * (1 - ec))) (mom.map (· * (1 + ec))) (eps * (1 + ec))) == key r
          && devOf r.prime.pos a.prime.pos ≤ 0.1 * tol && devOf r.prime.pos b.prime.pos ≤ 0.1 * tol
          && devOf r.minus.pos a.minus.pos ≤ 0.1 * tol && devOf r.plus.pos b.plus.pos ≤ 0.1 * tol
          && (r.alpha - a.alpha).abs ≤ 0.1 * tol * (1 + r.alpha.abs) && (r.alpha - b.alpha).abs ≤ 0.1 * tol * (1 + r.alpha.abs)
        if stable then
          id ++ " " ++ key r ++ " # " ++ tokD r.alpha ++ " " ++ join (r.prime.pos.map tokD) ++ " " ++ join (r.minus.pos.map tokD) ++ " " ++ join (r.plus.pos.map tokD)
        else id ++ " INDET"
      | _, _, _, _, _ => id ++ " bad-op"
    | _, _, _, _ => id ++ " bad-op"
  | id :: _ => id ++ " bad-op"
  | _ => "bad-op"

/-- `c04 <id> <ty> <delta> ; m nDiscard firstUse(0/1) ; eps epsBar hBar mu eps0 ; a…`
    → `<id> m eps epsBar hBar mu | …` after `init_chain` and after every transition of one run -/
def c04 (args : List String) : String :=
  match args with
  | id :: ty :: delta :: ";" :: rest =>
    match numsOf ty [delta], splitAt' ";" rest with
    | some [delta], [ints, st, as] =>
      match parseNats ints, numsOf ty st, numsOf ty as with
      | some [m, nDiscard, firstUse], some [eps, epsBar, hBar, mu, eps0], some as =>
        let gamma : Float := if ty = "f32" then (Float.toFloat32 0.05).toFloat else 0.05
        -- `T::min_positive_value()` / `T::max_value()` of the scalar type the case ran at
        let lo : Float := if ty = "f32" then Float.ofScientific 11754943508222875 true 54 else Float.ofScientific 22250738585072014 true 324
        let hi : Float := if ty = "f32" then Float.ofScientific 34028234663852886 false 22 else Float.ofScientific 17976931348623157 false 292
        let s0 : Adapt Float := ⟨m, 0, eps, epsBar, hBar, mu⟩
        let s1 := initChain s0 nDiscard (firstUse == 1) eps0
        let fmt (s : Adapt Float) := join [toString s.m, tokD s.eps, tokD s.epsBar, tokD s.hBar, tokD s.mu]
        let (_, outs) := as.foldl (fun (acc : Adapt Float × List String) a =>
          let s := adaptStep lo hi delta gamma 0.75 10 acc.1 a
          (s, acc.2 ++ [fmt s])) (s1, [fmt s1])
        -- `μ = ln(10 ε)` of `init_chain`: when `10·ε` exceeds f32's largest number the f32 code gets `ln(inf) = inf`, the f64
        -- evaluation of the model a finite value — the model cannot follow that history (ε had run away to the clamp)
        if ty = "f32" && 10 * s1.eps > hi then id ++ " INDET" else
        id ++ " " ++ " | ".intercalate outs
      | _, _, _ => id ++ " bad-op"
    | _, _ => id ++ " bad-op"
  | id :: _ => id ++ " bad-op"
  | _ => "bad-op"

/-- `c04f <id> <ty> ; target ; pos ; mom` → `<id> eps0` (`find_reasonable_epsilon`) -/
def c04f (args : List String) : String :=
  match args with
  | id :: ty :: ";" :: rest =>
    match splitAt' ";" rest with
    | [tspec, ps, ms] =>
      match parseTarget ty tspec, numsOf ty ps, numsOf ty ms with
      | some t, some pos, some mom =>
        let allFin (v : List Float) : Bool := v.all fun x => !(x.isNaN || x.isInf)
        match findReasonableEps (targetFn t) dot allFin pos mom 200 with
        | some e =>
          -- knife edge: the crossing test `a·log_acc > -a·ln 2` decided differently for a perturbed start
          let e2 := findReasonableEps (targetFn t) dot allFin (pos.map (· * (1 + 1e-6))) (mom.map (· * (1 - 1e-6))) 200
          if e2 == some e then id ++ " " ++ tokD e else id ++ " INDET"
        | none => id ++ " INDET"
      | _, _, _ => id ++ " bad-op"
    | _ => id ++ " bad-op"
  | id :: _ => id ++ " bad-op"
  | _ => "bad-op"

end MiniMcmcVerif.Driver

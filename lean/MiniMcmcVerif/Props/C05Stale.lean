import MiniMcmcVerif.Props.C05Invariance
import Mathlib.Algebra.BigOperators.Fin
import Mathlib.Tactic.NormNum
import Mathlib.Tactic.FinCases

/-!
# C05 — why "conditioning on the freshest state" matters

The variant of the sweep that hands every coordinate's conditional the *snapshot* taken at the start of the step
(coordinates refreshed in parallel from the old state) does **not** leave the joint invariant: an explicit 2×2 witness.
So `gibbs_sweep_invariant` really depends on what `gibbs_call_log` establishes for the code.
-/

namespace MiniMcmcVerif.Gibbs

open Finset

variable {d : Nat} {ι : Type} [Fintype ι] [DecidableEq ι]
variable {K : Type} [Field K] [LinearOrder K] [IsStrictOrderedRing K]

/-- every coordinate `i` is redrawn from its full conditional given the *old* state `x` -/
def staleKernel (π : (Fin d → ι) → K) (x y : Fin d → ι) : K :=
  ∏ i, π (Function.update x i (y i)) / margin π i x

/-- two positively correlated bits: weight 4 on the diagonal, 1 off it -/
def corr2 : (Fin 2 → Fin 2) → ℚ := fun x => if x 0 = x 1 then 4 else 1

theorem corr2_nonneg (x : Fin 2 → Fin 2) : 0 ≤ corr2 x := by unfold corr2; split <;> norm_num

/-- **the stale-snapshot sweep does not leave the joint invariant** (mass 76/25 instead of 4 arrives at `(0,0)`),
    while the real sweep does (`gibbs_sweep_invariant`, here for the order `[0, 1]`). -/
theorem stale_not_invariant :
    (∑ x, corr2 x * staleKernel corr2 x ![0, 0]) ≠ corr2 ![0, 0]
    ∧ (∑ x, corr2 x * sweepKernel corr2 [0, 1] x ![0, 0]) = corr2 ![0, 0] := by
  refine ⟨?_, gibbs_sweep_invariant corr2 corr2_nonneg [0, 1] _⟩
  decide +kernel

end MiniMcmcVerif.Gibbs

import MiniMcmcVerif.Model.Reporter
import MiniMcmcVerif.Props.C09
import Mathlib.Data.List.Basic
import Mathlib.Tactic.Linarith

/-!
# C10 — progress mode returns the same draws and its reporter always terminates
-/

set_option linter.unusedVariables false

namespace MiniMcmcVerif.Reporter
open MiniMcmcVerif.Run

variable {σ ρ : Type}

/-! ### (i) the worker -/

theorem progBody_fst (step : σ → σ) (obs : σ → ρ) (d total : Nat) (clock : Nat → Bool)
    (acc : (σ × List ρ) × List Nat) (is : List Nat) :
    (is.foldl (progBody step obs d total clock) acc).1 = is.foldl (runBody step obs d) acc.1 := by
  induction is generalizing acc with
  | nil => rfl
  | cons i is ih => simp only [List.foldl_cons]; rw [ih]; rfl

/-- **same draws**: progress mode returns exactly the rows (and leaves exactly the chain state) `run_chain` does —
    for every behaviour of the clock and whatever happens to the messages (`send` results are ignored, so a reporter
    that stopped listening changes nothing). -/
theorem progress_rows_eq_run (step : σ → σ) (obs : σ → ρ) (zero : ρ) (c d : Nat) (clock : Nat → Bool) (s : σ) :
    (runChainProgress step obs zero c d clock s).1 = runChain step obs zero c d s := by
  unfold runChainProgress runChain
  rw [progBody_fst]

theorem progBody_msgs (step : σ → σ) (obs : σ → ρ) (d total : Nat) (clock : Nat → Bool)
    (acc : (σ × List ρ) × List Nat) (is : List Nat) :
    (is.foldl (progBody step obs d total clock) acc).2
      = acc.2 ++ (is.filter fun i => clock i || i == total - 1).map (· + 1) := by
  induction is generalizing acc with
  | nil => simp
  | cons i is ih =>
    simp only [List.foldl_cons]
    rw [ih]
    simp only [progBody, List.filter_cons]
    split <;> simp

/-- the counts a worker sends: `i + 1` for the iterations the clock fires on, and always the last one. -/
theorem worker_messages (step : σ → σ) (obs : σ → ρ) (zero : ρ) (c d : Nat) (clock : Nat → Bool) (s : σ) :
    (runChainProgress step obs zero c d clock s).2
      = ((List.range (c + d)).filter fun i => clock i || i == c + d - 1).map (· + 1) := by
  unfold runChainProgress
  rw [progBody_msgs]; simp

/-- **the final message**: with `total ≥ 1` the last count sent is `total`, and `total` is sent exactly once. -/
theorem workers_send_final (step : σ → σ) (obs : σ → ρ) (zero : ρ) (c d : Nat) (clock : Nat → Bool) (s : σ)
    (h : 1 ≤ c + d) :
    (runChainProgress step obs zero c d clock s).2.getLast? = some (c + d)
    ∧ (runChainProgress step obs zero c d clock s).2.count (c + d) = 1 := by
  rw [worker_messages]
  obtain ⟨t, ht⟩ : ∃ t, c + d = t + 1 := ⟨c + d - 1, by omega⟩
  rw [ht]
  simp only [Nat.add_sub_cancel, List.range_succ, List.filter_append, List.map_append]
  have hlast : (List.filter (fun i => clock i || i == t) [t]) = [t] := by simp
  rw [hlast]
  constructor
  · simp
  · rw [List.count_append]
    have : List.count (t + 1) (List.map (· + 1) (List.filter (fun i => clock i || i == t) (List.range t))) = 0 := by
      rw [List.count_eq_zero]
      intro hmem
      simp only [List.mem_map, List.mem_filter, List.mem_range] at hmem
      obtain ⟨a, ⟨ha, _⟩, hat⟩ := hmem
      omega
    rw [this]; simp

/-! ### (ii) the reporter -/

/-- facts about one pass over `active`. -/
theorem sweep_spec (mr : List (Option Nat)) (total N : Nat) (active : List Nat) (na : Nat) (hna : na ≤ N) :
    let r := sweep mr total N active na
    r.2.2 = active.countP (finished mr total ·)
    ∧ na ≤ r.2.1 ∧ r.2.1 ≤ N
    ∧ r.2.1 - na = min r.2.2 (N - na)
    ∧ r.1.length + r.2.2 = active.length + (r.2.1 - na)
    ∧ (∀ i ∈ r.1, i ∈ active ∨ (na ≤ i ∧ i < r.2.1))
    ∧ (∀ i, na ≤ i → i < r.2.1 → i ∈ r.1)
    ∧ (∀ i ∈ active, i ∉ r.1 → finished mr total i = true)
    ∧ (∀ i ∈ r.1, i ∈ active → finished mr total i = false ∨ (na ≤ i ∧ i < r.2.1)) := by
  induction active generalizing na with
  | nil => simp [sweep, hna]
  | cons a rest ih =>
    simp only [sweep]
    by_cases hf : finished mr total a = true
    · simp only [hf, if_true]
      by_cases hlt : na < N
      · simp only [hlt, if_true]
        obtain ⟨h1, h2, h3, h4, h5, h6, h7, h8, h9⟩ := ih (na + 1) (by omega)
        refine ⟨?_, by omega, h3, ?_, ?_, ?_, ?_, ?_, ?_⟩
        · simp [List.countP_cons, hf, h1]
        · omega
        · simp only [List.length_cons]; omega
        · intro i hi
          rcases List.mem_cons.mp hi with rfl | hi
          · right; omega
          · rcases h6 i hi with h | h
            · left; exact List.mem_cons_of_mem _ h
            · right; omega
        · intro i hi1 hi2
          by_cases e : i = na
          · subst e; exact List.mem_cons_self
          · exact List.mem_cons_of_mem _ (h7 i (by omega) hi2)
        · intro i hi hni
          rcases List.mem_cons.mp hi with rfl | hi
          · exact hf
          · exact h8 i hi (fun h => hni (List.mem_cons_of_mem _ h))
        · intro i hi hia
          rcases List.mem_cons.mp hi with rfl | hi'
          · right; omega
          · rcases List.mem_cons.mp hia with rfl | hia'
            · rcases h6 i hi' with h | h
              · rcases h9 i hi' h with h | h
                · left; exact h
                · right; omega
              · right; omega
            · rcases h9 i hi' hia' with h | h
              · left; exact h
              · right; omega
      · simp only [hlt, if_false]
        have hN : na = N := by omega
        obtain ⟨h1, h2, h3, h4, h5, h6, h7, h8, h9⟩ := ih na hna
        refine ⟨?_, h2, h3, ?_, ?_, ?_, h7, ?_, ?_⟩
        · simp [List.countP_cons, hf, h1]
        · omega
        · simp only [List.length_cons]; omega
        · intro i hi
          rcases h6 i hi with h | h
          · left; exact List.mem_cons_of_mem _ h
          · right; exact h
        · intro i hi hni
          rcases List.mem_cons.mp hi with rfl | hi
          · exact hf
          · exact h8 i hi hni
        · intro i hi hia
          rcases List.mem_cons.mp hia with rfl | hia'
          · rcases h6 i hi with h | h
            · exact h9 i hi h
            · right; exact h
          · exact h9 i hi hia'
    · have hf' : finished mr total a = false := by simpa using hf
      simp only [hf', Bool.false_eq_true, if_false]
      obtain ⟨h1, h2, h3, h4, h5, h6, h7, h8, h9⟩ := ih na hna
      refine ⟨?_, h2, h3, h4, ?_, ?_, ?_, ?_, ?_⟩
      · simp [List.countP_cons, hf', h1]
      · simp only [List.length_cons]; omega
      · intro i hi
        rcases List.mem_cons.mp hi with rfl | hi
        · left; exact List.mem_cons_self
        · rcases h6 i hi with h | h
          · left; exact List.mem_cons_of_mem _ h
          · right; exact h
      · intro i hi1 hi2; exact List.mem_cons_of_mem _ (h7 i hi1 hi2)
      · intro i hi hni
        rcases List.mem_cons.mp hi with rfl | hi
        · exact absurd List.mem_cons_self hni
        · exact h8 i hi (fun h => hni (List.mem_cons_of_mem _ h))
      · intro i hi hia
        rcases List.mem_cons.mp hi with rfl | hi'
        · left; exact hf'
        · rcases List.mem_cons.mp hia with rfl | hia'
          · left; exact hf'
          · exact h9 i hi' hia'

/-- the bookkeeping invariant: every chain is finished, shown, or still waiting — exactly once. -/
structure Inv (N : Nat) (st : RState) : Prop where
  next_le : st.nextActive ≤ N
  partition : st.nFinished + st.active.length + (N - st.nextActive) = N
  nonempty : st.nextActive < N → st.active ≠ []

theorem inv_init (N : Nat) : Inv N (RState.init N) := by
  refine ⟨by simp [RState.init], ?_, ?_⟩
  · simp [RState.init]
  · intro h
    simp only [RState.init] at h ⊢
    intro e
    have : (List.range (min N 5)).length = 0 := by rw [e]; rfl
    simp at this
    omega

/-- **counts once**: the invariant is preserved by every iteration, whatever arrives (`n_finished` is the number of
    chains retired from `active`; no chain is counted twice because a counted chain leaves `active` in the same pass). -/
theorem inv_iter (total N : Nat) (st : RState) (arrivals : List (Nat × Nat)) (h : Inv N st) :
    Inv N (iter total N st arrivals).1 := by
  obtain ⟨h1, h2, h3, h4, h5, h6, h7, h8, h9⟩ :=
    sweep_spec (drain st.mostRecent arrivals) total N st.active st.nextActive h.next_le
  simp only [iter]
  refine ⟨h3, ?_, ?_⟩
  · simp only
    have := h.partition
    omega
  · simp only
    intro hlt
    have hna : st.nextActive < N := by omega
    have hne := h.nonempty hna
    have hpos : 0 < st.active.length := List.length_pos_iff.mpr hne
    intro e
    rw [e] at h5
    simp only [List.length_nil, Nat.zero_add] at h5
    -- all active were counted, so next_active advanced by min k (N - na) = k < N - na … but then the new list has k entries
    have : (sweep (drain st.mostRecent arrivals) total N st.active st.nextActive).2.1 - st.nextActive
        = (sweep (drain st.mostRecent arrivals) total N st.active st.nextActive).2.2 := by
      rw [h4]; omega
    omega

/-- the per-chain soundness invariant: a chain that was shown earlier and is no longer shown had its final message seen. -/
def Retired (total : Nat) (st : RState) : Prop :=
  ∀ i, i < st.nextActive → i ∉ st.active → finished st.mostRecent total i = true

theorem retired_init (total N : Nat) : Retired total (RState.init N) := by
  intro i hi hni
  simp only [RState.init] at hi hni
  exact absurd (List.mem_range.mpr hi) hni

theorem retired_iter (total N : Nat) (st : RState) (arrivals : List (Nat × Nat)) (h : Inv N st)
    (hr : Retired total st)
    (hpersist : ∀ i, finished st.mostRecent total i = true → finished (drain st.mostRecent arrivals) total i = true) :
    Retired total (iter total N st arrivals).1 := by
  obtain ⟨h1, h2, h3, h4, h5, h6, h7, h8, h9⟩ :=
    sweep_spec (drain st.mostRecent arrivals) total N st.active st.nextActive h.next_le
  intro i hi hni
  simp only [iter] at hi hni ⊢
  by_cases hlt : i < st.nextActive
  · by_cases hia : i ∈ st.active
    · exact h8 i hia hni
    · exact hpersist i (hr i hlt hia)
  · exact absurd (h7 i (by omega) hi) hni

/-- **exit is sound**: when the loop breaks, every chain's final message (count = `total`) has been seen. -/
theorem reporter_exit_sound (total N : Nat) (st : RState) (h : Inv N st) (hr : Retired total st)
    (hexit : N ≤ st.nFinished) : ∀ i, i < N → finished st.mostRecent total i = true := by
  have hp := h.partition
  have hle := h.next_le
  have ha : st.active = [] := by
    apply List.eq_nil_of_length_eq_zero; omega
  have hn : st.nextActive = N := by omega
  intro i hi
  exact hr i (by omega) (by rw [ha]; simp)

/-- progress: once every chain's final message is in `most_recent`, one iteration retires **all** shown chains. -/
theorem iter_all_final (total N : Nat) (st : RState) (h : Inv N st)
    (hall : ∀ i, finished st.mostRecent total i = true) :
    (iter total N st []).1.nFinished = st.nFinished + st.active.length
    ∧ (iter total N st []).1.mostRecent = st.mostRecent := by
  obtain ⟨h1, _⟩ := sweep_spec st.mostRecent total N st.active st.nextActive h.next_le
  simp only [iter, drain, List.foldl_nil]
  refine ⟨?_, trivial⟩
  rw [h1]
  congr 1
  rw [List.countP_eq_length]
  intro a _
  simpa using hall a

/-- **termination**: for every number of chains (more than the 5 bars included) and every arrival history, once all
    final messages have arrived the loop breaks after at most `N - n_finished + 1` further iterations
    (each iteration retires every shown chain, and `active` is non-empty while anything is left). -/
theorem reporter_terminates (total N : Nat) (st : RState) (h : Inv N st)
    (hall : ∀ i, finished st.mostRecent total i = true) :
    ∃ k, k ≤ N - st.nFinished + 1 ∧ (runIters total N st (List.replicate k [])).2 = true := by
  generalize hm : N - st.nFinished = m
  induction m using Nat.strong_induction_on generalizing st with
  | _ m ih =>
    have hstep := iter_all_final total N st h hall
    have hinv' := inv_iter total N st [] h
    by_cases hex : N ≤ (iter total N st []).1.nFinished
    · refine ⟨1, by omega, ?_⟩
      simp only [List.replicate_one, runIters]
      have : (iter total N st []).2 = true := by simpa [iter] using hex
      simp [this]
    · have hlt : st.nFinished < N := by
        have := hstep.1; omega
      have hne : st.active ≠ [] := by
        by_cases hn : st.nextActive < N
        · exact h.nonempty hn
        · intro e
          have := h.partition
          rw [e] at this
          have := h.next_le
          simp at *
          omega
      have hpos : 0 < st.active.length := List.length_pos_iff.mpr hne
      have hall' : ∀ i, finished (iter total N st []).1.mostRecent total i = true := by
        rw [hstep.2]; exact hall
      obtain ⟨k, hk, hrun⟩ := ih (N - (iter total N st []).1.nFinished) (by rw [hstep.1]; omega)
        (iter total N st []).1 hinv' hall' rfl
      refine ⟨k + 1, by rw [hstep.1] at hk; omega, ?_⟩
      simp only [List.replicate_succ, runIters]
      have : (iter total N st []).2 = false := by simpa [iter] using hex
      simp [this, hrun]

/-! ### non-vacuity: 7 chains, chain 6 finishes first -/
example :
    let st0 := RState.init 7
    let r1 := iter 10 7 st0 [(6, 10), (0, 3)]
    let r2 := iter 10 7 r1.1 [(0, 10), (1, 10), (2, 10), (3, 10), (4, 10), (5, 10)]
    let r3 := iter 10 7 r2.1 []
    r1.1.active = [0, 1, 2, 3, 4] ∧ r1.2 = false ∧ r2.1.active = [5, 6] ∧ r2.1.nFinished = 5 ∧ r2.2 = false
    ∧ r3.1.active = [] ∧ r3.1.nFinished = 7 ∧ r3.2 = true := by decide

end MiniMcmcVerif.Reporter

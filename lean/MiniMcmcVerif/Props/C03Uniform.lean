import MiniMcmcVerif.Props.C03
import MiniMcmcVerif.Props.C03Transition
import Mathlib.Tactic.Ring

/-!
# C03 — the candidate of a subtree is drawn uniformly among its slice-admissible points

The structure of a subtree (visited points, counts, stop flag, ends) does not depend on the selection uniforms; only
`prime` does, through the rule "take the second half's candidate iff `u < n''/max(n'+n'',1)`". Under a uniform
`u ∈ [0,1)` that event has probability `r = n''/max(n'+n'',1)` (`accept_region`-style: `{u ∈ [0,1) | u < r}` has length
`r` for `r ∈ [0,1]`). `primeWeight` is the resulting probability of each visited point (by position) to be the
candidate; `selection_uniform` shows it is `1/n'` on admissible points and `0` elsewhere.
-/

set_option linter.unusedSectionVars false
set_option linter.unusedVariables false

namespace MiniMcmcVerif.NUTS

variable {K V : Type} [Field K] [LinearOrder K] [IsStrictOrderedRing K] [HasExp K] [Add V] [Sub V] [SMul K V]
variable (target : V → K × V) (dot : V → V → K) (logu : K) (dirNeg : Bool) (eps joint0 : K)

/-- everything but the candidate -/
def skeleton (t : Tree K V) : Pt K V × Pt K V × Nat × Bool × K × Nat × List (Pt K V) :=
  (t.minus, t.plus, t.n, t.s, t.alpha, t.nalpha, t.leaves)

/-- **the tree's structure does not depend on the selection uniforms** -/
theorem skeleton_indep_sel (j : Nat) (z : Pt K V) (sel sel' : List K) :
    skeleton (buildTree target dot logu dirNeg eps joint0 j z sel).1
      = skeleton (buildTree target dot logu dirNeg eps joint0 j z sel').1 := by
  induction j generalizing z sel sel' with
  | zero => rfl
  | succ j ih =>
    have h1 := ih z sel sel'
    simp only [skeleton, Prod.mk.injEq] at h1
    obtain ⟨hm, hp, hn, hs, ha, hna, hl⟩ := h1
    cases hs1 : (buildTree target dot logu dirNeg eps joint0 j z sel).1.s
    · have hs2 : (buildTree target dot logu dirNeg eps joint0 j z sel').1.s = false := by rw [← hs]; exact hs1
      rw [bt_stop _ _ _ _ _ _ _ _ _ hs1, bt_stop _ _ _ _ _ _ _ _ _ hs2]
      exact ih z sel sel'
    · have hs2 : (buildTree target dot logu dirNeg eps joint0 j z sel').1.s = true := by rw [← hs]; exact hs1
      rw [bt_go _ _ _ _ _ _ _ _ _ hs1, bt_go _ _ _ _ _ _ _ _ _ hs2]
      have hstart : startOf dirNeg (buildTree target dot logu dirNeg eps joint0 j z sel).1
          = startOf dirNeg (buildTree target dot logu dirNeg eps joint0 j z sel').1 := by
        unfold startOf; rw [hm, hp]
      have h2 := ih (startOf dirNeg (buildTree target dot logu dirNeg eps joint0 j z sel').1)
        (buildTree target dot logu dirNeg eps joint0 j z sel).2 (buildTree target dot logu dirNeg eps joint0 j z sel').2
      simp only [skeleton, Prod.mk.injEq] at h2
      obtain ⟨hm2, hp2, hn2, hs2', ha2, hna2, hl2⟩ := h2
      simp only [skeleton, mergeTrees, Prod.mk.injEq]
      rw [hstart, hm, hp, hn, ha, hna, hl, hm2, hp2, hn2, hs2', ha2, hna2, hl2]
      simp

/-- probability that the `k`-th visited point of the subtree is its candidate, under i.i.d. uniform selection draws
    (defined from the structure, which is independent of the draws). -/
def primeWeight : Nat → Pt K V → Nat → K
  | 0, _, k => if k = 0 then 1 else 0
  | j + 1, z, k =>
    let t1 := (buildTree target dot logu dirNeg eps joint0 j z []).1
    if t1.s then
      let t2 := (buildTree target dot logu dirNeg eps joint0 j (startOf dirNeg t1) []).1
      let r : K := ((t2.n : Nat) : K) / ((max (t1.n + t2.n) 1 : Nat) : K)
      if k < t1.leaves.length then (1 - r) * primeWeight j z k
      else r * primeWeight j (startOf dirNeg t1) (k - t1.leaves.length)
    else primeWeight j z k

/-- **uniform selection**: in a subtree containing `n' > 0` admissible points, every admissible visited point is the
    candidate with probability exactly `1/n'`, every inadmissible one with probability `0`. -/
theorem selection_uniform (j : Nat) (z : Pt K V) (k : Nat) (p : Pt K V)
    (hk : (buildTree target dot logu dirNeg eps joint0 j z []).1.leaves[k]? = some p)
    (hn : 0 < (buildTree target dot logu dirNeg eps joint0 j z []).1.n) :
    primeWeight target dot logu dirNeg eps joint0 j z k
      = if Adm dot logu p then 1 / (((buildTree target dot logu dirNeg eps joint0 j z []).1.n : Nat) : K) else 0 := by
  induction j generalizing z k p with
  | zero =>
    simp only [buildTree] at hk hn ⊢
    cases k with
    | succ k => simp at hk
    | zero =>
      simp only [List.getElem?_cons_zero, Option.some.injEq] at hk
      subst hk
      simp only [primeWeight, if_true, Adm]
      by_cases h : logu < joint dot (leapfrog target (if dirNeg = true then -eps else eps) z)
      · simp [h]
      · simp [h] at hn
  | succ j ih =>
    obtain ⟨_, c1, _⟩ := buildTree_counts target dot logu dirNeg eps joint0 j z []
    cases hs : (buildTree target dot logu dirNeg eps joint0 j z []).1.s
    · have e := bt_stop target dot logu dirNeg eps joint0 j z [] hs
      simp only [primeWeight, hs, Bool.false_eq_true, if_false]
      rw [e] at hk hn ⊢
      exact ih z k p hk hn
    · have e := bt_go target dot logu dirNeg eps joint0 j z [] hs
      have hsk := skeleton_indep_sel target dot logu dirNeg eps joint0 j
        (startOf dirNeg (buildTree target dot logu dirNeg eps joint0 j z []).1)
        (buildTree target dot logu dirNeg eps joint0 j z []).2 []
      simp only [skeleton, Prod.mk.injEq] at hsk
      obtain ⟨_, _, hn2, _, _, _, hl2⟩ := hsk
      obtain ⟨_, c2, _⟩ := buildTree_counts target dot logu dirNeg eps joint0 j
        (startOf dirNeg (buildTree target dot logu dirNeg eps joint0 j z []).1) []
      rw [e] at hk hn ⊢
      simp only [mergeTrees] at hk hn ⊢
      rw [hn2] at hn ⊢
      rw [hl2] at hk
      simp only [primeWeight, hs, if_true]
      have ih1 := ih z
      have ih2 := ih (startOf dirNeg (buildTree target dot logu dirNeg eps joint0 j z []).1)
      clear ih
      generalize (buildTree target dot logu dirNeg eps joint0 j z []).1 = t1 at *
      generalize (buildTree target dot logu dirNeg eps joint0 j (startOf dirNeg t1) []).1 = t2 at *
      have hmax : max (t1.n + t2.n) 1 = t1.n + t2.n := by omega
      have hsum : (((t1.n + t2.n : Nat) : K)) ≠ 0 := by exact_mod_cast (by omega : t1.n + t2.n ≠ 0)
      rw [hmax]
      by_cases hk1 : k < t1.leaves.length
      · simp only [hk1, if_true]
        rw [List.getElem?_append_left hk1] at hk
        by_cases hn1 : 0 < t1.n
        · rw [ih1 k p hk hn1]
          have hn1' : ((t1.n : Nat) : K) ≠ 0 := by exact_mod_cast (by omega : t1.n ≠ 0)
          by_cases ha : Adm dot logu p
          · simp only [ha, if_true]
            push_cast
            field_simp
            ring
          · simp [ha]
        · have hn1z : t1.n = 0 := by omega
          have hnot : ¬ Adm dot logu p := by
            intro ha
            have hcount : 0 < t1.leaves.countP (fun q => decide (Adm dot logu q)) := by
              rw [List.countP_pos_iff]
              exact ⟨p, List.mem_of_getElem? hk, by simpa using ha⟩
            omega
          have hn2' : ((t2.n : Nat) : K) ≠ 0 := by exact_mod_cast (by omega : t2.n ≠ 0)
          simp only [hnot, if_false, hn1z, Nat.zero_add]
          rw [div_self hn2']; ring
      · simp only [hk1, if_false]
        rw [List.getElem?_append_right (by omega)] at hk
        by_cases hn2p : 0 < t2.n
        · rw [ih2 (k - t1.leaves.length) p hk hn2p]
          have hn2' : ((t2.n : Nat) : K) ≠ 0 := by exact_mod_cast (by omega : t2.n ≠ 0)
          by_cases ha : Adm dot logu p
          · simp only [ha, if_true]
            push_cast
            field_simp
          · simp [ha]
        · have hn2z : t2.n = 0 := by omega
          have hnot : ¬ Adm dot logu p := by
            intro ha
            have hcount : 0 < t2.leaves.countP (fun q => decide (Adm dot logu q)) := by
              rw [List.countP_pos_iff]
              exact ⟨p, List.mem_of_getElem? hk, by simpa using ha⟩
            omega
          simp [hnot, hn2z]

end MiniMcmcVerif.NUTS

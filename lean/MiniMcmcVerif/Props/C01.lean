import MiniMcmcVerif.Model.MH
import MiniMcmcVerif.Model.IEEE
import MiniMcmcVerif.Props.IEEE
import Mathlib.Analysis.SpecialFunctions.Log.Basic
import Mathlib.Algebra.BigOperators.Group.Finset.Basic
import Mathlib.Algebra.Order.Field.Basic
import Mathlib.Tactic.Linarith
import Mathlib.Tactic.FieldSimp

/-!
# C01 — a Metropolis–Hastings step obeys the acceptance rule; detailed balance

* `mh_step_rule`, `mh_step_accept`, `mh_step_reject` — the decision, for every oracle, state type, scalar and `u`.
* `mh_reject_bad`, `mh_reject_nan_ratio` — special values, for every carrier with `IEEELaws`.
* `accept_region` — over ℝ: `{u ∈ (0,1) | log u < r} = (0, min 1 (exp r))`: the rule accepts with probability
  `min(1, eʳ)` under a uniform draw; `ratio_is_exp_logRatio` links `eʳ` to the Hastings ratio.
* `mh_detailed_balance`, `mh_stationary` — finite state space, any (asymmetric, zeros allowed) proposal matrix.
-/

set_option linter.unusedSectionVars false

namespace MiniMcmcVerif.MH

section rule
variable {S F : Type} [Add F] [Sub F] [LT F] [DecidableLT F]

/-- **the rule**: the step ends at the candidate exactly when `ln u < [logp y + q(x|y)] − [logp x + q(y|x)]`,
    and otherwise at `x` itself (the same value — no recomputation, "bit for bit"). -/
theorem mh_step_accept (o : Oracle S F) (x y : S) (lnu : F) (h : lnu < logRatio o x y) : mhStep o x y lnu = y := by
  simp [mhStep, h]

theorem mh_step_reject (o : Oracle S F) (x y : S) (lnu : F) (h : ¬ lnu < logRatio o x y) : mhStep o x y lnu = x := by
  simp [mhStep, h]

theorem mh_step_rule (o : Oracle S F) (x y : S) (lnu : F) (hxy : y ≠ x) :
    mhStep o x y lnu = y ↔ lnu < (o.logp y + o.q y x) - (o.logp x + o.q x y) := by
  unfold mhStep logRatio
  split
  · simp_all
  · rename_i h; constructor
    · intro e; exact absurd e.symm hxy
    · intro h'; exact absurd h' h

/-- the result is always one of the two states. -/
theorem mh_step_mem (o : Oracle S F) (x y : S) (lnu : F) : mhStep o x y lnu = x ∨ mhStep o x y lnu = y := by
  unfold mhStep; split <;> simp

theorem accepts_iff (o : Oracle S F) (x y : S) (lnu : F) : accepts o x y lnu = true ↔ lnu < logRatio o x y := by
  simp [accepts]

end rule

section special
variable {S F : Type} [Add F] [Sub F] [LT F] [DecidableLT F] [L : IEEELaws F]

/-- a candidate whose log-density is NaN or −inf is never accepted — for **every** `u`, `u = 0` (`ln u = −inf`)
    included, whatever the other three terms are (+inf and NaN included). -/
theorem mh_reject_bad (o : Oracle S F) (x y : S) (lnu : F) (h : L.Bad (o.logp y)) : mhStep o x y lnu = x := by
  apply mh_step_reject
  unfold logRatio
  exact L.not_lt_bad _ _ (L.bad_sub_left _ _ (L.bad_add_left _ _ h))

/-- a NaN anywhere in the ratio (current or proposed log-density, either proposal term) rejects. -/
theorem mh_reject_nan (o : Oracle S F) (x y : S) (lnu : F)
    (h : L.IsNaN (o.logp y) ∨ L.IsNaN (o.q y x) ∨ L.IsNaN (o.logp x) ∨ L.IsNaN (o.q x y)) :
    mhStep o x y lnu = x := by
  apply mh_step_reject
  unfold logRatio
  apply L.not_lt_nan
  rcases h with h | h | h | h
  · exact L.nan_sub_left _ _ (L.nan_add_left _ _ h)
  · exact L.nan_sub_left _ _ (L.nan_add_right _ _ h)
  · exact L.nan_sub_right _ _ (L.nan_add_left _ _ h)
  · exact L.nan_sub_right _ _ (L.nan_add_right _ _ h)

/-- a NaN `ln u` (cannot come from `u ∈ [0,1)`, but the code would reject too). -/
theorem mh_reject_nan_lnu (o : Oracle S F) (x y : S) (lnu : F) (h : L.IsNaN lnu) : mhStep o x y lnu = x :=
  mh_step_reject o x y lnu (L.not_nan_lt _ _ h)

/-- hence: started at a state of finite density, an MH step never moves to a state of NaN / −inf density (C14). -/
theorem mh_never_bad (o : Oracle S F) (x y : S) (lnu : F) (hx : ¬ L.Bad (o.logp x)) :
    ¬ L.Bad (o.logp (mhStep o x y lnu)) := by
  by_cases h : L.Bad (o.logp y)
  · rw [mh_reject_bad o x y lnu h]; exact hx
  · rcases mh_step_mem o x y lnu with e | e <;> rw [e] <;> assumption

/-- **"nor to a position with non-finite coordinates"** for MH: if the target assigns a NaN / −inf density to every state
    outside a set `Good`, a step started in `Good` ends in `Good` — for every acceptance draw, `u = 0` included. -/
theorem mh_good_state (o : Oracle S F) (x y : S) (lnu : F) (Good : S → Prop) (hgood : ∀ s, ¬ Good s → L.Bad (o.logp s))
    (hx : Good x) : Good (mhStep o x y lnu) := by
  by_cases h : Good y
  · rcases mh_step_mem o x y lnu with e | e <;> rw [e] <;> assumption
  · rw [mh_reject_bad o x y lnu (hgood y h)]; exact hx

end special

/-! ### non-vacuity of the special-value theorems on `XR` -/
example : mhStep (S := Nat) (F := XR) ⟨fun s => if s = 1 then .ninf else .fin 0, fun _ _ => .fin 0⟩ 0 1 .ninf = 0 := by
  decide
example : mhStep (S := Nat) (F := XR) ⟨fun s => if s = 1 then .fin (-1) else .fin 0, fun _ _ => .fin 0⟩ 0 1 .ninf = 1 := by
  decide
example : mhStep (S := Nat) (F := XR) ⟨fun s => if s = 1 then .nan else .fin 0, fun _ _ => .pinf⟩ 0 1 (.fin (-5)) = 0 := by
  decide

/-! ### acceptance probability over ℝ -/

open Real in
/-- `{u ∈ (0,1) | log u < r} = (0, min 1 (exp r))`: under a uniform `u` the rule accepts with probability
    `min 1 (exp r)` (the length of that interval). `u = 0` is a null set; the code's `ln 0 = −inf` branch is covered by
    `mh_step_rule` / `mh_reject_bad`, not by Mathlib's junk value `Real.log 0 = 0`. -/
theorem accept_region (r : ℝ) : {u : ℝ | 0 < u ∧ u < 1 ∧ Real.log u < r} = Set.Ioo 0 (min 1 (Real.exp r)) := by
  ext u
  simp only [Set.mem_ofPred_eq, Set.mem_Ioo, lt_min_iff]
  constructor
  · rintro ⟨h0, h1, hl⟩
    exact ⟨h0, h1, (Real.log_lt_iff_lt_exp h0).mp hl⟩
  · rintro ⟨h0, h1, hl⟩
    exact ⟨h0, h1, (Real.log_lt_iff_lt_exp h0).mpr hl⟩

/-- the length of the acceptance interval is the Metropolis–Hastings acceptance probability. -/
theorem accept_length (r : ℝ) : min 1 (Real.exp r) - 0 = min 1 (Real.exp r) := by simp

/-- `exp (logRatio)` is the Hastings ratio `π(y) q(x|y) / (π(x) q(y|x))` for `π = exp ∘ logp`, `q = exp ∘ logq`. -/
theorem ratio_is_exp_logRatio {S : Type} (o : Oracle S ℝ) (x y : S) :
    Real.exp (logRatio o x y)
      = (Real.exp (o.logp y) * Real.exp (o.q y x)) / (Real.exp (o.logp x) * Real.exp (o.q x y)) := by
  unfold logRatio
  rw [Real.exp_sub, Real.exp_add, Real.exp_add]

/-! ### detailed balance on a finite state space -/

section balance
variable {ι : Type} [Fintype ι] [DecidableEq ι]
variable {K : Type} [Field K] [LinearOrder K] [IsStrictOrderedRing K]

/-- acceptance probability of the move `x → y`. -/
def acc (π : ι → K) (Q : ι → ι → K) (x y : ι) : K := min 1 (π y * Q y x / (π x * Q x y))

/-- off-diagonal part of the MH kernel: propose `y` from `x`, then accept. -/
def kern (π : ι → K) (Q : ι → ι → K) (x y : ι) : K := Q x y * acc π Q x y

theorem flow_eq_min (a b : K) (ha : 0 ≤ a) (hb : 0 ≤ b) : a * min 1 (b / a) = min a b := by
  rcases eq_or_lt_of_le ha with h0 | hpos
  · subst h0; simp [hb]
  · rw [mul_min_of_nonneg _ _ hpos.le, mul_one, mul_div_cancel₀ _ hpos.ne']

/-- **detailed balance**: `π x · K x y = π y · K y x` for every pair of states, for any non-negative weights `π`
    and any non-negative proposal matrix `Q` (asymmetric, with zeros). -/
theorem mh_detailed_balance (π : ι → K) (Q : ι → ι → K) (hπ : ∀ x, 0 ≤ π x) (hQ : ∀ x y, 0 ≤ Q x y) (x y : ι) :
    π x * kern π Q x y = π y * kern π Q y x := by
  unfold kern acc
  rw [← mul_assoc, ← mul_assoc]
  rw [flow_eq_min _ _ (mul_nonneg (hπ x) (hQ x y)) (mul_nonneg (hπ y) (hQ y x))]
  rw [flow_eq_min _ _ (mul_nonneg (hπ y) (hQ y x)) (mul_nonneg (hπ x) (hQ x y))]
  exact min_comm _ _

/-- the full one-step transition matrix: off-diagonal `kern`, diagonal = rejection mass. -/
def trans (π : ι → K) (Q : ι → ι → K) (x y : ι) : K :=
  if x = y then 1 - ∑ z ∈ Finset.univ.erase x, kern π Q x z else kern π Q x y

theorem trans_row_sum (π : ι → K) (Q : ι → ι → K) (x : ι) : ∑ y, trans π Q x y = 1 := by
  rw [← Finset.add_sum_erase _ _ (Finset.mem_univ x)]
  have : ∑ y ∈ Finset.univ.erase x, trans π Q x y = ∑ y ∈ Finset.univ.erase x, kern π Q x y := by
    apply Finset.sum_congr rfl
    intro y hy
    have : x ≠ y := fun h => (Finset.ne_of_mem_erase hy) h.symm
    simp [trans, this]
  rw [this]
  simp [trans]

theorem trans_balance (π : ι → K) (Q : ι → ι → K) (hπ : ∀ x, 0 ≤ π x) (hQ : ∀ x y, 0 ≤ Q x y) (x y : ι) :
    π x * trans π Q x y = π y * trans π Q y x := by
  by_cases h : x = y
  · subst h; rfl
  · have h' : ¬ y = x := fun e => h e.symm
    simp only [trans, h, h', if_false]
    exact mh_detailed_balance π Q hπ hQ x y

/-- **stationarity**: the target weights are invariant under one MH step. -/
theorem mh_stationary (π : ι → K) (Q : ι → ι → K) (hπ : ∀ x, 0 ≤ π x) (hQ : ∀ x y, 0 ≤ Q x y) (y : ι) :
    ∑ x, π x * trans π Q x y = π y := by
  calc ∑ x, π x * trans π Q x y = ∑ x, π y * trans π Q y x :=
        Finset.sum_congr rfl fun x _ => trans_balance π Q hπ hQ x y
    _ = π y * ∑ x, trans π Q y x := by rw [Finset.mul_sum]
    _ = π y := by rw [trans_row_sum, mul_one]

end balance

/-! ### non-vacuity: a 3-state chain with an asymmetric proposal containing a zero, over ℚ -/
section nv
def πe : Fin 3 → ℚ
  | 0 => 1/2 | 1 => 1/3 | 2 => 1/6
def Qe : Fin 3 → Fin 3 → ℚ
  | 0, 0 => 0 | 0, 1 => 1/2 | 0, 2 => 1/2
  | 1, 0 => 1 | 1, 1 => 0 | 1, 2 => 0
  | 2, 0 => 1/4 | 2, 1 => 3/4 | 2, 2 => 0
example : kern πe Qe 0 1 = 1/2 ∧ kern πe Qe 1 0 = 3/4 ∧ kern πe Qe 1 2 = 0 ∧ kern πe Qe 2 1 = 0 := by
  refine ⟨?_, ?_, ?_, ?_⟩ <;> norm_num [kern, acc, πe, Qe]
example : πe 0 * kern πe Qe 0 1 = πe 1 * kern πe Qe 1 0 :=
  mh_detailed_balance πe Qe (by intro x; fin_cases x <;> norm_num [πe]) (by intro x y; fin_cases x <;> fin_cases y <;> norm_num [Qe]) 0 1
end nv

end MiniMcmcVerif.MH

import MiniMcmcVerif.Props.C11
import MiniMcmcVerif.Props.C11Unbounded
import Mathlib.Data.List.Count

/-!
# C11 — the reported median is an order statistic; the reported variance is non-negative

`basic_stats` sorts descending and reports the element at index `⌊len/2⌋`. For every non-empty input that element `m`
satisfies: at least `⌊len/2⌋ + 1` of the inputs are `≥ m` and at least `len − ⌊len/2⌋` are `≤ m` (the defining property of
the upper median), whatever the input order and however many ties there are.
-/

namespace MiniMcmcVerif.Stats

section order
variable {α : Type} [LinearOrder α]

/-- in a descending list, everything up to index `k` is `≥` the `k`-th element and everything from `k` on is `≤` it -/
theorem desc_counts (s : List α) (hs : s.Pairwise (· ≥ ·)) (k : Nat) (hk : k < s.length) :
    k + 1 ≤ s.countP (fun x => decide (s[k] ≤ x)) ∧ s.length - k ≤ s.countP (fun x => decide (x ≤ s[k])) := by
  have hget : ∀ i j (hi : i < s.length) (hj : j < s.length), i ≤ j → s[j] ≤ s[i] := by
    intro i j hi hj hij
    rcases Nat.eq_or_lt_of_le hij with h | h
    · subst h; exact le_refl _
    · exact (List.pairwise_iff_getElem.mp hs) i j hi hj h
  constructor
  · have h1 : (s.take (k + 1)).countP (fun x => decide (s[k] ≤ x)) = (s.take (k + 1)).length := by
      rw [List.countP_eq_length]
      intro x hx
      obtain ⟨i, hi, rfl⟩ := List.getElem_of_mem hx
      simp only [List.length_take] at hi
      simp only [List.getElem_take, decide_eq_true_eq]
      exact hget i k (by omega) hk (by omega)
    have h2 : (s.take (k + 1)).countP (fun x => decide (s[k] ≤ x)) ≤ s.countP (fun x => decide (s[k] ≤ x)) :=
      (List.take_sublist _ _).countP_le
    rw [h1, List.length_take] at h2
    omega
  · have h1 : (s.drop k).countP (fun x => decide (x ≤ s[k])) = (s.drop k).length := by
      rw [List.countP_eq_length]
      intro x hx
      obtain ⟨i, hi, rfl⟩ := List.getElem_of_mem hx
      simp only [List.length_drop] at hi
      simp only [List.getElem_drop, decide_eq_true_eq]
      exact hget k (k + i) hk (by omega) (by omega)
    have h2 : (s.drop k).countP (fun x => decide (x ≤ s[k])) ≤ s.countP (fun x => decide (x ≤ s[k])) :=
      (List.drop_sublist _ _).countP_le
    rw [h1, List.length_drop] at h2
    exact h2

end order

section field
variable {α : Type} [Field α] [LinearOrder α] [IsStrictOrderedRing α]

/-- **the reported median is the upper median of the inputs** -/
theorem basic_median_spec (l : List α) (hne : l ≠ []) :
    let m := (basicStats l).median
    m ∈ l ∧ l.length / 2 + 1 ≤ l.countP (fun x => decide (m ≤ x)) ∧ l.length - l.length / 2 ≤ l.countP (fun x => decide (x ≤ m)) := by
  intro m
  have hp := sortDesc_perm l
  have hs := sortDesc_sorted l
  have hlen : (sortDesc l).length = l.length := hp.length_eq
  have hpos : 0 < l.length := List.length_pos_iff.mpr hne
  have hk : l.length / 2 < (sortDesc l).length := by rw [hlen]; omega
  have hm : m = (sortDesc l)[l.length / 2] := by
    show (sortDesc l).getD ((sortDesc l).length / 2) 0 = _
    rw [hlen, List.getD_eq_getElem?_getD, List.getElem?_eq_getElem hk, Option.getD_some]
  obtain ⟨h1, h2⟩ := desc_counts (sortDesc l) hs (l.length / 2) hk
  refine ⟨?_, ?_, ?_⟩
  · rw [hm]; exact hp.mem_iff.mp (List.getElem_mem hk)
  · rw [hm, ← hp.countP_eq]; exact h1
  · rw [hm, ← hp.countP_eq]; rw [hlen] at h2; exact h2

/-- the reported variance (ddof 1) is non-negative, so its square root is defined -/
theorem basic_var_nonneg (l : List α) : 0 ≤ (basicStats l).var := by
  show 0 ≤ sum (l.map fun x => sq (x - mean l)) / ((l.length - 1 : Nat) : α)
  apply div_nonneg
  · rw [sum_eq]
    apply List.sum_nonneg
    intro x hx
    obtain ⟨y, _, rfl⟩ := List.mem_map.mp hx
    unfold sq; exact mul_self_nonneg _
  · exact Nat.cast_nonneg _

end field

example : (basicStats [(3 : ℚ), 1, 2, 2]).median = 2 ∧ (basicStats [(5 : ℚ), 1]).median = 1 := by
  constructor <;> decide +kernel

end MiniMcmcVerif.Stats

import MiniMcmcVerif.Model.IEEE

/-!
# `XR`: a concrete extended-real model satisfying `IEEELaws` (non-vacuity of the special-value theorems)
-/

set_option linter.unusedSimpArgs false

namespace MiniMcmcVerif

/-- NaN, −inf, a finite rational, +inf — with IEEE-style `+`, `-`, `<`. -/
inductive XR where
  | nan | ninf | fin (q : Rat) | pinf
  deriving DecidableEq, Repr

namespace XR

def add : XR → XR → XR
  | nan, _ => nan
  | _, nan => nan
  | ninf, pinf => nan
  | pinf, ninf => nan
  | ninf, _ => ninf
  | _, ninf => ninf
  | pinf, _ => pinf
  | _, pinf => pinf
  | fin a, fin b => fin (a + b)

def neg : XR → XR
  | nan => nan | ninf => pinf | pinf => ninf | fin a => fin (-a)

def sub (a b : XR) : XR := add a (neg b)

def lt : XR → XR → Prop
  | nan, _ => False
  | _, nan => False
  | ninf, ninf => False
  | ninf, _ => True
  | _, ninf => False
  | pinf, _ => False
  | fin _, pinf => True
  | fin a, fin b => a < b

instance : Add XR := ⟨add⟩
instance : Sub XR := ⟨sub⟩
instance : LT XR := ⟨lt⟩

instance : DecidableLT XR := fun a b => by
  cases a <;> cases b <;> simp only [LT.lt, lt] <;> infer_instance

def bad : XR → Prop
  | nan => True | ninf => True | _ => False

def isNaN : XR → Prop
  | nan => True | _ => False

instance : IEEELaws XR where
  Bad := bad
  bad_add_left := by intro a b h; cases a <;> cases b <;> simp_all [bad, HAdd.hAdd, Add.add, add]
  bad_add_right := by intro a b h; cases a <;> cases b <;> simp_all [bad, HAdd.hAdd, Add.add, add]
  bad_sub_left := by intro a b h; cases a <;> cases b <;> simp_all [bad, HSub.hSub, Sub.sub, sub, add, neg]
  not_lt_bad := by intro a c h; cases a <;> cases c <;> simp_all [bad, LT.lt, lt]
  IsNaN := isNaN
  nan_bad := by intro a h; cases a <;> simp_all [bad, isNaN]
  nan_add_left := by intro a b h; cases a <;> cases b <;> simp_all [isNaN, HAdd.hAdd, Add.add, add]
  nan_add_right := by intro a b h; cases a <;> cases b <;> simp_all [isNaN, HAdd.hAdd, Add.add, add]
  nan_sub_left := by intro a b h; cases a <;> cases b <;> simp_all [isNaN, HSub.hSub, Sub.sub, sub, add, neg]
  nan_sub_right := by intro a b h; cases a <;> cases b <;> simp_all [isNaN, HSub.hSub, Sub.sub, sub, add, neg]
  not_lt_nan := by intro a c h; cases a <;> cases c <;> simp_all [isNaN, LT.lt, lt]
  not_nan_lt := by intro a c h; cases a <;> cases c <;> simp_all [isNaN, LT.lt, lt]

theorem xr_satisfies_laws : Nonempty (IEEELaws XR) := ⟨inferInstance⟩

end XR
end MiniMcmcVerif

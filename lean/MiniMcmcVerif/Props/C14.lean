import MiniMcmcVerif.Model.IEEE
import MiniMcmcVerif.Model.HMC
import MiniMcmcVerif.Model.NUTS
import MiniMcmcVerif.Props.IEEE
import MiniMcmcVerif.Props.C01

/-!
# C14 — no sampler ever moves to a zero-density, NaN-density or non-finite state

The decision models of C01 (MH), C02 (HMC) and C03 (NUTS) at an arbitrary carrier satisfying explicit IEEE-754 laws
about special values. `XR` (NaN | −inf | finite | +inf) satisfies all of them (non-vacuity); that hardware floats do is
in the trusted base and the law table is evaluated natively by the harness on every run.
-/

set_option linter.unusedSectionVars false

namespace MiniMcmcVerif

/-- further IEEE laws needed for the energy test of HMC (negation, `≤`). `BadPos` = NaN or +inf, `NegInf` = −inf or NaN-free −inf. -/
class IEEELawsE (F : Type) [Add F] [Sub F] [Neg F] [LT F] [LE F] extends IEEELaws F where
  BadPos : F → Prop
  IsNegInf : F → Prop
  /-- −(NaN) = NaN, −(−inf) = +inf -/
  neg_bad : ∀ a : F, Bad a → BadPos (-a)
  /-- NaN + x = NaN, +inf + x ∈ {+inf, NaN} -/
  badpos_add_left : ∀ a b : F, BadPos a → BadPos (a + b)
  /-- x − NaN = NaN, x − (+inf) ∈ {−inf, NaN} -/
  sub_badpos : ∀ a b : F, BadPos b → Bad (a - b)
  /-- only −inf is `≤` −inf, nothing is `≤` NaN -/
  le_bad : ∀ a c : F, Bad a → c ≤ a → IsNegInf c

namespace XR

def le : XR → XR → Prop
  | nan, _ => False
  | _, nan => False
  | ninf, _ => True
  | _, ninf => False
  | _, pinf => True
  | pinf, _ => False
  | fin a, fin b => a ≤ b

instance : LE XR := ⟨le⟩
instance : Neg XR := ⟨neg⟩
instance : DecidableLE XR := fun a b => by
  cases a <;> cases b <;> simp only [LE.le, le] <;> infer_instance

def badPos : XR → Prop
  | nan => True | pinf => True | _ => False
def isNegInf : XR → Prop
  | ninf => True | _ => False

instance : IEEELawsE XR where
  BadPos := badPos
  IsNegInf := isNegInf
  neg_bad := by intro a h; cases a <;> simp_all [IEEELaws.Bad, bad, badPos, Neg.neg, neg]
  badpos_add_left := by intro a b h; cases a <;> cases b <;> simp_all [badPos, HAdd.hAdd, Add.add, add]
  sub_badpos := by intro a b h; cases a <;> cases b <;> simp_all [IEEELaws.Bad, bad, badPos, HSub.hSub, Sub.sub, sub, add, neg]
  le_bad := by intro a c h hle; cases a <;> cases c <;> simp_all [IEEELaws.Bad, bad, isNegInf, LE.le, le]

theorem xr_satisfies_lawsE : Nonempty (IEEELawsE XR) := ⟨inferInstance⟩

end XR

namespace HMC

variable {F V : Type} [Add F] [Sub F] [Neg F] [LT F] [LE F] [Mul F] [DecidableLE F] [L : IEEELawsE F]
  [Add V] [SMul F V]

/-- **HMC never moves to a NaN / −inf density**: if the log-density at the end of the trajectory is NaN or −inf, the row
    stays at `x` — for every acceptance draw except `ln u = −inf` (`u = 0`, excepted by the property), whatever the
    kinetic energies, the current log-density and the trajectory (divergent, NaN gradients, overflowing step sizes). -/
theorem hmc_never_bad (logp : V → F) (grad : V → V) (ke : V → F) (eps half : F) (Ln : Nat) (x p : V) (lnu : F)
    (hu : ¬ L.IsNegInf lnu)
    (hbad : L.Bad (logp (leapfrogCode grad eps half Ln (x, p, (eps * half) • grad x)).1)) :
    (hmcStepRow logp grad ke eps half Ln x p lnu).1 = x := by
  simp only [hmcStepRow, hamiltonian]
  have h1 : L.Bad (-(logp x) + ke p
      - (-(logp (leapfrogCode grad eps half Ln (x, p, (eps * half) • grad x)).1)
          + ke (leapfrogCode grad eps half Ln (x, p, (eps * half) • grad x)).2.1)) :=
    L.sub_badpos _ _ (L.badpos_add_left _ _ (L.neg_bad _ hbad))
  have : ¬ lnu ≤ -(logp x) + ke p
      - (-(logp (leapfrogCode grad eps half Ln (x, p, (eps * half) • grad x)).1)
          + ke (leapfrogCode grad eps half Ln (x, p, (eps * half) • grad x)).2.1) :=
    fun hle => hu (L.le_bad _ _ h1 hle)
  simp [this]

/-- the row is never a blend: it is the proposal or the untouched previous position. -/
theorem hmc_row_mem (logp : V → F) (grad : V → V) (ke : V → F) (eps half : F) (Ln : Nat) (x p : V) (lnu : F) :
    (hmcStepRow logp grad ke eps half Ln x p lnu).1 = x
    ∨ (hmcStepRow logp grad ke eps half Ln x p lnu).1 = (leapfrogCode grad eps half Ln (x, p, (eps * half) • grad x)).1 := by
  simp only [hmcStepRow]
  split
  · right; rfl
  · left; rfl

/-- **"nor to a position with non-finite coordinates"** for HMC: if the target assigns a NaN / −inf density to every position
    outside a set `Good`, a row ends at its previous position or at a position in `Good` (for every draw except `u = 0`). -/
theorem hmc_good_position (logp : V → F) (grad : V → V) (ke : V → F) (eps half : F) (Ln : Nat) (x p : V) (lnu : F)
    (hu : ¬ L.IsNegInf lnu) (Good : V → Prop) (hgood : ∀ y : V, ¬ Good y → L.Bad (logp y)) :
    (hmcStepRow logp grad ke eps half Ln x p lnu).1 = x ∨ Good (hmcStepRow logp grad ke eps half Ln x p lnu).1 := by
  by_cases hg : Good (leapfrogCode grad eps half Ln (x, p, (eps * half) • grad x)).1
  · rcases hmc_row_mem logp grad ke eps half Ln x p lnu with h | h
    · exact Or.inl h
    · right; rw [h]; exact hg
  · exact Or.inl (hmc_never_bad logp grad ke eps half Ln x p lnu hu (hgood _ hg))

end HMC

namespace NUTS

variable {F V : Type} [Add F] [Sub F] [Mul F] [Div F] [LT F] [NatCast F] [L : IEEELaws F]

/-- **NUTS never adopts a NaN / −inf density**: a phase point that passes the slice test `logu < joint` (the test every
    counted, and hence every selectable, point passed — `buildTree_counts`, `buildTree_prime_admissible`) has a
    log-density that is neither NaN nor −inf, whatever its momentum. -/
theorem nuts_admissible_not_bad (dot : V → V → F) (logu : F) (p : Pt F V) (h : logu < joint dot p) : ¬ L.Bad p.logp := by
  intro hb
  exact L.not_lt_bad _ _ (L.bad_sub_left _ _ hb) h

/-- a point whose joint density is NaN fails both the slice test and the divergence test: it is not counted and it stops the tree. -/
theorem nuts_nan_joint (dot : V → V → F) (logu c : F) (p : Pt F V) (h : L.IsNaN (joint dot p)) :
    ¬ logu < joint dot p ∧ ¬ logu - c < joint dot p :=
  ⟨L.not_lt_nan _ _ h, L.not_lt_nan _ _ h⟩

end NUTS

/-! non-vacuity on XR: an HMC row whose proposal has density −inf stays; with finite densities and a generous draw it moves -/
section nv
open HMC
instance : SMul XR XR := ⟨fun a b => match a, b with | .fin x, .fin y => .fin (x * y) | _, _ => .nan⟩
instance : Mul XR := ⟨fun a b => match a, b with | .fin x, .fin y => .fin (x * y) | _, _ => .nan⟩
example : (hmcStepRow (K := XR) (V := XR) (fun x => if x = XR.fin 1 then XR.fin 0 else XR.ninf) (fun _ => XR.fin 0) (fun _ => XR.fin 0)
    (XR.fin 1) (XR.fin (1/2)) 1 (XR.fin 1) (XR.fin 1) (XR.fin (-5))).1 = XR.fin 1 := by decide +kernel
example : (hmcStepRow (K := XR) (V := XR) (fun _ => XR.fin 0) (fun _ => XR.fin 0) (fun _ => XR.fin 0)
    (XR.fin 1) (XR.fin (1/2)) 1 (XR.fin 1) (XR.fin 1) (XR.fin (-5))).1 = XR.fin 2 := by decide +kernel
end nv

end MiniMcmcVerif

import MiniMcmcVerif.Model.DualAvg
import Mathlib.Analysis.SpecialFunctions.Log.Basic
import Mathlib.Analysis.SpecialFunctions.Pow.Real
import Mathlib.Analysis.SpecialFunctions.Sqrt
import Mathlib.Tactic.Linarith
import Mathlib.Tactic.FieldSimp
import Mathlib.Tactic.Ring
import Mathlib.Tactic.Positivity

/-!
# C04 — NUTS step size: dual averaging during warm-up, frozen afterwards (over ℝ)
-/

namespace MiniMcmcVerif.DualAvg

noncomputable instance : TrOps ℝ := ⟨Real.exp, Real.log, Real.sqrt, fun x k => Real.rpow x (-k), clampOrd⟩

/-! ### the clamp, for every carrier with a comparison — including ones with NaN-like incomparable elements -/

section Clamp
variable {K : Type} [LE K] [DecidableLE K]

/-- `clampOrd lo hi e` lies in `[lo, hi]` for **every** `e` (also one that compares with nothing, like a NaN), as soon as
    the two bounds themselves are ordinary: `lo ≤ lo`, `lo ≤ hi`, `hi ≤ hi`. No order axioms are used. -/
theorem clampOrd_mem (lo hi e : K) (hll : lo ≤ lo) (hlh : lo ≤ hi) (hhh : hi ≤ hi) :
    lo ≤ clampOrd lo hi e ∧ clampOrd lo hi e ≤ hi := by
  unfold clampOrd
  by_cases h1 : lo ≤ e
  · by_cases h2 : e ≤ hi <;> simp [h1, h2, hlh, hhh]
  · simp [h1, hlh, hll]

/-- inside the range the clamp does nothing. -/
theorem clampOrd_of_mem (lo hi e : K) (h1 : lo ≤ e) (h2 : e ≤ hi) : clampOrd lo hi e = e := by
  simp [clampOrd, h1, h2]

end Clamp

/-! ### positive and finite throughout — for every carrier (ℝ, and any float-like type whose `clamp` is `clampOrd`) -/

section Range
variable {K : Type} [Add K] [Sub K] [Mul K] [Div K] [NatCast K] [TrOps K] [LE K]
variable (lo hi delta gamma kappa : K) (t0 : Nat)

/-- one transition keeps the step size and the averaged iterate inside `[lo, hi]`, whatever `exp`, `ln`, `sqrt`, `powf`
    return (NaN, 0, ∞ …): only the clamp law is used. -/
theorem eps_in_range_step (hclamp : ∀ e : K, lo ≤ TrOps.clamp lo hi e ∧ TrOps.clamp lo hi e ≤ hi)
    (st : Adapt K) (a : K) (h : lo ≤ st.epsBar ∧ st.epsBar ≤ hi) :
    (lo ≤ (adaptStep lo hi delta gamma kappa t0 st a).eps ∧ (adaptStep lo hi delta gamma kappa t0 st a).eps ≤ hi)
    ∧ (lo ≤ (adaptStep lo hi delta gamma kappa t0 st a).epsBar ∧ (adaptStep lo hi delta gamma kappa t0 st a).epsBar ≤ hi) := by
  by_cases hw : st.m + 1 ≤ st.nDiscard
  · simp only [adaptStep, hw, if_true]
    exact ⟨hclamp _, hclamp _⟩
  · simp only [adaptStep, hw, if_false]
    exact ⟨h, h⟩

/-- **the step size is inside `[min_positive, max]` after every transition of every history** -/
theorem eps_in_range (hclamp : ∀ e : K, lo ≤ TrOps.clamp lo hi e ∧ TrOps.clamp lo hi e ≤ hi)
    (st : Adapt K) (stats : List K) (h : lo ≤ st.epsBar ∧ st.epsBar ≤ hi) (he : lo ≤ st.eps ∧ st.eps ≤ hi) :
    let r := stats.foldl (adaptStep lo hi delta gamma kappa t0) st
    (lo ≤ r.eps ∧ r.eps ≤ hi) ∧ (lo ≤ r.epsBar ∧ r.epsBar ≤ hi) := by
  induction stats generalizing st with
  | nil => exact ⟨he, h⟩
  | cons a as ih =>
    simp only [List.foldl_cons]
    have := eps_in_range_step lo hi delta gamma kappa t0 hclamp st a h
    exact ih _ this.2 this.1

end Range

variable (lo hi delta gamma kappa : ℝ) (t0 : Nat)

/-- the transition counter advances by one per transition and the warm-up length of the run is not touched. -/
theorem adaptStep_counters (st : Adapt ℝ) (a : ℝ) :
    (adaptStep lo hi delta gamma kappa t0 st a).m = st.m + 1 ∧ (adaptStep lo hi delta gamma kappa t0 st a).nDiscard = st.nDiscard
    ∧ (adaptStep lo hi delta gamma kappa t0 st a).mu = st.mu := by
  by_cases h : st.m + 1 ≤ st.nDiscard <;> simp [adaptStep, h]

/-- the ℝ instance satisfies the clamp law -/
theorem real_clamp_law (hlh : lo ≤ hi) (e : ℝ) : lo ≤ TrOps.clamp lo hi e ∧ TrOps.clamp lo hi e ≤ hi :=
  clampOrd_mem lo hi e le_rfl hlh le_rfl

/-- **positivity**: with `0 < lo ≤ hi` (`lo = T::min_positive_value()`), the step size and the averaged iterate stay in
    `[lo, hi]`, hence positive and finite, after every transition, for every history of acceptance statistics. -/
theorem eps_pos (hlo : 0 < lo) (hlh : lo ≤ hi) (st : Adapt ℝ) (stats : List ℝ)
    (h : lo ≤ st.epsBar ∧ st.epsBar ≤ hi) (he : lo ≤ st.eps ∧ st.eps ≤ hi) :
    0 < (stats.foldl (adaptStep lo hi delta gamma kappa t0) st).eps ∧ (stats.foldl (adaptStep lo hi delta gamma kappa t0) st).eps ≤ hi
    ∧ 0 < (stats.foldl (adaptStep lo hi delta gamma kappa t0) st).epsBar := by
  have := eps_in_range lo hi delta gamma kappa t0 (real_clamp_law lo hi hlh) st stats h he
  exact ⟨lt_of_lt_of_le hlo this.1.1, this.1.2, lt_of_lt_of_le hlo this.2.1⟩

/-- **frozen after warm-up, one transition**: once `m ≥ n_discard` (i.e. the transition being made is number
    `m + 1 > n_discard`), the step size becomes the averaged iterate, and neither the averaged iterate nor `H̄` moves. -/
theorem eps_frozen_step (st : Adapt ℝ) (a : ℝ) (h : st.nDiscard ≤ st.m) :
    (adaptStep lo hi delta gamma kappa t0 st a).eps = st.epsBar ∧ (adaptStep lo hi delta gamma kappa t0 st a).epsBar = st.epsBar
    ∧ (adaptStep lo hi delta gamma kappa t0 st a).hBar = st.hBar := by
  unfold adaptStep
  have : ¬ st.m + 1 ≤ st.nDiscard := by omega
  simp [this]

/-- **frozen for the rest of the run**: for every later transition of the run and arbitrary acceptance statistics; the
    dual-averaging statistic `H̄` is left exactly as warm-up ended (a later run that resumes adaptation starts from it). -/
theorem eps_frozen (st : Adapt ℝ) (stats : List ℝ) (h : st.nDiscard ≤ st.m) (hne : stats ≠ []) :
    (stats.foldl (adaptStep lo hi delta gamma kappa t0) st).eps = st.epsBar
    ∧ (stats.foldl (adaptStep lo hi delta gamma kappa t0) st).epsBar = st.epsBar
    ∧ (stats.foldl (adaptStep lo hi delta gamma kappa t0) st).hBar = st.hBar := by
  induction stats generalizing st with
  | nil => exact absurd rfl hne
  | cons a as ih =>
    simp only [List.foldl_cons]
    obtain ⟨h1, h2, h3⟩ := eps_frozen_step lo hi delta gamma kappa t0 st a h
    obtain ⟨c1, c2, _⟩ := adaptStep_counters lo hi delta gamma kappa t0 st a
    by_cases hn : as = []
    · subst hn; exact ⟨h1, h2, h3⟩
    · have := ih (adaptStep lo hi delta gamma kappa t0 st a) (by rw [c1, c2]; omega) hn
      rw [h2, h3] at this
      exact this

/-- **a later `run` whose warm-up length does not exceed the transitions already made never adapts again**: the step
    size of all its transitions is the averaged iterate the chain entered the run with (the counter persists across calls). -/
theorem second_run_no_adapt (st : Adapt ℝ) (nDiscard : Nat) (eps0 : ℝ) (stats : List ℝ) (h : nDiscard ≤ st.m) (hne : stats ≠ []) :
    (runAdapt lo hi delta gamma kappa t0 st nDiscard false eps0 stats).eps = st.epsBar
    ∧ (runAdapt lo hi delta gamma kappa t0 st nDiscard false eps0 stats).epsBar = st.epsBar := by
  unfold runAdapt
  have := eps_frozen lo hi delta gamma kappa t0 (initChain st nDiscard false eps0) stats (by simpa [initChain] using h) hne
  simpa [initChain] using ⟨this.1, this.2.1⟩

/-- **Nesterov's averaged deficit**: during warm-up `(m + t₀)·H̄` grows by exactly `δ - a` with the transition, … -/
theorem hbar_step (st : Adapt ℝ) (a : ℝ) (hw : st.m + 1 ≤ st.nDiscard) :
    ((st.m + 1 + t0 : Nat) : ℝ) * (adaptStep lo hi delta gamma kappa t0 st a).hBar = ((st.m + t0 : Nat) : ℝ) * st.hBar + (delta - a) := by
  have hne : ((st.m + 1 + t0 : Nat) : ℝ) ≠ 0 := by positivity
  have e : (adaptStep lo hi delta gamma kappa t0 st a).hBar
      = (1 - 1 / ((st.m + 1 + t0 : Nat) : ℝ)) * st.hBar + 1 / ((st.m + 1 + t0 : Nat) : ℝ) * (delta - a) := by
    simp [adaptStep, hw]
  rw [e]
  field_simp
  push_cast
  ring

/-- … so over any stretch of warm-up `(m + t₀)·H̄_m = (m₀ + t₀)·H̄_{m₀} + Σ (δ - a_i)`: the closed form of the recurrence. -/
theorem hbar_closed_form (st : Adapt ℝ) (stats : List ℝ) (hw : st.m + stats.length ≤ st.nDiscard) :
    let r := stats.foldl (adaptStep lo hi delta gamma kappa t0) st
    r.m = st.m + stats.length
    ∧ ((r.m + t0 : Nat) : ℝ) * r.hBar = ((st.m + t0 : Nat) : ℝ) * st.hBar + (stats.map fun a => delta - a).sum := by
  induction stats generalizing st with
  | nil => simp
  | cons a as ih =>
    simp only [List.foldl_cons, List.map_cons, List.sum_cons, List.length_cons] at hw ⊢
    obtain ⟨c1, c2, _⟩ := adaptStep_counters lo hi delta gamma kappa t0 st a
    obtain ⟨h1, h2⟩ := ih (adaptStep lo hi delta gamma kappa t0 st a) (by rw [c1, c2]; omega)
    refine ⟨by rw [h1, c1]; omega, ?_⟩
    rw [h2, c1, hbar_step lo hi delta gamma kappa t0 st a (by omega)]
    ring

/-- with acceptance statistics in `[0,1]` and `H̄₀ = 0` at `m = 0`: during warm-up `H̄_m ∈ [δ - 1, δ]` scaled by `m/(m+t₀)`. -/
theorem hbar_bounded (st : Adapt ℝ) (stats : List ℝ) (hm : st.m = 0) (hh : st.hBar = 0) (hw : stats.length ≤ st.nDiscard)
    (ha : ∀ a ∈ stats, 0 ≤ a ∧ a ≤ 1) :
    let r := stats.foldl (adaptStep lo hi delta gamma kappa t0) st
    (stats.length : ℝ) * (delta - 1) ≤ ((r.m + t0 : Nat) : ℝ) * r.hBar
    ∧ ((r.m + t0 : Nat) : ℝ) * r.hBar ≤ (stats.length : ℝ) * delta := by
  obtain ⟨-, h2⟩ := hbar_closed_form lo hi delta gamma kappa t0 st stats (by omega)
  simp only at h2 ⊢
  rw [h2, hh, mul_zero, zero_add]
  clear h2 hw
  induction stats with
  | nil => simp
  | cons a as ih =>
    have ha0 := ha a (by simp)
    have := ih (fun x hx => ha x (List.mem_cons_of_mem _ hx))
    simp only [List.map_cons, List.sum_cons, List.length_cons]
    push_cast
    constructor <;> nlinarith [this.1, this.2, ha0.1, ha0.2]

/-- **dual averaging in warm-up**: as long as the two exponentials stay inside `[lo, hi]` (no underflow or overflow in `T`),
    `ln ε_m = μ - (√m/γ)·H̄_m`, and `ln ε̄_m = (1 - m^{-κ})·ln ε̄_{m-1} + m^{-κ}·ln ε_m`. -/
theorem log_eps_dual_avg (st : Adapt ℝ) (a : ℝ) (h : st.m + 1 ≤ st.nDiscard)
    (hr1 : let e := Real.exp (st.mu - Real.sqrt ((st.m + 1 : Nat) : ℝ) / gamma * (adaptStep lo hi delta gamma kappa t0 st a).hBar)
           lo ≤ e ∧ e ≤ hi)
    (hr2 : let e := Real.exp ((1 - Real.rpow ((st.m + 1 : Nat) : ℝ) (-kappa)) * Real.log st.epsBar
              + Real.rpow ((st.m + 1 : Nat) : ℝ) (-kappa)
                * (st.mu - Real.sqrt ((st.m + 1 : Nat) : ℝ) / gamma * (adaptStep lo hi delta gamma kappa t0 st a).hBar))
           lo ≤ e ∧ e ≤ hi) :
    let r := adaptStep lo hi delta gamma kappa t0 st a
    Real.log r.eps = st.mu - Real.sqrt ((st.m + 1 : Nat) : ℝ) / gamma * r.hBar
    ∧ Real.log r.epsBar = (1 - Real.rpow ((st.m + 1 : Nat) : ℝ) (-kappa)) * Real.log st.epsBar
        + Real.rpow ((st.m + 1 : Nat) : ℝ) (-kappa) * Real.log r.eps := by
  simp only [adaptStep, h, if_true, TrOps.exp, TrOps.ln, TrOps.sqrt, TrOps.npow, TrOps.clamp, Nat.cast_one] at hr1 hr2 ⊢
  rw [clampOrd_of_mem _ _ _ hr1.1 hr1.2]
  simp only [Real.log_exp]
  rw [clampOrd_of_mem _ _ _ hr2.1 hr2.2]
  simp only [Real.log_exp]
  constructor <;> trivial

/-- `init_chain` keeps the transition counter, the averaged iterate and `H̄`, and sets `μ = ln(10·ε)`. -/
theorem initChain_spec (st : Adapt ℝ) (nd : Nat) (first : Bool) (eps0 : ℝ) :
    (initChain st nd first eps0).m = st.m ∧ (initChain st nd first eps0).epsBar = st.epsBar
    ∧ (initChain st nd first eps0).hBar = st.hBar ∧ (initChain st nd first eps0).nDiscard = nd
    ∧ (initChain st nd first eps0).mu = Real.log (10 * (initChain st nd first eps0).eps) := by
  simp [initChain, TrOps.ln]

/-! ### non-vacuity: the third transition of a run with `n_discard = 2` is frozen; a warm-up transition stays in range;
    a collapsing exponential is caught by the clamp -/
example : (adaptStep (1 / 1000 : ℝ) 1000 0.8 0.05 0.75 10 ⟨2, 2, 3, 1 / 2, 1 / 10, 1⟩ 0.2).eps = 1 / 2 :=
  (eps_frozen_step _ _ 0.8 0.05 0.75 10 ⟨2, 2, 3, 1 / 2, 1 / 10, 1⟩ 0.2 (by norm_num)).1
example : 0 < (adaptStep (1 / 1000 : ℝ) 1000 0.8 0.05 0.75 10 ⟨0, 2, 3, 1 / 2, 0, 1⟩ 0.2).eps :=
  (eps_pos (1 / 1000) 1000 0.8 0.05 0.75 10 (by norm_num) (by norm_num) ⟨0, 2, 3, 1 / 2, 0, 1⟩ [0.2] (by norm_num) (by norm_num)).1
example : clampOrd (1 / 1000 : ℝ) 1000 0 = 1 / 1000 := by norm_num [clampOrd]

end MiniMcmcVerif.DualAvg

import MiniMcmcVerif.Model.DualAvg
import Mathlib.Analysis.SpecialFunctions.Log.Basic
import Mathlib.Analysis.SpecialFunctions.Pow.Real
import Mathlib.Analysis.SpecialFunctions.Sqrt
import Mathlib.Tactic.Linarith
import Mathlib.Tactic.FieldSimp
import Mathlib.Tactic.Ring
import Mathlib.Tactic.Positivity

/-!
# C04 — NUTS step size: dual averaging during warm-up, frozen afterwards (over ℝ)
-/

namespace MiniMcmcVerif.DualAvg

noncomputable instance : TrOps ℝ := ⟨Real.exp, Real.log, Real.sqrt, fun x k => Real.rpow x (-k)⟩

variable (delta gamma kappa : ℝ) (t0 : Nat)

/-- the transition counter advances by one per transition and the warm-up length of the run is not touched. -/
theorem adaptStep_counters (st : Adapt ℝ) (a : ℝ) :
    (adaptStep delta gamma kappa t0 st a).m = st.m + 1 ∧ (adaptStep delta gamma kappa t0 st a).nDiscard = st.nDiscard
    ∧ (adaptStep delta gamma kappa t0 st a).mu = st.mu := by
  by_cases h : st.m + 1 ≤ st.nDiscard <;> simp [adaptStep, h]

/-- **positivity**: the step size and the averaged iterate stay positive (hence, over ℝ, finite and non-zero) after
    every transition, for every history of acceptance statistics — warm-up or not. -/
theorem eps_pos_step (st : Adapt ℝ) (a : ℝ) (h : 0 < st.epsBar) :
    0 < (adaptStep delta gamma kappa t0 st a).eps ∧ 0 < (adaptStep delta gamma kappa t0 st a).epsBar := by
  by_cases hw : st.m + 1 ≤ st.nDiscard
  · simp only [adaptStep, hw, if_true, TrOps.exp]
    exact ⟨Real.exp_pos _, Real.exp_pos _⟩
  · simp only [adaptStep, hw, if_false]
    exact ⟨h, h⟩

theorem eps_pos (st : Adapt ℝ) (stats : List ℝ) (h : 0 < st.epsBar) (he : 0 < st.eps) :
    0 < (stats.foldl (adaptStep delta gamma kappa t0) st).eps ∧ 0 < (stats.foldl (adaptStep delta gamma kappa t0) st).epsBar := by
  induction stats generalizing st with
  | nil => exact ⟨he, h⟩
  | cons a as ih =>
    simp only [List.foldl_cons]
    have := eps_pos_step delta gamma kappa t0 st a h
    exact ih _ this.2 this.1

/-- **frozen after warm-up, one transition**: once `m ≥ n_discard` (i.e. the transition being made is number
    `m + 1 > n_discard`), the step size becomes the averaged iterate and the averaged iterate does not move. -/
theorem eps_frozen_step (st : Adapt ℝ) (a : ℝ) (h : st.nDiscard ≤ st.m) :
    (adaptStep delta gamma kappa t0 st a).eps = st.epsBar ∧ (adaptStep delta gamma kappa t0 st a).epsBar = st.epsBar := by
  unfold adaptStep
  have : ¬ st.m + 1 ≤ st.nDiscard := by omega
  simp [this]

/-- **frozen for the rest of the run**: for every later transition of the run and arbitrary acceptance statistics. -/
theorem eps_frozen (st : Adapt ℝ) (stats : List ℝ) (h : st.nDiscard ≤ st.m) (hne : stats ≠ []) :
    (stats.foldl (adaptStep delta gamma kappa t0) st).eps = st.epsBar
    ∧ (stats.foldl (adaptStep delta gamma kappa t0) st).epsBar = st.epsBar := by
  induction stats generalizing st with
  | nil => exact absurd rfl hne
  | cons a as ih =>
    simp only [List.foldl_cons]
    obtain ⟨h1, h2⟩ := eps_frozen_step delta gamma kappa t0 st a h
    obtain ⟨c1, c2, _⟩ := adaptStep_counters delta gamma kappa t0 st a
    by_cases hn : as = []
    · subst hn; exact ⟨h1, h2⟩
    · have := ih (adaptStep delta gamma kappa t0 st a) (by rw [c1, c2]; omega) hn
      rw [h2] at this
      exact this

/-- **a later `run` whose warm-up length does not exceed the transitions already made never adapts again**: the step
    size of all its transitions is the averaged iterate the chain entered the run with (the counter persists across calls). -/
theorem second_run_no_adapt (st : Adapt ℝ) (nDiscard : Nat) (eps0 : ℝ) (stats : List ℝ) (h : nDiscard ≤ st.m) (hne : stats ≠ []) :
    (runAdapt delta gamma kappa t0 st nDiscard false eps0 stats).eps = st.epsBar
    ∧ (runAdapt delta gamma kappa t0 st nDiscard false eps0 stats).epsBar = st.epsBar := by
  unfold runAdapt
  have := eps_frozen delta gamma kappa t0 (initChain st nDiscard false eps0) stats (by simpa [initChain] using h) hne
  simpa [initChain] using this

/-- **Nesterov's averaged deficit**: `(m + t₀)·H̄` grows by exactly `δ - a` with every transition (warm-up or not), … -/
theorem hbar_step (st : Adapt ℝ) (a : ℝ) :
    ((st.m + 1 + t0 : Nat) : ℝ) * (adaptStep delta gamma kappa t0 st a).hBar = ((st.m + t0 : Nat) : ℝ) * st.hBar + (delta - a) := by
  have hne : ((st.m + 1 + t0 : Nat) : ℝ) ≠ 0 := by positivity
  have e : (adaptStep delta gamma kappa t0 st a).hBar
      = (1 - 1 / ((st.m + 1 + t0 : Nat) : ℝ)) * st.hBar + 1 / ((st.m + 1 + t0 : Nat) : ℝ) * (delta - a) := by
    by_cases hw : st.m + 1 ≤ st.nDiscard <;> simp [adaptStep, hw]
  rw [e]
  field_simp
  push_cast
  ring

/-- … so after any history `(m + t₀)·H̄_m = (m₀ + t₀)·H̄_{m₀} + Σ (δ - a_i)`: the closed form of the recurrence. -/
theorem hbar_closed_form (st : Adapt ℝ) (stats : List ℝ) :
    let r := stats.foldl (adaptStep delta gamma kappa t0) st
    r.m = st.m + stats.length
    ∧ ((r.m + t0 : Nat) : ℝ) * r.hBar = ((st.m + t0 : Nat) : ℝ) * st.hBar + (stats.map fun a => delta - a).sum := by
  induction stats generalizing st with
  | nil => simp
  | cons a as ih =>
    simp only [List.foldl_cons, List.map_cons, List.sum_cons, List.length_cons]
    obtain ⟨h1, h2⟩ := ih (adaptStep delta gamma kappa t0 st a)
    obtain ⟨c1, _, _⟩ := adaptStep_counters delta gamma kappa t0 st a
    refine ⟨by rw [h1, c1]; omega, ?_⟩
    rw [h2, c1, hbar_step]
    ring

/-- with acceptance statistics in `[0,1]` and `H̄₀ = 0` at `m = 0`: `H̄_m ∈ [δ - 1, δ]` scaled by `m/(m+t₀)`. -/
theorem hbar_bounded (st : Adapt ℝ) (stats : List ℝ) (hm : st.m = 0) (hh : st.hBar = 0)
    (ha : ∀ a ∈ stats, 0 ≤ a ∧ a ≤ 1) :
    let r := stats.foldl (adaptStep delta gamma kappa t0) st
    (stats.length : ℝ) * (delta - 1) ≤ ((r.m + t0 : Nat) : ℝ) * r.hBar
    ∧ ((r.m + t0 : Nat) : ℝ) * r.hBar ≤ (stats.length : ℝ) * delta := by
  obtain ⟨-, h2⟩ := hbar_closed_form delta gamma kappa t0 st stats
  simp only at h2 ⊢
  rw [h2, hh, mul_zero, zero_add]
  clear h2
  induction stats with
  | nil => simp
  | cons a as ih =>
    have ha0 := ha a (by simp)
    have := ih (fun x hx => ha x (List.mem_cons_of_mem _ hx))
    simp only [List.map_cons, List.sum_cons, List.length_cons]
    push_cast
    constructor <;> nlinarith [this.1, this.2, ha0.1, ha0.2]

/-- **dual averaging in warm-up**: `ln ε_m = μ - (√m/γ)·H̄_m`, and `ln ε̄_m = (1 - m^{-κ})·ln ε̄_{m-1} + m^{-κ}·ln ε_m`. -/
theorem log_eps_dual_avg (st : Adapt ℝ) (a : ℝ) (h : st.m + 1 ≤ st.nDiscard) :
    let r := adaptStep delta gamma kappa t0 st a
    Real.log r.eps = st.mu - Real.sqrt ((st.m + 1 : Nat) : ℝ) / gamma * r.hBar
    ∧ Real.log r.epsBar = (1 - Real.rpow ((st.m + 1 : Nat) : ℝ) (-kappa)) * Real.log st.epsBar
        + Real.rpow ((st.m + 1 : Nat) : ℝ) (-kappa) * Real.log r.eps := by
  simp only [adaptStep, h, if_true, TrOps.exp, TrOps.ln, TrOps.sqrt, TrOps.npow, Real.log_exp, Nat.cast_one]
  constructor <;> trivial

/-- `init_chain` keeps the transition counter, the averaged iterate and `H̄`, and sets `μ = ln(10·ε)`. -/
theorem initChain_spec (st : Adapt ℝ) (nd : Nat) (first : Bool) (eps0 : ℝ) :
    (initChain st nd first eps0).m = st.m ∧ (initChain st nd first eps0).epsBar = st.epsBar
    ∧ (initChain st nd first eps0).hBar = st.hBar ∧ (initChain st nd first eps0).nDiscard = nd
    ∧ (initChain st nd first eps0).mu = Real.log (10 * (initChain st nd first eps0).eps) := by
  simp [initChain, TrOps.ln]

/-! ### non-vacuity: the third transition of a run with `n_discard = 2` is frozen; a warm-up transition is positive -/
example : (adaptStep (0.8 : ℝ) 0.05 0.75 10 ⟨2, 2, 3, 1 / 2, 1 / 10, 1⟩ 0.2).eps = 1 / 2 :=
  (eps_frozen_step 0.8 0.05 0.75 10 ⟨2, 2, 3, 1 / 2, 1 / 10, 1⟩ 0.2 (by norm_num)).1
example : 0 < (adaptStep (0.8 : ℝ) 0.05 0.75 10 ⟨0, 2, 3, 1 / 2, 0, 1⟩ 0.2).eps :=
  (eps_pos_step 0.8 0.05 0.75 10 ⟨0, 2, 3, 1 / 2, 0, 1⟩ 0.2 (by norm_num)).1

end MiniMcmcVerif.DualAvg

import MiniMcmcVerif.Model.HMC
import Mathlib.Algebra.Module.Basic
import Mathlib.Algebra.Field.Basic
import Mathlib.Logic.Function.Iterate
import Mathlib.Tactic.Module
import Mathlib.Tactic.FieldSimp
import Mathlib.Tactic.Ring

/-!
# C02 — an HMC update is `L` leapfrog steps plus a Metropolis test on the Hamiltonian
-/

set_option linter.unusedSectionVars false

namespace MiniMcmcVerif.HMC

section general
variable {K V : Type} [Add V] [SMul K V] [Mul K]

theorem iter_eq {σ : Type} (f : σ → σ) (n : Nat) (s : σ) : iter f n s = f^[n] s := by
  induction n generalizing s with
  | zero => rfl
  | succ n ih => simp [iter, ih]

/-- one pass of the coded loop body is one velocity-Verlet step, and re-establishes the invariant
    "the carried summand is `(ε/2)·∇logp` at the current position". -/
theorem leapBody_eq_verlet (grad : V → V) (eps half : K) (x p : V) :
    leapBody grad eps half (x, p, (eps * half) • grad x)
      = ((verlet grad eps half (x, p)).1, (verlet grad eps half (x, p)).2,
         (eps * half) • grad (verlet grad eps half (x, p)).1) := rfl

/-- **refinement of the fused loop to velocity-Verlet**: started with the carried summand `(ε/2)·∇logp(x)`, `L`
    iterations of the loop are exactly `L` leapfrog steps, for every `L` (also `L = 0`), and the invariant holds on exit. -/
theorem leapfrogCode_eq_verlet (grad : V → V) (eps half : K) (L : Nat) (x p : V) :
    leapfrogCode grad eps half L (x, p, (eps * half) • grad x)
      = (((verlet grad eps half)^[L] (x, p)).1, ((verlet grad eps half)^[L] (x, p)).2,
         (eps * half) • grad ((verlet grad eps half)^[L] (x, p)).1) := by
  unfold leapfrogCode
  induction L generalizing x p with
  | zero => rfl
  | succ L ih =>
    simp only [iter]
    rw [leapBody_eq_verlet, ih]
    simp [Function.iterate_succ_apply]

variable [Neg K] [Add K] [Sub K] [LE K] [DecidableLE K]

/-- **the update rule**: each row ends at its unchanged previous position or at the point reached by exactly `L`
    leapfrog steps from `(x, p)`, the latter exactly when `ln u ≤ H(x,p) - H(x',p')`. -/
theorem hmc_step_result (logp : V → K) (grad : V → V) (ke : V → K) (eps half : K) (L : Nat) (x p : V) (lnu : K) :
    let s' := (verlet grad eps half)^[L] (x, p)
    (lnu ≤ hamiltonian logp ke x p - hamiltonian logp ke s'.1 s'.2 →
        (hmcStepRow logp grad ke eps half L x p lnu).1 = s'.1)
    ∧ (¬ lnu ≤ hamiltonian logp ke x p - hamiltonian logp ke s'.1 s'.2 →
        (hmcStepRow logp grad ke eps half L x p lnu).1 = x) := by
  simp only [hmcStepRow, leapfrogCode_eq_verlet]
  constructor <;> intro h <;> simp [h]

/-- **no stale gradient**: the summands left by the previous step (e.g. at a rejected proposal) do not influence the
    next step — the step recomputes the summand at the current position. -/
theorem hmc_step_ignores_carried (logp : V → K) (grad : V → V) (ke : V → K) (eps half : K) (L : Nat)
    (positions c₁ c₂ momenta : List V) (lnus : List K) :
    hmcStep logp grad ke eps half L positions c₁ momenta lnus = hmcStep logp grad ke eps half L positions c₂ momenta lnus := rfl

/-- **rows never influence one another**: row `i` of the new batch is the single-row update of row `i`'s own
    position, momentum and acceptance draw — whatever the other rows are. -/
theorem hmc_rows_independent (logp : V → K) (grad : V → V) (ke : V → K) (eps half : K) (L : Nat)
    (positions carried momenta : List V) (lnus : List K) (i : Nat)
    (hp : i < positions.length) (hm : i < momenta.length) (hu : i < lnus.length) :
    (hmcStep logp grad ke eps half L positions carried momenta lnus).1[i]?
      = some (hmcStepRow logp grad ke eps half L positions[i] momenta[i] lnus[i]).1 := by
  simp [hmcStep, hp, hm, hu]

/-- **`L = 0`**: with no leapfrog step the proposal is the current position, so the row keeps its position whatever the
    momentum and the acceptance draw are (any carrier, IEEE floats included: no arithmetic on the position happens). -/
theorem hmc_step_L0 (logp : V → K) (grad : V → V) (ke : V → K) (eps half : K) (x p : V) (lnu : K) :
    (hmcStepRow logp grad ke eps half 0 x p lnu).1 = x := by
  simp only [hmcStepRow, leapfrogCode, iter]
  exact ite_self x

/-- the row's new position is always one of exactly two values: the old position or the end of the `L`-step trajectory —
    never a blend of the two, never another point of the trajectory. -/
theorem hmc_step_two_valued (logp : V → K) (grad : V → V) (ke : V → K) (eps half : K) (L : Nat) (x p : V) (lnu : K) :
    (hmcStepRow logp grad ke eps half L x p lnu).1 = x
    ∨ (hmcStepRow logp grad ke eps half L x p lnu).1 = ((verlet grad eps half)^[L] (x, p)).1 := by
  have h := hmc_step_result logp grad ke eps half L x p lnu
  simp only at h
  by_cases hc : lnu ≤ hamiltonian logp ke x p - hamiltonian logp ke ((verlet grad eps half)^[L] (x, p)).1 ((verlet grad eps half)^[L] (x, p)).2
  · exact Or.inr (h.1 hc)
  · exact Or.inl (h.2 hc)

/-- the batch keeps its size: as many new positions as there are (position, momentum, draw) triples. -/
theorem hmc_step_length (logp : V → K) (grad : V → V) (ke : V → K) (eps half : K) (L : Nat)
    (positions carried momenta : List V) (lnus : List K) (h1 : momenta.length = positions.length) (h2 : lnus.length = positions.length) :
    (hmcStep logp grad ke eps half L positions carried momenta lnus).1.length = positions.length := by
  simp [hmcStep, h1, h2]

/-- the summands a step leaves behind are `(ε/2)·∇logp` at the end of every row's trajectory (so the invariant needed
    by the *next* call's first half-step would hold even without the recomputation, for accepted rows). -/
theorem hmc_step_summand (logp : V → K) (grad : V → V) (ke : V → K) (eps half : K) (L : Nat) (x p : V) (lnu : K) :
    (hmcStepRow logp grad ke eps half L x p lnu).2 = (eps * half) • grad ((verlet grad eps half)^[L] (x, p)).1 := by
  simp only [hmcStepRow, leapfrogCode_eq_verlet]

end general

section reversible
variable {K V : Type} [Field K] [AddCommGroup V] [Module K V]

/-- momentum flip -/
def flip (s : V × V) : V × V := (s.1, -s.2)

/-- one leapfrog step is reversible: integrating again from `(x', -p')` returns to `(x, -p)`. -/
theorem verlet_flip_verlet (grad : V → V) (eps half : K) (s : V × V) :
    verlet grad eps half (flip (verlet grad eps half s)) = flip s := by
  obtain ⟨x, p⟩ := s
  simp only [verlet, flip]
  have hx : x + eps • (p + (eps * half) • grad x)
      + eps • (-(p + (eps * half) • grad x + (eps * half) • grad (x + eps • (p + (eps * half) • grad x)))
               + (eps * half) • grad (x + eps • (p + (eps * half) • grad x))) = x := by
    module
  refine Prod.ext ?_ ?_
  · exact hx
  · simp only [hx]
    module

/-- **time reversibility of the integrator**, any `L`, any gradient field, any step size (exact arithmetic; in
    floating point "up to rounding"). -/
theorem verlet_reversible (grad : V → V) (eps half : K) (L : Nat) (s : V × V) :
    (verlet grad eps half)^[L] (flip ((verlet grad eps half)^[L] s)) = flip s := by
  induction L generalizing s with
  | zero => rfl
  | succ L ih =>
    rw [Function.iterate_succ_apply' (verlet grad eps half) L s, Function.iterate_succ_apply,
        verlet_flip_verlet, ih]

end reversible

/-! ### non-vacuity: `L = 3`, a 1-D quadratic target over ℚ, an accepted and a rejected step -/
section nv
def gradQ (x : ℚ) : ℚ := -x
def logpQ (x : ℚ) : ℚ := -(x * x) / 2
def keQ (p : ℚ) : ℚ := p * p / 2
example : (hmcStepRow logpQ gradQ keQ (1/2) (1/2) 3 1 1 (-1)).1 = 139 / 128 := by decide +kernel
example : (hmcStepRow logpQ gradQ keQ (1/2) (1/2) 3 1 1 1).1 = 1 := by decide +kernel
end nv

end MiniMcmcVerif.HMC

import MiniMcmcVerif.Model.NUTS
import Mathlib.Algebra.Order.Field.Basic
import Mathlib.Algebra.BigOperators.Group.List.Basic
import Mathlib.Algebra.Order.BigOperators.Group.List
import Mathlib.Logic.Function.Iterate
import Mathlib.Tactic.Linarith
import Mathlib.Tactic.FieldSimp
import Mathlib.Tactic.Positivity

/-!
# C03 — a NUTS transition is Hoffman–Gelman Algorithm 6 on the leapfrog trajectory

Statements about `buildTree` / `doubling` / `loop` of `Model/NUTS.lean`, for every target (log-density and gradient as
arbitrary functions), start point, step size, direction, slice level and every stream of selection uniforms in `[0,1)`;
the scalar is an arbitrary ordered field with an arbitrary `exp`.
-/

set_option linter.unusedSectionVars false
set_option linter.unusedVariables false

namespace MiniMcmcVerif.NUTS

variable {K V : Type} [Field K] [LinearOrder K] [IsStrictOrderedRing K] [HasExp K] [Add V] [Sub V] [SMul K V]

/-- slice-admissible: joint log-density above the slice level -/
def Adm (dot : V → V → K) (logu : K) (p : Pt K V) : Prop := logu < joint dot p
instance (dot : V → V → K) (logu : K) : DecidablePred (Adm dot logu) := fun p => by unfold Adm; infer_instance

/-- the per-leaf term of the acceptance statistic -/
def accTerm (dot : V → V → K) (joint0 : K) (p : Pt K V) : K := minOne (HasExp.exp (joint dot p - joint0))

section tree
variable (target : V → K × V) (dot : V → V → K) (logu : K) (dirNeg : Bool) (eps joint0 : K)

/-- the signed step size of a tree -/
def stepOf (dirNeg : Bool) (eps : K) : K := if dirNeg then -eps else eps

/-- unfolding of the recursive case -/
theorem buildTree_succ (j : Nat) (z : Pt K V) (sel : List K) :
    buildTree target dot logu dirNeg eps joint0 (j + 1) z sel =
      (let r1 := buildTree target dot logu dirNeg eps joint0 j z sel
       let t1 := r1.1
       if t1.s then
         let start := if dirNeg then t1.minus else t1.plus
         let r2 := buildTree target dot logu dirNeg eps joint0 j start r1.2
         let t2 := r2.1
         let minus := if dirNeg then t2.minus else t1.minus
         let plus := if dirNeg then t1.plus else t2.plus
         let u := r2.2.headD ((0 : Nat) : K)
         let rest := r2.2.tail
         let ratio := ((t2.n : Nat) : K) / ((max (t1.n + t2.n) 1 : Nat) : K)
         let prime := if u < ratio then t2.prime else t1.prime
         (⟨minus, plus, prime, t1.n + t2.n, t2.s && noUTurn dot minus plus, t1.alpha + t2.alpha, t1.nalpha + t2.nalpha,
           t1.leaves ++ t2.leaves⟩, rest)
       else (t1, r1.2)) := rfl

/-- start point of the second half -/
def startOf (dirNeg : Bool) (t : Tree K V) : Pt K V := if dirNeg then t.minus else t.plus

/-- the merged tree of the recursive case -/
def mergeTrees (dot : V → V → K) (dirNeg : Bool) (t1 t2 : Tree K V) (u : K) : Tree K V :=
  let minus := if dirNeg then t2.minus else t1.minus
  let plus := if dirNeg then t1.plus else t2.plus
  let ratio := ((t2.n : Nat) : K) / ((max (t1.n + t2.n) 1 : Nat) : K)
  ⟨minus, plus, if u < ratio then t2.prime else t1.prime, t1.n + t2.n, t2.s && noUTurn dot minus plus,
    t1.alpha + t2.alpha, t1.nalpha + t2.nalpha, t1.leaves ++ t2.leaves⟩

theorem bt_stop (j : Nat) (z : Pt K V) (sel : List K)
    (h : (buildTree target dot logu dirNeg eps joint0 j z sel).1.s = false) :
    buildTree target dot logu dirNeg eps joint0 (j + 1) z sel = buildTree target dot logu dirNeg eps joint0 j z sel := by
  rw [buildTree_succ]; simp only [h, Bool.false_eq_true, if_false]

theorem bt_go (j : Nat) (z : Pt K V) (sel : List K)
    (h : (buildTree target dot logu dirNeg eps joint0 j z sel).1.s = true) :
    buildTree target dot logu dirNeg eps joint0 (j + 1) z sel =
      (mergeTrees dot dirNeg (buildTree target dot logu dirNeg eps joint0 j z sel).1
          (buildTree target dot logu dirNeg eps joint0 j
            (startOf dirNeg (buildTree target dot logu dirNeg eps joint0 j z sel).1)
            (buildTree target dot logu dirNeg eps joint0 j z sel).2).1
          ((buildTree target dot logu dirNeg eps joint0 j
            (startOf dirNeg (buildTree target dot logu dirNeg eps joint0 j z sel).1)
            (buildTree target dot logu dirNeg eps joint0 j z sel).2).2.headD ((0 : Nat) : K)),
       (buildTree target dot logu dirNeg eps joint0 j
            (startOf dirNeg (buildTree target dot logu dirNeg eps joint0 j z sel).1)
            (buildTree target dot logu dirNeg eps joint0 j z sel).2).2.tail) := by
  rw [buildTree_succ]; simp only [h, if_true]; rfl

/-- **the counts**: `n_α` is the number of leapfrog points visited, `n'` the number of slice-admissible ones among them,
    `α'` the sum of `min(1, exp(joint - joint₀))` over them — whatever part of the tree was built before it stopped. -/
theorem buildTree_counts (j : Nat) (z : Pt K V) (sel : List K) :
    (buildTree target dot logu dirNeg eps joint0 j z sel).1.nalpha
        = (buildTree target dot logu dirNeg eps joint0 j z sel).1.leaves.length
    ∧ (buildTree target dot logu dirNeg eps joint0 j z sel).1.n
        = (buildTree target dot logu dirNeg eps joint0 j z sel).1.leaves.countP (fun p => decide (Adm dot logu p))
    ∧ (buildTree target dot logu dirNeg eps joint0 j z sel).1.alpha
        = ((buildTree target dot logu dirNeg eps joint0 j z sel).1.leaves.map (accTerm dot joint0)).sum := by
  induction j generalizing z sel with
  | zero =>
    refine ⟨rfl, ?_, ?_⟩
    · simp only [buildTree, List.countP_cons, List.countP_nil, Adm, Nat.zero_add]
      by_cases h : logu < joint dot (leapfrog target (if dirNeg = true then -eps else eps) z) <;> simp [h]
    · simp [buildTree, accTerm]
  | succ j ih =>
    cases hs : (buildTree target dot logu dirNeg eps joint0 j z sel).1.s
    · rw [bt_stop _ _ _ _ _ _ _ _ _ hs]; exact ih z sel
    · rw [bt_go _ _ _ _ _ _ _ _ _ hs]
      obtain ⟨a1, b1, c1⟩ := ih z sel
      obtain ⟨a2, b2, c2⟩ := ih (startOf dirNeg (buildTree target dot logu dirNeg eps joint0 j z sel).1)
        (buildTree target dot logu dirNeg eps joint0 j z sel).2
      simp only [mergeTrees, List.length_append, List.countP_append, List.map_append, List.sum_append]
      exact ⟨by omega, by omega, by rw [c1, c2]⟩

/-- the candidate of a subtree is one of the points it visited. -/
theorem buildTree_prime_mem (j : Nat) (z : Pt K V) (sel : List K) :
    (buildTree target dot logu dirNeg eps joint0 j z sel).1.prime ∈ (buildTree target dot logu dirNeg eps joint0 j z sel).1.leaves := by
  induction j generalizing z sel with
  | zero => simp [buildTree]
  | succ j ih =>
    cases hs : (buildTree target dot logu dirNeg eps joint0 j z sel).1.s
    · rw [bt_stop _ _ _ _ _ _ _ _ _ hs]; exact ih z sel
    · rw [bt_go _ _ _ _ _ _ _ _ _ hs]
      simp only [mergeTrees, List.mem_append]
      by_cases hu : (buildTree target dot logu dirNeg eps joint0 j
            (startOf dirNeg (buildTree target dot logu dirNeg eps joint0 j z sel).1)
            (buildTree target dot logu dirNeg eps joint0 j z sel).2).2.headD ((0 : Nat) : K)
          < ((((buildTree target dot logu dirNeg eps joint0 j
            (startOf dirNeg (buildTree target dot logu dirNeg eps joint0 j z sel).1)
            (buildTree target dot logu dirNeg eps joint0 j z sel).2).1.n : Nat) : K)
            / ((max ((buildTree target dot logu dirNeg eps joint0 j z sel).1.n + (buildTree target dot logu dirNeg eps joint0 j
            (startOf dirNeg (buildTree target dot logu dirNeg eps joint0 j z sel).1)
            (buildTree target dot logu dirNeg eps joint0 j z sel).2).1.n) 1 : Nat) : K))
      · simp only [hu, if_true]; right; exact ih _ _
      · simp only [hu, if_false]; left; exact ih _ _

/-- what is left of the selection stream is a suffix of what was handed in. -/
theorem buildTree_sel_suffix (j : Nat) (z : Pt K V) (sel : List K) :
    ∃ k, (buildTree target dot logu dirNeg eps joint0 j z sel).2 = sel.drop k := by
  induction j generalizing z sel with
  | zero => exact ⟨0, rfl⟩
  | succ j ih =>
    obtain ⟨k1, h1⟩ := ih z sel
    cases hs : (buildTree target dot logu dirNeg eps joint0 j z sel).1.s
    · rw [bt_stop _ _ _ _ _ _ _ _ _ hs]; exact ⟨k1, h1⟩
    · rw [bt_go _ _ _ _ _ _ _ _ _ hs]
      obtain ⟨k2, h2⟩ := ih (startOf dirNeg (buildTree target dot logu dirNeg eps joint0 j z sel).1)
        (buildTree target dot logu dirNeg eps joint0 j z sel).2
      refine ⟨k1 + k2 + 1, ?_⟩
      simp only
      rw [h2, h1, List.tail_drop, List.drop_drop, Nat.add_assoc]

/-- **the candidate is slice-admissible**: with selection uniforms in `[0,1)`, whenever the subtree contains an
    admissible point (`n' > 0`) its candidate is one (`logu < joint`): a point outside the slice is never proposed. -/
theorem buildTree_prime_admissible (j : Nat) (z : Pt K V) (sel : List K) (hsel : ∀ u ∈ sel, 0 ≤ u ∧ u < 1) :
    0 < (buildTree target dot logu dirNeg eps joint0 j z sel).1.n →
      Adm dot logu (buildTree target dot logu dirNeg eps joint0 j z sel).1.prime := by
  induction j generalizing z sel with
  | zero =>
    simp only [buildTree, Adm]
    intro h
    by_contra hc
    simp [hc] at h
  | succ j ih =>
    have ih1 := ih z sel hsel
    obtain ⟨k1, hk1⟩ := buildTree_sel_suffix target dot logu dirNeg eps joint0 j z sel
    have hsel1 : ∀ u ∈ (buildTree target dot logu dirNeg eps joint0 j z sel).2, 0 ≤ u ∧ u < 1 := by
      intro u hu; rw [hk1] at hu; exact hsel u (List.mem_of_mem_drop hu)
    cases hs : (buildTree target dot logu dirNeg eps joint0 j z sel).1.s
    · rw [bt_stop _ _ _ _ _ _ _ _ _ hs]; exact ih1
    · rw [bt_go _ _ _ _ _ _ _ _ _ hs]
      generalize ht1 : (buildTree target dot logu dirNeg eps joint0 j z sel).1 = t1 at *
      have ih2 := ih (startOf dirNeg t1) (buildTree target dot logu dirNeg eps joint0 j z sel).2 hsel1
      obtain ⟨k2, hk2⟩ := buildTree_sel_suffix target dot logu dirNeg eps joint0 j (startOf dirNeg t1)
        (buildTree target dot logu dirNeg eps joint0 j z sel).2
      generalize hr2 : buildTree target dot logu dirNeg eps joint0 j (startOf dirNeg t1)
        (buildTree target dot logu dirNeg eps joint0 j z sel).2 = r2 at *
      have hu : 0 ≤ r2.2.headD ((0 : Nat) : K) ∧ r2.2.headD ((0 : Nat) : K) < 1 := by
        cases hl : r2.2 with
        | nil => simp
        | cons a as =>
          simp only [List.headD_cons]
          have : a ∈ r2.2 := by rw [hl]; simp
          rw [hk2] at this
          exact hsel1 a (List.mem_of_mem_drop this)
      simp only [mergeTrees]
      intro hn
      by_cases hlt : r2.2.headD ((0 : Nat) : K) < ((r2.1.n : Nat) : K) / ((max (t1.n + r2.1.n) 1 : Nat) : K)
      · simp only [hlt, if_true]
        apply ih2
        by_contra h0
        have h0' : r2.1.n = 0 := by omega
        rw [h0'] at hlt
        simp only [Nat.cast_zero, zero_div] at hlt
        exact absurd hu.1 (not_le.mpr (by simpa using hlt))
      · simp only [hlt, if_false]
        apply ih1
        by_contra h0
        have h0' : t1.n = 0 := by omega
        have hpos : 0 < r2.1.n := by omega
        apply hlt
        rw [h0', Nat.zero_add]
        have hmax : max r2.1.n 1 = r2.1.n := by omega
        rw [hmax]
        have hne : ((r2.1.n : Nat) : K) ≠ 0 := by exact_mod_cast (by omega : r2.1.n ≠ 0)
        rw [div_self hne]
        exact hu.2

/-- **divergence stops the tree**: a subtree reports `s' = true` only if none of its points diverged
    (`joint > logu - 1000` for all of them) — and, by `bt_go`/`bt_stop`, only if its second half was built and did not
    stop and the U-turn test of the merged ends passed. -/
theorem buildTree_s_no_divergence (j : Nat) (z : Pt K V) (sel : List K) :
    (buildTree target dot logu dirNeg eps joint0 j z sel).1.s = true →
      ∀ p ∈ (buildTree target dot logu dirNeg eps joint0 j z sel).1.leaves, logu - ((1000 : Nat) : K) < joint dot p := by
  induction j generalizing z sel with
  | zero =>
    simp only [buildTree, List.mem_singleton, decide_eq_true_eq]
    intro h p hp; subst hp; exact h
  | succ j ih =>
    cases hs : (buildTree target dot logu dirNeg eps joint0 j z sel).1.s
    · rw [bt_stop _ _ _ _ _ _ _ _ _ hs]; intro h; rw [hs] at h; exact absurd h (by simp)
    · rw [bt_go _ _ _ _ _ _ _ _ _ hs]
      simp only [mergeTrees, Bool.and_eq_true, List.mem_append]
      intro h p hp
      rcases hp with hp | hp
      · exact ih z sel hs p hp
      · exact ih _ _ h.1 p hp

/-- a complete subtree of depth `j` has exactly `2^j` points; a stopped one has at most that many. -/
theorem buildTree_size (j : Nat) (z : Pt K V) (sel : List K) :
    (buildTree target dot logu dirNeg eps joint0 j z sel).1.leaves.length ≤ 2 ^ j
    ∧ ((buildTree target dot logu dirNeg eps joint0 j z sel).1.s = true →
        (buildTree target dot logu dirNeg eps joint0 j z sel).1.leaves.length = 2 ^ j) := by
  induction j generalizing z sel with
  | zero => simp [buildTree]
  | succ j ih =>
    obtain ⟨a1, b1⟩ := ih z sel
    cases hs : (buildTree target dot logu dirNeg eps joint0 j z sel).1.s
    · rw [bt_stop _ _ _ _ _ _ _ _ _ hs]
      refine ⟨by rw [pow_succ]; omega, fun h => by rw [hs] at h; exact absurd h (by simp)⟩
    · rw [bt_go _ _ _ _ _ _ _ _ _ hs]
      obtain ⟨a2, b2⟩ := ih (startOf dirNeg (buildTree target dot logu dirNeg eps joint0 j z sel).1)
        (buildTree target dot logu dirNeg eps joint0 j z sel).2
      simp only [mergeTrees, List.length_append, Bool.and_eq_true, pow_succ]
      refine ⟨by omega, ?_⟩
      intro h
      rw [b1 hs, b2 h.1]; omega

/-- **the points of a subtree are the leapfrog trajectory** from its start point in its direction: the `k`-th visited
    point is `k + 1` leapfrog steps of the signed step size away, the outer end (`minus` for `v = -1`, `plus` for
    `v = +1`) is the last of them and the inner end the first. -/
theorem buildTree_leaves_chain (j : Nat) (z : Pt K V) (sel : List K) :
    (buildTree target dot logu dirNeg eps joint0 j z sel).1.leaves
        = (List.range (buildTree target dot logu dirNeg eps joint0 j z sel).1.leaves.length).map
            (fun k => (leapfrog target (stepOf dirNeg eps))^[k + 1] z)
    ∧ (buildTree target dot logu dirNeg eps joint0 j z sel).1.leaves ≠ []
    ∧ startOf dirNeg (buildTree target dot logu dirNeg eps joint0 j z sel).1
        = (leapfrog target (stepOf dirNeg eps))^[(buildTree target dot logu dirNeg eps joint0 j z sel).1.leaves.length] z
    ∧ startOf (!dirNeg) (buildTree target dot logu dirNeg eps joint0 j z sel).1 = leapfrog target (stepOf dirNeg eps) z := by
  induction j generalizing z sel with
  | zero =>
    cases dirNeg <;> simp [buildTree, stepOf, startOf]
  | succ j ih =>
    obtain ⟨c1, n1, o1, i1⟩ := ih z sel
    cases hs : (buildTree target dot logu dirNeg eps joint0 j z sel).1.s
    · rw [bt_stop _ _ _ _ _ _ _ _ _ hs]; exact ⟨c1, n1, o1, i1⟩
    · rw [bt_go _ _ _ _ _ _ _ _ _ hs]
      generalize ht1 : (buildTree target dot logu dirNeg eps joint0 j z sel).1 = t1 at *
      obtain ⟨c2, n2, o2, i2⟩ := ih (startOf dirNeg t1) (buildTree target dot logu dirNeg eps joint0 j z sel).2
      generalize ht2 : (buildTree target dot logu dirNeg eps joint0 j (startOf dirNeg t1)
        (buildTree target dot logu dirNeg eps joint0 j z sel).2).1 = t2 at *
      generalize (buildTree target dot logu dirNeg eps joint0 j (startOf dirNeg t1)
        (buildTree target dot logu dirNeg eps joint0 j z sel).2).2.headD ((0 : Nat) : K) = u
      refine ⟨?_, by simp [mergeTrees, n1], ?_, ?_⟩
      · simp only [mergeTrees, List.length_append]
        rw [List.range_add, List.map_append, List.map_map]
        congr 1
        · rw [c2]
          simp only [List.length_map, List.length_range]
          apply List.map_congr_left
          intro k _
          simp only [Function.comp]
          rw [o1, ← Function.iterate_add_apply]
          congr 1; omega
      · cases dirNeg
        · simp only [startOf, mergeTrees, Bool.false_eq_true, if_false, List.length_append] at o2 o1 ⊢
          rw [o2, o1, ← Function.iterate_add_apply]; congr 1; omega
        · simp only [startOf, mergeTrees, if_true, List.length_append] at o2 o1 ⊢
          rw [o2, o1, ← Function.iterate_add_apply]; congr 1; omega
      · cases dirNeg
        · simpa [startOf, mergeTrees] using i1
        · simpa [startOf, mergeTrees] using i1

/-- the statistic of a subtree lies in `[0, n_α]` (so `α/n_α ∈ [0,1]`) as soon as `exp` is non-negative. -/
theorem buildTree_alpha_range (hexp : ∀ x : K, 0 ≤ HasExp.exp x) (j : Nat) (z : Pt K V) (sel : List K) :
    0 ≤ (buildTree target dot logu dirNeg eps joint0 j z sel).1.alpha
    ∧ (buildTree target dot logu dirNeg eps joint0 j z sel).1.alpha
        ≤ ((buildTree target dot logu dirNeg eps joint0 j z sel).1.nalpha : K) := by
  obtain ⟨a, _, c⟩ := buildTree_counts target dot logu dirNeg eps joint0 j z sel
  rw [c, a]
  generalize (buildTree target dot logu dirNeg eps joint0 j z sel).1.leaves = l
  have hterm : ∀ p : Pt K V, 0 ≤ accTerm dot joint0 p ∧ accTerm dot joint0 p ≤ 1 := by
    intro p
    unfold accTerm minOne
    simp only [Nat.cast_one]
    by_cases h : HasExp.exp (joint dot p - joint0) < (1 : K)
    · simp only [h, if_true]; exact ⟨hexp _, h.le⟩
    · simp only [h, if_false]; exact ⟨zero_le_one, le_refl _⟩
  induction l with
  | nil => simp
  | cons p ps ih =>
    simp only [List.map_cons, List.sum_cons, List.length_cons]
    push_cast
    constructor <;> linarith [ih.1, ih.2, (hterm p).1, (hterm p).2]

end tree

section transition
variable (target : V → K × V) (dot : V → V → K) (logu eps joint0 : K)

/-- **one doubling**: the position after a doubling is the position before it, or the candidate of the freshly built
    subtree — and the latter only if that subtree did not stop (`s' = true`) and the accept draw is below `min(1, n'/n)`. -/
theorem doubling_pos (st : Loop K V) :
    ((doubling target dot logu eps joint0 st).pos = st.pos
      ∨ ((doubling target dot logu eps joint0 st).pos
            = (buildTree target dot logu (!(decide (st.dirs.headD ((0 : Nat) : K) < (halfK : K)))) eps joint0 st.j
                (startOf (!(decide (st.dirs.headD ((0 : Nat) : K) < (halfK : K)))) ⟨st.minus, st.plus, st.minus, 0, true, 0, 0, []⟩) st.sel).1.prime.pos
         ∧ (buildTree target dot logu (!(decide (st.dirs.headD ((0 : Nat) : K) < (halfK : K)))) eps joint0 st.j
                (startOf (!(decide (st.dirs.headD ((0 : Nat) : K) < (halfK : K)))) ⟨st.minus, st.plus, st.minus, 0, true, 0, 0, []⟩) st.sel).1.s = true
         ∧ st.acc.headD ((0 : Nat) : K) < minOne ((((buildTree target dot logu (!(decide (st.dirs.headD ((0 : Nat) : K) < (halfK : K)))) eps joint0 st.j
                (startOf (!(decide (st.dirs.headD ((0 : Nat) : K) < (halfK : K)))) ⟨st.minus, st.plus, st.minus, 0, true, 0, 0, []⟩) st.sel).1.n : Nat) : K) / ((st.n : Nat) : K))))
    ∧ (doubling target dot logu eps joint0 st).j = st.j + 1 := by
  refine ⟨?_, rfl⟩
  simp only [doubling, startOf]
  by_cases h : ((buildTree target dot logu (!(decide (st.dirs.headD ((0 : Nat) : K) < (halfK : K)))) eps joint0 st.j
      (if (!(decide (st.dirs.headD ((0 : Nat) : K) < (halfK : K)))) = true then st.minus else st.plus) st.sel).1.s
      && decide (st.acc.headD ((0 : Nat) : K) < minOne ((((buildTree target dot logu (!(decide (st.dirs.headD ((0 : Nat) : K) < (halfK : K)))) eps joint0 st.j
      (if (!(decide (st.dirs.headD ((0 : Nat) : K) < (halfK : K)))) = true then st.minus else st.plus) st.sel).1.n : Nat) : K) / ((st.n : Nat) : K)))) = true
  · right
    simp only [h, if_true, true_and]
    simpa [Bool.and_eq_true] using h
  · left
    simp only [h]
    rfl

/-- an adopted candidate comes from a subtree with at least one admissible point (accept draws are `≥ 0`), hence — by
    `buildTree_prime_admissible` and `buildTree_prime_mem` — is a slice-admissible point of the leapfrog trajectory. -/
theorem adopted_has_admissible (n : Nat) (u : K) (hacc : 0 ≤ u)
    (t : Tree K V) (h : u < minOne (((t.n : Nat) : K) / ((n : Nat) : K))) : 0 < t.n := by
  by_contra h0
  have h0' : t.n = 0 := by omega
  rw [h0'] at h
  simp only [Nat.cast_zero, zero_div, minOne, Nat.cast_one] at h
  have : (0 : K) < 1 := one_pos
  simp only [this, if_true] at h
  exact absurd hacc (not_le.mpr h)

/-- **the next state**: along the whole doubling loop the position is the start position or the (admissible, on-trajectory)
    candidate of a subtree that did not stop; the reported statistic is that of the last doubling. Stated as an invariant
    preserved by every iteration: `P` holds of the start position and of every candidate of a non-stopped subtree. -/
theorem loop_invariant (P : V → Prop) (fuel : Nat) (st st' : Loop K V)
    (hP : P st.pos)
    (hstep : ∀ s : Loop K V, P s.pos → P (doubling target dot logu eps joint0 s).pos)
    (h : loop target dot logu eps joint0 fuel st = some st') : P st'.pos := by
  induction fuel generalizing st with
  | zero => simp [loop] at h
  | succ fuel ih =>
    simp only [loop] at h
    split at h
    · exact ih _ (hstep st hP) h
    · simp only [Option.some.injEq] at h; subst h; exact hP

end transition

end MiniMcmcVerif.NUTS


import MiniMcmcVerif.Model.Stats
import MiniMcmcVerif.Props.C13
import Mathlib.Algebra.Order.Field.Basic
import Mathlib.Algebra.BigOperators.Group.List.Basic
import Mathlib.Algebra.BigOperators.Ring.List
import Mathlib.Algebra.Order.BigOperators.Group.List
import Mathlib.Data.List.Perm.Basic
import Mathlib.Tactic.Linarith
import Mathlib.Tactic.FieldSimp
import Mathlib.Tactic.Ring
import Mathlib.Tactic.Positivity

/-!
# C11 — split R-hat is `sqrt(var⁺/W)` of the half-chains; summary statistics

`rhatSq` is the square of the reported value (kept rational). Everything is about the polymorphic definitions of
`Model/Stats.lean` at an arbitrary ordered field.
-/

set_option linter.unusedSectionVars false
set_option linter.unusedVariables false

namespace MiniMcmcVerif.Stats

section splitting
variable {β : Type}

/-- `splitcat` yields `2c` half-chains: the first `n/2` draws of every chain, then the last `n/2` draws of every chain
    (the middle draw of an odd-length chain is dropped). -/
theorem splitcat_spec (sample : List (List β)) (n : Nat) (hlen : ∀ ch ∈ sample, ch.length = n) (hne : sample ≠ []) :
    splitcat sample = sample.map (fun ch => ch.take (n / 2)) ++ sample.map (fun ch => ch.drop (n - n / 2))
    ∧ (splitcat sample).length = 2 * sample.length
    ∧ ∀ h ∈ splitcat sample, h.length = n / 2 := by
  have hhead : (sample.headD []).length = n := by
    cases sample with
    | nil => exact absurd rfl hne
    | cons a t => simpa using hlen a (by simp)
  have e : splitcat sample = sample.map (fun ch => ch.take (n / 2)) ++ sample.map (fun ch => ch.drop (n - n / 2)) := by
    unfold splitcat
    simp only [hhead]
    congr 1
    apply List.map_congr_left
    intro ch hch
    rw [hlen ch hch]
  refine ⟨e, ?_, ?_⟩
  · rw [e]; simp; omega
  · rw [e]
    intro h hh
    simp only [List.mem_append, List.mem_map] at hh
    rcases hh with ⟨ch, hch, rfl⟩ | ⟨ch, hch, rfl⟩
    · rw [List.length_take, hlen ch hch]; omega
    · rw [List.length_drop, hlen ch hch]; omega

end splitting

section field
variable {α : Type} [Field α] [LinearOrder α] [IsStrictOrderedRing α]

/-- within-half variance `W` (mean over half-chains of `(1/n) Σ (x - x̄_j)²`) -/
def Wof (data : List (List α)) : α := (withinVar data).1
/-- between-half variance `B = n/(c-1) Σ (x̄_j - x̄)²` -/
def Bof (data : List (List α)) : α :=
  let cm := data.map mean
  sum (cm.map fun m => sq (m - mean cm)) * (((data.headD []).length : α) / ((data.length - 1 : Nat) : α))

/-- `var⁺ = (n-1)/n · W + B/n` — the definition the code evaluates. -/
theorem varplus_eq (data : List (List α)) :
    (withinVar data).2
      = ((((data.headD []).length : α) - 1) / ((data.headD []).length : α)) * Wof data + Bof data / ((data.headD []).length : α) := by
  simp [withinVar, Wof, Bof]

/-- **R-hat² = var⁺/W = (n-1)/n + B/(n·W)**. -/
theorem rhatSq_eq (data : List (List α)) (hW : Wof data ≠ 0) :
    rhatSq data = (((data.headD []).length : α) - 1) / ((data.headD []).length : α)
                  + Bof data / (((data.headD []).length : α) * Wof data) := by
  have : rhatSq data = (withinVar data).2 / Wof data := rfl
  rw [this, varplus_eq]
  field_simp

theorem Bof_nonneg (data : List (List α)) : 0 ≤ Bof data := by
  unfold Bof
  simp only [sum_eq]
  apply mul_nonneg
  · apply List.sum_nonneg
    intro x hx
    simp only [List.mem_map] at hx
    obtain ⟨m, _, rfl⟩ := hx
    exact mul_self_nonneg _
  · exact div_nonneg (Nat.cast_nonneg _) (Nat.cast_nonneg _)

/-- **never below `(n-1)/n`** (so the reported R-hat is never below `sqrt((n-1)/n)`). -/
theorem rhatSq_ge (data : List (List α)) (hW : 0 < Wof data) (hn : 0 < (data.headD []).length) :
    (((data.headD []).length : α) - 1) / ((data.headD []).length : α) ≤ rhatSq data := by
  rw [rhatSq_eq data hW.ne']
  have hn' : (0 : α) < ((data.headD []).length : α) := by exact_mod_cast hn
  have : 0 ≤ Bof data / (((data.headD []).length : α) * Wof data) :=
    div_nonneg (Bof_nonneg data) (mul_pos hn' hW).le
  linarith

/-! #### affine invariance -/

theorem mean_affine (xs : List α) (a b : α) (hne : xs ≠ []) :
    mean (xs.map fun x => a * x + b) = a * mean xs + b := by
  have hn : (xs.length : α) ≠ 0 := by
    have : xs.length ≠ 0 := by simpa [List.length_eq_zero_iff] using hne
    exact_mod_cast this
  unfold mean
  simp only [sum_eq, List.length_map]
  have : (xs.map fun x => a * x + b).sum = a * xs.sum + (xs.length : α) * b := by
    induction xs with
    | nil => simp
    | cons x xs ih =>
      by_cases h : xs = []
      · subst h; simp
      · simp only [List.map_cons, List.sum_cons, List.length_cons]
        have hn2 : (xs.length : α) ≠ 0 := by
          have : xs.length ≠ 0 := by simpa [List.length_eq_zero_iff] using h
          exact_mod_cast this
        rw [ih h hn2]; push_cast; ring
  rw [this]; field_simp

theorem sumsq_affine (xs : List α) (a b : α) (hne : xs ≠ []) :
    sum ((xs.map fun x => a * x + b).map fun v => sq (v - mean (xs.map fun x => a * x + b)))
      = a ^ 2 * sum (xs.map fun v => sq (v - mean xs)) := by
  rw [mean_affine xs a b hne]
  simp only [sum_eq, List.map_map, Function.comp_def, sq]
  rw [← List.sum_map_mul_left]
  apply congrArg
  apply List.map_congr_left
  intro v _
  ring

/-- `W` scales by `a²`, `var⁺` scales by `a²` under `x ↦ a·x + b`. -/
theorem withinVar_affine (data : List (List α)) (a b : α) (hrows : ∀ r ∈ data, r ≠ []) (hne : data ≠ []) :
    withinVar (data.map fun r => r.map fun x => a * x + b)
      = (a ^ 2 * (withinVar data).1, a ^ 2 * (withinVar data).2) := by
  have hhead : ((data.map fun r => r.map fun x => a * x + b).headD []).length = (data.headD []).length := by
    cases data with
    | nil => rfl
    | cons r t => simp
  have hcm : (data.map fun r => r.map fun x => a * x + b).map mean = (data.map mean).map fun m => a * m + b := by
    rw [List.map_map, List.map_map]
    apply List.map_congr_left
    intro r hr
    exact mean_affine r a b (hrows r hr)
  have hcmne : data.map mean ≠ [] := by simpa using hne
  have hsq : (data.map fun r => r.map fun x => a * x + b).map (fun row => sum (row.map fun v => sq (v - mean row)) / ((data.headD []).length : α))
      = (data.map fun row => sum (row.map fun v => sq (v - mean row)) / ((data.headD []).length : α)).map fun s => a ^ 2 * s := by
    rw [List.map_map, List.map_map]
    apply List.map_congr_left
    intro r hr
    simp only [Function.comp_def]
    rw [sumsq_affine r a b (hrows r hr)]; ring
  have hmean_scale : ∀ l : List α, mean (l.map fun s => a ^ 2 * s) = a ^ 2 * mean l := by
    intro l
    unfold mean
    simp only [sum_eq, List.length_map]
    have e : (l.map fun s => a ^ 2 * s).sum = a ^ 2 * l.sum := by
      induction l with
      | nil => simp
      | cons x xs ih => simp [List.sum_cons, ih, mul_add]
    rw [e]; ring
  unfold withinVar
  simp only [hhead, hcm, List.length_map, hsq, hmean_scale]
  rw [mean_affine _ a b hcmne]
  have hb : sum (((data.map mean).map fun m => a * m + b).map fun m => sq (m - (a * mean (data.map mean) + b)))
      = a ^ 2 * sum ((data.map mean).map fun m => sq (m - mean (data.map mean))) := by
    simp only [sum_eq, List.map_map, Function.comp_def, sq]
    rw [← List.sum_map_mul_left]
    apply congrArg
    apply List.map_congr_left
    intro v _
    ring
  rw [hb]
  refine Prod.ext rfl ?_
  simp only
  ring

/-- **affine invariance**: the split R-hat is unchanged by `x ↦ a·x + b`, `a ≠ 0`. -/
theorem rhat_affine_inv (data : List (List α)) (a b : α) (ha : a ≠ 0) (hrows : ∀ r ∈ data, r ≠ []) (hne : data ≠ []) :
    rhatSq (data.map fun r => r.map fun x => a * x + b) = rhatSq data := by
  unfold rhatSq
  rw [withinVar_affine data a b hrows hne]
  simp only
  have : a ^ 2 ≠ 0 := pow_ne_zero 2 ha
  by_cases hW : (withinVar data).1 = 0
  · simp [hW]
  · field_simp

/-! #### chain permutation -/

theorem mean_perm {l₁ l₂ : List α} (h : l₁.Perm l₂) : mean l₁ = mean l₂ := by
  unfold mean
  rw [sum_eq, sum_eq, h.sum_eq, h.length_eq]

/-- **permuting the (half-)chains does not change R-hat** (all chains of the same length). -/
theorem rhat_chain_perm_inv (d₁ d₂ : List (List α)) (h : d₁.Perm d₂) (n : Nat)
    (hlen : ∀ r ∈ d₁, r.length = n) (hne : d₁ ≠ []) : rhatSq d₁ = rhatSq d₂ := by
  have hne2 : d₂ ≠ [] := by
    intro e; subst e; exact hne (List.perm_nil.mp h)
  have hh1 : (d₁.headD []).length = n := by
    cases d₁ with
    | nil => exact absurd rfl hne
    | cons a t => simpa using hlen a (by simp)
  have hh2 : (d₂.headD []).length = n := by
    cases d₂ with
    | nil => exact absurd rfl hne2
    | cons a t => simpa using hlen a (h.mem_iff.mpr (by simp))
  unfold rhatSq withinVar
  simp only [hh1, hh2, h.length_eq]
  have hm : (d₁.map mean).Perm (d₂.map mean) := h.map _
  have hsqs : (d₁.map fun row => sum (row.map fun v => sq (v - mean row)) / (n : α)).Perm
              (d₂.map fun row => sum (row.map fun v => sq (v - mean row)) / (n : α)) := h.map _
  rw [mean_perm hm, mean_perm hsqs]
  have : sum ((d₁.map mean).map fun m => sq (m - mean (d₂.map mean)))
       = sum ((d₂.map mean).map fun m => sq (m - mean (d₂.map mean))) := by
    rw [sum_eq, sum_eq]; exact (hm.map _).sum_eq
  rw [this]

/-- **locality**: the R-hat of parameter `p` is a function of that parameter's column only. -/
theorem rhat_param_local (s₁ s₂ : List (List (List α))) (p : Nat)
    (h : s₁.map (fun ch => column ch p) = s₂.map (fun ch => column ch p)) :
    rhatSq (splitcat (s₁.map fun ch => column ch p)) = rhatSq (splitcat (s₂.map fun ch => column ch p)) := by
  rw [h]

end field

/-! ### summary statistics -/

section order
variable {α : Type} [LinearOrder α]

theorem insertDesc_perm (x : α) (l : List α) : (insertDesc x l).Perm (x :: l) := by
  induction l with
  | nil => simp [insertDesc]
  | cons y ys ih =>
    simp only [insertDesc]
    split
    · exact List.Perm.refl _
    · exact (List.Perm.cons y ih).trans (List.Perm.swap x y ys)

theorem sortDesc_perm (l : List α) : (sortDesc l).Perm l := by
  induction l with
  | nil => simp [sortDesc]
  | cons x xs ih =>
    have : sortDesc (x :: xs) = insertDesc x (sortDesc xs) := rfl
    rw [this]
    exact (insertDesc_perm x _).trans (List.Perm.cons x ih)

theorem insertDesc_sorted (x : α) (l : List α) (h : l.Pairwise (· ≥ ·)) : (insertDesc x l).Pairwise (· ≥ ·) := by
  induction l with
  | nil => simp [insertDesc]
  | cons y ys ih =>
    simp only [insertDesc]
    have hy := List.pairwise_cons.mp h
    split
    · rename_i hlt
      refine List.pairwise_cons.mpr ⟨?_, h⟩
      intro z hz
      rcases List.mem_cons.mp hz with rfl | hz
      · exact hlt.le
      · exact le_trans (hy.1 z hz) hlt.le
    · rename_i hnlt
      refine List.pairwise_cons.mpr ⟨?_, ih hy.2⟩
      intro z hz
      have := (insertDesc_perm x ys).mem_iff.mp hz
      rcases List.mem_cons.mp this with rfl | hz'
      · exact not_lt.mp hnlt
      · exact hy.1 z hz'

theorem sortDesc_sorted (l : List α) : (sortDesc l).Pairwise (· ≥ ·) := by
  induction l with
  | nil => simp [sortDesc]
  | cons x xs ih =>
    have : sortDesc (x :: xs) = insertDesc x (sortDesc xs) := rfl
    rw [this]; exact insertDesc_sorted x _ ih

/-- **summary min/max/median** (finite, totally ordered diagnostics): the descending arrangement `s` is a permutation of
    the input, `max = s.head` is ≥ every value, `min = s.last` is ≤ every value, and `median = s[⌊len/2⌋]` is by
    definition the `⌊len/2⌋`-th order statistic of that arrangement. -/
theorem basic_minmax_spec (l : List α) :
    (sortDesc l).Perm l ∧ (sortDesc l).Pairwise (· ≥ ·) ∧
    (∀ x ∈ l, ∀ m, (sortDesc l).head? = some m → x ≤ m) ∧
    (∀ x ∈ l, ∀ m, (sortDesc l).getLast? = some m → m ≤ x) := by
  have hp := sortDesc_perm l
  have hs := sortDesc_sorted l
  refine ⟨hp, hs, ?_, ?_⟩
  · intro x hx m hm
    have hxs : x ∈ sortDesc l := hp.mem_iff.mpr hx
    generalize sortDesc l = s at *
    cases s with
    | nil => simp at hm
    | cons a t =>
      simp only [List.head?_cons, Option.some.injEq] at hm
      subst hm
      rcases List.mem_cons.mp hxs with rfl | h
      · exact le_refl _
      · exact (List.pairwise_cons.mp hs).1 x h
  · intro x hx m hm
    have hxs : x ∈ sortDesc l := hp.mem_iff.mpr hx
    generalize sortDesc l = s at *
    have hrev := List.pairwise_reverse.mpr hs
    have hm' : s.reverse.head? = some m := by rw [List.head?_reverse]; exact hm
    have hxr : x ∈ s.reverse := by simpa using hxs
    generalize s.reverse = r at *
    cases r with
    | nil => simp at hm'
    | cons a t =>
      simp only [List.head?_cons, Option.some.injEq] at hm'
      subst hm'
      rcases List.mem_cons.mp hxr with rfl | h
      · exact le_refl _
      · exact (List.pairwise_cons.mp hrev).1 x h

end order

/-! ### non-vacuity: two chains of four draws over ℚ -/
example : rhatSq (splitcat [[(1 : ℚ), 2, 3, 4], [2, 4, 6, 9]]) = 15 / 2 := by
  norm_num [rhatSq, withinVar, splitcat, mean, sum, sq]
example : sortDesc [(3 : ℚ), 1, 2] = [3, 2, 1] := by decide +kernel

end MiniMcmcVerif.Stats

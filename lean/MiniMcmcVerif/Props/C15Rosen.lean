import MiniMcmcVerif.Props.C15

/-!
# C15 — `RosenbrockND`: the closed-form gradient is the derivative, for every dimension and every coordinate

`Model/Dist.lean` gives `rosenND` (the value the code computes per row: a `zipWith` over the row and its tail, summed and
negated) and `rosenNDGradAt` (the gradient the correspondence compares with burn's autodiff). Here the two are related over
ℝ with no bound on the dimension: for every row `x` and every coordinate `k < x.length`,
`t ↦ rosenND (x.set k t)` has derivative `rosenNDGradAt x k` at `x[k]`.
-/

namespace MiniMcmcVerif.Dist

/-- one summand of the N-d Rosenbrock sum -/
def rosenTerm (lo hi : ℝ) : ℝ := (hi - lo * lo) * (hi - lo * lo) * 100 + (1 - lo) * (1 - lo)

/-- the chain sum with an explicit predecessor: `Σ rosenTerm` over consecutive pairs of `p :: l` -/
def rosenChain (p : ℝ) : List ℝ → ℝ
  | [] => 0
  | b :: r => rosenTerm p b + rosenChain b r

def dTerm1 (lo hi : ℝ) : ℝ := -(400 * lo * (hi - lo * lo)) - 2 * (1 - lo)
def dTerm2 (lo hi : ℝ) : ℝ := 200 * (hi - lo * lo)

theorem rosenTerm_hasDerivAt_lo (lo hi : ℝ) : HasDerivAt (fun t => rosenTerm t hi) (dTerm1 lo hi) lo := by
  have hid : HasDerivAt (fun t : ℝ => t) 1 lo := hasDerivAt_id' lo
  have h1 : HasDerivAt (fun t : ℝ => hi - t * t) (-(1 * lo + lo * 1)) lo := (hid.mul hid).const_sub hi
  have h2 : HasDerivAt (fun t : ℝ => 1 - t) (-1) lo := hid.const_sub 1
  have h3 : HasDerivAt (fun t : ℝ => (hi - t * t) * (hi - t * t) * 100 + (1 - t) * (1 - t))
      ((-(1 * lo + lo * 1) * (hi - lo * lo) + (hi - lo * lo) * -(1 * lo + lo * 1)) * 100
        + (-1 * (1 - lo) + (1 - lo) * -1)) lo :=
    ((h1.mul h1).mul_const 100).add (h2.mul h2)
  unfold rosenTerm
  refine h3.congr_deriv ?_
  unfold dTerm1
  ring

theorem rosenTerm_hasDerivAt_hi (lo hi : ℝ) : HasDerivAt (fun t => rosenTerm lo t) (dTerm2 lo hi) hi := by
  have hid : HasDerivAt (fun t : ℝ => t) 1 hi := hasDerivAt_id' hi
  have h1 : HasDerivAt (fun t : ℝ => t - lo * lo) 1 hi := hid.sub_const (lo * lo)
  have h3 : HasDerivAt (fun t : ℝ => (t - lo * lo) * (t - lo * lo) * 100 + (1 - lo) * (1 - lo))
      ((1 * (hi - lo * lo) + (hi - lo * lo) * 1) * 100) hi :=
    ((h1.mul h1).mul_const 100).add_const _
  unfold rosenTerm
  refine h3.congr_deriv ?_
  unfold dTerm2
  ring

/-- `rosenND` is minus the chain sum. -/
theorem rosenND_cons (a : ℝ) (l : List ℝ) : rosenND (a :: l) = -rosenChain a l := by
  unfold rosenND
  rw [foldl_add_eq_sum]
  congr 1
  simp only [List.drop_succ_cons, List.drop_zero]
  induction l generalizing a with
  | nil => simp [rosenChain]
  | cons b r ih =>
      simp only [List.zipWith_cons_cons, List.sum_cons, rosenChain]
      rw [ih b]
      simp only [rosenTerm]
      push_cast
      ring

theorem rosenND_nil : rosenND ([] : List ℝ) = 0 := by simp [rosenND]

/-- derivative of the chain sum in its predecessor argument -/
def dChainHead (b : ℝ) : List ℝ → ℝ
  | [] => 0
  | c :: _ => dTerm1 b c

theorem rosenChain_hasDerivAt_head (b : ℝ) (r : List ℝ) :
    HasDerivAt (fun t => rosenChain t r) (dChainHead b r) b := by
  cases r with
  | nil => simpa [rosenChain, dChainHead] using hasDerivAt_const b (0 : ℝ)
  | cons c r' =>
      simpa [rosenChain, dChainHead] using (rosenTerm_hasDerivAt_lo b c).add_const (rosenChain c r')

/-- derivative of the chain sum in coordinate `k` of its list argument -/
def dChain (p : ℝ) : List ℝ → Nat → ℝ
  | [], _ => 0
  | b :: r, 0 => dTerm2 p b + dChainHead b r
  | b :: r, k + 1 => dChain b r k

theorem rosenChain_hasDerivAt_set (p : ℝ) (l : List ℝ) (k : Nat) (hk : k < l.length) :
    HasDerivAt (fun t => rosenChain p (l.set k t)) (dChain p l k) l[k] := by
  induction l generalizing p k with
  | nil => simp at hk
  | cons b r ih =>
      cases k with
      | zero =>
          simp only [List.set_cons_zero, rosenChain, dChain, List.getElem_cons_zero]
          exact (rosenTerm_hasDerivAt_hi p b).add (rosenChain_hasDerivAt_head b r)
      | succ k =>
          simp only [List.set_cons_succ, rosenChain, dChain, List.getElem_cons_succ]
          exact (ih b k (by simpa using hk)).const_add (rosenTerm p b)

/-- the model's closed form, read off lists: the head coordinate -/
theorem rosenNDGradAt_zero (a : ℝ) (l : List ℝ) : rosenNDGradAt (a :: l).toArray 0 = -dChainHead a l := by
  cases l with
  | nil => simp [rosenNDGradAt, dChainHead]
  | cons c r =>
      simp only [rosenNDGradAt, dChainHead, dTerm1, two_real]
      simp
      ring

/-- … and every later coordinate -/
theorem rosenNDGradAt_succ (a : ℝ) (l : List ℝ) (k : Nat) (hk : k < l.length) :
    rosenNDGradAt (a :: l).toArray (k + 1) = -dChain a l k := by
  induction l generalizing a k with
  | nil => simp at hk
  | cons b r ih =>
      cases k with
      | zero =>
          cases r with
          | nil =>
              simp only [rosenNDGradAt, dChain, dChainHead, dTerm2, two_real]
              simp
          | cons c r' =>
              simp only [rosenNDGradAt, dChain, dChainHead, dTerm1, dTerm2, two_real]
              simp
              ring
      | succ k =>
          have hk' : k < r.length := by simpa using hk
          have := ih b k hk'
          simp only [dChain]
          rw [← this]
          simp only [rosenNDGradAt]
          simp

/-- **RosenbrockND**: for every dimension and every coordinate, the closed-form gradient is the partial derivative of the
coded log-density. -/
theorem rosenbrockND_hasGradient (x : List ℝ) (k : Nat) (hk : k < x.length) :
    HasDerivAt (fun t => rosenND (x.set k t)) (rosenNDGradAt x.toArray k) x[k] := by
  cases x with
  | nil => simp at hk
  | cons a l =>
      cases k with
      | zero =>
          simp only [List.set_cons_zero, rosenND_cons, List.getElem_cons_zero, rosenNDGradAt_zero]
          exact (rosenChain_hasDerivAt_head a l).neg
      | succ k =>
          have hk' : k < l.length := by simpa using hk
          simp only [List.set_cons_succ, rosenND_cons, List.getElem_cons_succ, rosenNDGradAt_succ a l k hk']
          exact (rosenChain_hasDerivAt_set a l k hk').neg

/-- non-vacuity: a 3-d row, middle coordinate — both the forward and the backward term are present. -/
example : rosenNDGradAt ([1, 2, 3] : List ℝ).toArray 1 = 400 * 2 * (3 - 2 * 2) + 2 * (1 - 2) - 200 * (2 - 1 * 1) := by
  simp [rosenNDGradAt, two_real]

end MiniMcmcVerif.Dist

import MiniMcmcVerif.Props.C01
import Mathlib.MeasureTheory.Measure.Lebesgue.Basic

/-!
# C01 — the acceptance rule accepts with probability `min(1, eʳ)` under a uniform draw
-/

namespace MiniMcmcVerif.MH

open MeasureTheory

/-- Lebesgue measure of the set of acceptance draws `u ∈ (0,1)` for which the rule `ln u < r` accepts: `min 1 (exp r)`
    — the Metropolis–Hastings acceptance probability (the draw `u = 0` is a null set). -/
theorem accept_probability (r : ℝ) :
    volume {u : ℝ | 0 < u ∧ u < 1 ∧ Real.log u < r} = ENNReal.ofReal (min 1 (Real.exp r)) := by
  rw [accept_region, Real.volume_Ioo, sub_zero]

end MiniMcmcVerif.MH

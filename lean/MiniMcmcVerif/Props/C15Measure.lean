import MiniMcmcVerif.Props.C15
import MiniMcmcVerif.Props.C15Rosen
import Mathlib.Probability.Distributions.Gaussian.Real

/-!
# C15 — the proposal's `exp(logp)` is a probability density: it integrates to one
-/

namespace MiniMcmcVerif.Dist

open ProbabilityTheory MeasureTheory

/-- the variance `std²` as a non-negative real -/
noncomputable def varNN (sigma : ℝ) : NNReal := ⟨sigma ^ 2, sq_nonneg sigma⟩

/-- `exp` of the one-coordinate term of `IsotropicGaussian::logp` is Mathlib's Gaussian density with mean `from`
    and variance `std²` … -/
theorem exp_lnNormal_eq_gaussianPDF (f sigma t : ℝ) (hs : sigma ≠ 0) :
    Real.exp (lnNormal f sigma t) = gaussianPDFReal f (varNN sigma) t := by
  have hc : ((varNN sigma : NNReal) : ℝ) = sigma ^ 2 := rfl
  rw [exp_lnNormal f sigma t hs, gaussianPDFReal_def]
  simp only [hc]

/-- … **which integrates to one**: `logp` is a *normalised* log-density (the defect of the original tree,
    `-d/2·ln(π σ⁴)`, made this integral differ from 1). -/
theorem iso_density_integrates_to_one (f sigma : ℝ) (hs : sigma ≠ 0) :
    ∫ t, Real.exp (lnNormal f sigma t) = 1 := by
  have hv : varNN sigma ≠ 0 := by
    intro h
    have : sigma ^ 2 = 0 := congrArg NNReal.toReal h
    exact hs (pow_eq_zero_iff (by norm_num) |>.mp this)
  rw [show (fun t => Real.exp (lnNormal f sigma t)) = fun t => gaussianPDFReal f (varNN sigma) t from
    funext fun t => exp_lnNormal_eq_gaussianPDF f sigma t hs]
  exact integral_gaussianPDFReal_eq_one f hv

end MiniMcmcVerif.Dist

import MiniMcmcVerif.Props.C03

/-!
# C03 — the whole transition: "the next state is the previous state or a slice-admissible point of the leapfrog
trajectory through it"

`Props/C03.lean` proves the facts about one subtree and one doubling. Here they are assembled into an invariant of the
doubling loop and hence a statement about `transition` (`NUTSChain::step` up to the step-size adaptation): for every
target, start point, momentum, Exp(1) draw, step size, every stream of direction uniforms, selection uniforms in `[0,1)`
and non-negative accept uniforms, if the transition terminates then its final position is the start position, or the
position of a phase point `z` with `logu < joint z` that is `k ≥ 1` leapfrog steps of size `+ε` or of size `-ε` away from
the start point `(θ, r₀)` — never anything else. Also: both ends of the trajectory are iterates of the leapfrog map.
-/

set_option linter.unusedSectionVars false
set_option linter.unusedVariables false

namespace MiniMcmcVerif.NUTS

variable {K V : Type} [Field K] [LinearOrder K] [IsStrictOrderedRing K] [HasExp K] [Add V] [Sub V] [SMul K V]
variable (target : V → K × V) (dot : V → V → K) (logu eps joint0 : K)

/-- `z` lies on the leapfrog trajectory through `z0`, at least one step away -/
def OnTraj (z0 z : Pt K V) : Prop :=
  ∃ k : Nat, z = (leapfrog target eps)^[k + 1] z0 ∨ z = (leapfrog target (-eps))^[k + 1] z0

/-- the invariant of the doubling loop -/
def LoopInv (pos0 : V) (z0 : Pt K V) (st : Loop K V) : Prop :=
  (∃ a, st.minus = (leapfrog target (-eps))^[a] z0) ∧ (∃ b, st.plus = (leapfrog target eps)^[b] z0)
  ∧ (st.pos = pos0 ∨ ∃ z, z.pos = st.pos ∧ Adm dot logu z ∧ OnTraj target eps z0 z)
  ∧ (∀ u ∈ st.sel, 0 ≤ u ∧ u < 1) ∧ (∀ u ∈ st.acc, 0 ≤ u)

theorem doubling_inv (pos0 : V) (z0 : Pt K V) (st : Loop K V) (h : LoopInv target dot logu eps pos0 z0 st) :
    LoopInv target dot logu eps pos0 z0 (doubling target dot logu eps joint0 st) := by
  obtain ⟨⟨a, ha⟩, ⟨b, hb⟩, hpos, hsel, hacc⟩ := h
  -- name the direction and the freshly built subtree
  generalize hd : (!(decide (st.dirs.headD ((0 : Nat) : K) < (halfK : K)))) = dirNeg
  have hdoub : doubling target dot logu eps joint0 st =
      (let start := if dirNeg then st.minus else st.plus
       let r := buildTree target dot logu dirNeg eps joint0 st.j start st.sel
       let t := r.1
       let minus := if dirNeg then t.minus else st.minus
       let plus := if dirNeg then st.plus else t.plus
       let tmp := minOne (((t.n : Nat) : K) / ((st.n : Nat) : K))
       let u2 := st.acc.headD (((0 : Nat) : K))
       let adopt := t.s && decide (u2 < tmp)
       { pos := if adopt then t.prime.pos else st.pos
         minus := minus, plus := plus, j := st.j + 1, n := st.n + t.n
         s := t.s && noUTurn dot minus plus
         alpha := t.alpha, nalpha := t.nalpha
         dirs := st.dirs.tail, sel := r.2, acc := st.acc.tail
         log := st.log ++ [(dirNeg, t.n, t.s, adopt)] }) := by
    subst hd; rfl
  rw [hdoub]
  dsimp only
  -- the start point of the subtree as an iterate of the signed leapfrog map
  obtain ⟨c, hc⟩ : ∃ c, (if dirNeg then st.minus else st.plus) = (leapfrog target (stepOf dirNeg eps))^[c] z0 := by
    cases dirNeg
    · exact ⟨b, by simpa [stepOf] using hb⟩
    · exact ⟨a, by simpa [stepOf] using ha⟩
  generalize hstart : (if dirNeg then st.minus else st.plus) = start at hc ⊢
  obtain ⟨hchain, hne, houter, hinner⟩ :=
    buildTree_leaves_chain target dot logu dirNeg eps joint0 st.j start st.sel
  have hmem := buildTree_prime_mem target dot logu dirNeg eps joint0 st.j start st.sel
  have hadm := buildTree_prime_admissible target dot logu dirNeg eps joint0 st.j start st.sel hsel
  obtain ⟨ksuf, hsuf⟩ := buildTree_sel_suffix target dot logu dirNeg eps joint0 st.j start st.sel
  generalize hr : buildTree target dot logu dirNeg eps joint0 st.j start st.sel = r at *
  refine ⟨?_, ?_, ?_, ?_, ?_⟩
  · -- minus end
    cases dirNeg
    · exact ⟨a, by simpa using ha⟩
    · refine ⟨r.1.leaves.length + c, ?_⟩
      simp only [startOf, if_true, stepOf] at houter hc ⊢
      rw [houter, hc, ← Function.iterate_add_apply]
  · -- plus end
    cases dirNeg
    · refine ⟨r.1.leaves.length + c, ?_⟩
      simp only [startOf, stepOf, Bool.false_eq_true, if_false] at houter hc ⊢
      rw [houter, hc, ← Function.iterate_add_apply]
    · exact ⟨b, by simpa using hb⟩
  · -- position
    by_cases hadopt : (r.1.s && decide (st.acc.headD ((0 : Nat) : K) < minOne (((r.1.n : Nat) : K) / ((st.n : Nat) : K)))) = true
    · simp only [hadopt, if_true]
      right
      rw [Bool.and_eq_true, decide_eq_true_eq] at hadopt
      have hu0 : 0 ≤ st.acc.headD ((0 : Nat) : K) := by
        cases hl : st.acc with
        | nil => simp
        | cons u us => simpa [hl] using hacc u (by rw [hl]; exact List.mem_cons_self)
      have hn : 0 < r.1.n := adopted_has_admissible st.n _ hu0 r.1 hadopt.2
      refine ⟨r.1.prime, rfl, hadm hn, ?_⟩
      rw [hchain] at hmem
      obtain ⟨k, _, hk⟩ := List.mem_map.mp hmem
      refine ⟨k + c, ?_⟩
      rw [← hk, hc, ← Function.iterate_add_apply]
      cases dirNeg
      · left; simp only [stepOf, Bool.false_eq_true, if_false]; congr 1; omega
      · right; simp only [stepOf, if_true]; congr 1; omega
    · simp only [hadopt]
      simpa using hpos
  · intro u hu
    rw [hsuf] at hu
    exact hsel u (List.mem_of_mem_drop hu)
  · intro u hu
    exact hacc u (List.mem_of_mem_tail hu)

/-- **the whole transition**: final position = start position, or an admissible point of the leapfrog trajectory
    through the start point. -/
theorem transition_next_state (pos mom0 : V) (exp1 : K) (dirs sel acc : List K) (fuel : Nat) (st' : Loop K V)
    (hsel : ∀ u ∈ sel, 0 ≤ u ∧ u < 1) (hacc : ∀ u ∈ acc, 0 ≤ u)
    (h : transition target dot eps pos mom0 exp1 dirs sel acc fuel = some st') :
    let z0 : Pt K V := ⟨pos, mom0, (target pos).2, (target pos).1⟩
    let logu := joint dot z0 - exp1
    st'.pos = pos ∨ ∃ z : Pt K V, z.pos = st'.pos ∧ logu < joint dot z ∧ OnTraj target eps z0 z := by
  intro z0 logu
  unfold transition at h
  simp only at h
  have hinv0 : LoopInv target dot logu eps pos z0
      ⟨pos, z0, z0, 0, 1, true, ((0 : Nat) : K), 0, dirs, sel, acc, []⟩ :=
    ⟨⟨0, rfl⟩, ⟨0, rfl⟩, Or.inl rfl, hsel, hacc⟩
  have hfinal : ∀ (fuel : Nat) (st : Loop K V), LoopInv target dot logu eps pos z0 st →
      loop target dot logu eps (joint dot z0) fuel st = some st' → LoopInv target dot logu eps pos z0 st' := by
    intro fuel
    induction fuel with
    | zero => intro st _ h; simp [loop] at h
    | succ f ih =>
      intro st hst h
      simp only [loop] at h
      split at h
      · exact ih _ (doubling_inv target dot logu eps (joint dot z0) pos z0 st hst) h
      · simp only [Option.some.injEq] at h; subst h; exact hst
  exact (hfinal fuel _ hinv0 h).2.2.1

/-- the two ends of the final trajectory are the `a`-th backward and `b`-th forward leapfrog iterate of the start point -/
theorem transition_ends (pos mom0 : V) (exp1 : K) (dirs sel acc : List K) (fuel : Nat) (st' : Loop K V)
    (hsel : ∀ u ∈ sel, 0 ≤ u ∧ u < 1) (hacc : ∀ u ∈ acc, 0 ≤ u)
    (h : transition target dot eps pos mom0 exp1 dirs sel acc fuel = some st') :
    let z0 : Pt K V := ⟨pos, mom0, (target pos).2, (target pos).1⟩
    (∃ a, st'.minus = (leapfrog target (-eps))^[a] z0) ∧ (∃ b, st'.plus = (leapfrog target eps)^[b] z0) := by
  intro z0
  unfold transition at h
  simp only at h
  have hinv0 : LoopInv target dot (joint dot z0 - exp1) eps pos z0
      ⟨pos, z0, z0, 0, 1, true, ((0 : Nat) : K), 0, dirs, sel, acc, []⟩ :=
    ⟨⟨0, rfl⟩, ⟨0, rfl⟩, Or.inl rfl, hsel, hacc⟩
  have hfinal : ∀ (fuel : Nat) (st : Loop K V), LoopInv target dot (joint dot z0 - exp1) eps pos z0 st →
      loop target dot (joint dot z0 - exp1) eps (joint dot z0) fuel st = some st' →
      LoopInv target dot (joint dot z0 - exp1) eps pos z0 st' := by
    intro fuel
    induction fuel with
    | zero => intro st _ h; simp [loop] at h
    | succ f ih =>
      intro st hst h
      simp only [loop] at h
      split at h
      · exact ih _ (doubling_inv target dot _ eps (joint dot z0) pos z0 st hst) h
      · simp only [Option.some.injEq] at h; subst h; exact hst
  exact ⟨(hfinal fuel _ hinv0 h).1, (hfinal fuel _ hinv0 h).2.1⟩

/-- the result of the doubling loop is its argument (no iteration) or the outcome of a doubling -/
theorem loop_result (fuel : Nat) (st st' : Loop K V) (h : loop target dot logu eps joint0 fuel st = some st') :
    st' = st ∨ ∃ st'', st' = doubling target dot logu eps joint0 st'' := by
  induction fuel generalizing st with
  | zero => simp [loop] at h
  | succ f ih =>
    simp only [loop] at h
    split at h
    · rcases ih _ h with h' | h'
      · exact Or.inr ⟨st, h'⟩
      · exact Or.inr h'
    · simp only [Option.some.injEq] at h; exact Or.inl h.symm

/-- **the acceptance statistic of a transition**: `α` and `n_α` reported at the end are those of the subtree built by the
    *last* doubling: `n_α` is the number of its leapfrog points (at least one), `α` the sum of
    `min(1, exp(joint − joint₀))` over them — so `α/n_α` is their mean and lies in `[0, 1]`. -/
theorem transition_statistic (hexp : ∀ x : K, 0 ≤ HasExp.exp x) (pos mom0 : V) (exp1 : K) (dirs sel acc : List K)
    (fuel : Nat) (st' : Loop K V)
    (h : transition target dot eps pos mom0 exp1 dirs sel acc fuel = some st') :
    let z0 : Pt K V := ⟨pos, mom0, (target pos).2, (target pos).1⟩
    ∃ (dirNeg : Bool) (j : Nat) (start : Pt K V) (sel' : List K),
      let t := (buildTree target dot (joint dot z0 - exp1) dirNeg eps (joint dot z0) j start sel').1
      st'.alpha = (t.leaves.map (accTerm dot (joint dot z0))).sum ∧ st'.nalpha = t.leaves.length ∧ 0 < st'.nalpha
      ∧ 0 ≤ st'.alpha / (st'.nalpha : K) ∧ st'.alpha / (st'.nalpha : K) ≤ 1 := by
  intro z0
  unfold transition at h
  simp only at h
  rcases loop_result target dot _ eps _ fuel _ st' h with h0 | ⟨st'', hd⟩
  · -- impossible: the initial state has `s = true`, so at least one doubling runs
    exfalso
    cases fuel with
    | zero => simp [loop] at h
    | succ f =>
      simp only [loop, if_true] at h
      rcases loop_result target dot _ eps _ f _ st' h with h1 | ⟨s2, h2⟩
      · rw [h0] at h1
        have := congrArg Loop.j h1
        simp [doubling] at this
      · rw [h0] at h2
        have := congrArg Loop.j h2
        simp [doubling] at this
        -- `j` of the initial state is 0, `j` after a doubling is positive
  · refine ⟨!(decide (st''.dirs.headD ((0 : Nat) : K) < (halfK : K))), st''.j,
      (if (!(decide (st''.dirs.headD ((0 : Nat) : K) < (halfK : K)))) then st''.minus else st''.plus), st''.sel, ?_⟩
    obtain ⟨c1, _, c3⟩ := buildTree_counts target dot (joint dot z0 - exp1)
      (!(decide (st''.dirs.headD ((0 : Nat) : K) < (halfK : K)))) eps (joint dot z0) st''.j
      (if (!(decide (st''.dirs.headD ((0 : Nat) : K) < (halfK : K)))) then st''.minus else st''.plus) st''.sel
    obtain ⟨_, hne, _, _⟩ := buildTree_leaves_chain target dot (joint dot z0 - exp1)
      (!(decide (st''.dirs.headD ((0 : Nat) : K) < (halfK : K)))) eps (joint dot z0) st''.j
      (if (!(decide (st''.dirs.headD ((0 : Nat) : K) < (halfK : K)))) then st''.minus else st''.plus) st''.sel
    obtain ⟨r1, r2⟩ := buildTree_alpha_range target dot (joint dot z0 - exp1)
      (!(decide (st''.dirs.headD ((0 : Nat) : K) < (halfK : K)))) eps (joint dot z0) hexp st''.j
      (if (!(decide (st''.dirs.headD ((0 : Nat) : K) < (halfK : K)))) then st''.minus else st''.plus) st''.sel
    have ha : st'.alpha = (buildTree target dot (joint dot z0 - exp1)
        (!(decide (st''.dirs.headD ((0 : Nat) : K) < (halfK : K)))) eps (joint dot z0) st''.j
        (if (!(decide (st''.dirs.headD ((0 : Nat) : K) < (halfK : K)))) then st''.minus else st''.plus) st''.sel).1.alpha := by
      rw [hd]; rfl
    have hn : st'.nalpha = (buildTree target dot (joint dot z0 - exp1)
        (!(decide (st''.dirs.headD ((0 : Nat) : K) < (halfK : K)))) eps (joint dot z0) st''.j
        (if (!(decide (st''.dirs.headD ((0 : Nat) : K) < (halfK : K)))) then st''.minus else st''.plus) st''.sel).1.nalpha := by
      rw [hd]; rfl
    simp only
    have hpos : 0 < st'.nalpha := by
      rw [hn, c1]; exact List.length_pos_iff.mpr hne
    have hposK : (0 : K) < (st'.nalpha : K) := by exact_mod_cast hpos
    refine ⟨by rw [ha, c3], by rw [hn, c1], hpos, ?_, ?_⟩
    · apply div_nonneg _ hposK.le; rw [ha]; exact r1
    · rw [div_le_one hposK, ha, hn]; exact r2

end MiniMcmcVerif.NUTS

import MiniMcmcVerif.Props.C11

/-!
# C11 — R-hat increases without bound as chains are moved apart

Moving one (half-)chain away from the others by `t` leaves `W` unchanged and adds `2t(x̄₀ - x̄) + t²(1 - 1/c)` to
`Σ(x̄_j - x̄)²`; hence `rhat²` is a quadratic in `t` with positive leading coefficient and exceeds every bound.
-/

set_option linter.unusedSectionVars false
set_option linter.unusedVariables false

namespace MiniMcmcVerif.Stats

variable {α : Type} [Field α] [LinearOrder α] [IsStrictOrderedRing α]

/-- `Σ (x - mean)² = Σx² - (Σx)²/n` -/
theorem sumSqDev_eq (l : List α) (hne : l ≠ []) :
    (l.map fun x => sq (x - mean l)).sum = (l.map sq).sum - l.sum ^ 2 / (l.length : α) := by
  have hn : (l.length : α) ≠ 0 := by
    have : l.length ≠ 0 := by simpa [List.length_eq_zero_iff] using hne
    exact_mod_cast this
  rw [sum_sq_sub l (mean l)]
  unfold mean
  rw [sum_eq]
  field_simp
  ring

/-- shifting the first entry of a list by `t` -/
theorem sumSqDev_shift_head (a t : α) (l : List α) :
    (((a + t) :: l).map fun x => sq (x - mean ((a + t) :: l))).sum
      = ((a :: l).map fun x => sq (x - mean (a :: l))).sum
        + 2 * t * (a - mean (a :: l)) + t ^ 2 * (1 - 1 / ((l.length : α) + 1)) := by
  have hN : ((l.length : α) + 1) ≠ 0 := by positivity
  rw [sumSqDev_eq _ (by simp), sumSqDev_eq _ (by simp)]
  simp only [List.map_cons, List.sum_cons, List.length_cons, mean, sum_eq, sq]
  push_cast
  field_simp
  ring

/-- the per-row "mean of squared deviations" does not change when the row is shifted -/
theorem row_sq_shift (row : List α) (t : α) (hne : row ≠ []) :
    sum ((row.map (· + t)).map fun v => sq (v - mean (row.map (· + t)))) = sum (row.map fun v => sq (v - mean row)) := by
  have hm : mean (row.map (· + t)) = mean row + t := by
    have := mean_affine row 1 t hne
    simpa using this
  rw [hm]
  simp only [sum_eq, List.map_map, Function.comp_def]
  apply congrArg
  apply List.map_congr_left
  intro v _
  simp only [sq]; ring

/-- **moving one chain by `t`**: `W` is unchanged and `rhat²` changes by an explicit quadratic in `t`. -/
theorem rhatSq_shift (r0 : List α) (rest : List (List α)) (t : α) (hr0 : r0 ≠ []) :
    (withinVar ((r0.map (· + t)) :: rest)).1 = (withinVar (r0 :: rest)).1
    ∧ (withinVar ((r0.map (· + t)) :: rest)).2 = (withinVar (r0 :: rest)).2
        + (2 * t * (mean r0 - mean ((r0 :: rest).map mean)) + t ^ 2 * (1 - 1 / ((rest.length : α) + 1)))
          * ((r0.length : α) / ((rest.length : Nat) : α)) / (r0.length : α) := by
  have hm : mean (r0.map (· + t)) = mean r0 + t := by
    have := mean_affine r0 1 t hr0
    simpa using this
  have hsq : sum (List.map (fun v => sq (v - (mean r0 + t))) (List.map (fun x => x + t) r0))
      = sum (List.map (fun v => sq (v - mean r0)) r0) := by
    rw [← hm]; exact row_sq_shift r0 t hr0
  unfold withinVar
  simp only [List.headD_cons, List.length_map, List.length_cons, List.map_cons, hm, hsq, Nat.add_sub_cancel]
  refine ⟨trivial, ?_⟩
  have key := sumSqDev_shift_head (mean r0) t (rest.map mean)
  simp only [List.length_map, List.map_cons] at key
  simp only [sum_eq] at key ⊢
  rw [key]
  ring

/-- **unbounded**: with at least two chains, `W > 0`, moving the first chain far enough pushes `rhat²` above any `M`. -/
theorem rhat_unbounded (r0 : List α) (rest : List (List α)) (hr0 : r0 ≠ []) (hrest : rest ≠ [])
    (hW : 0 < (withinVar (r0 :: rest)).1) (M : α) :
    ∃ t : α, M < rhatSq ((r0.map (· + t)) :: rest) := by
  set W := (withinVar (r0 :: rest)).1 with hWdef
  set V0 := (withinVar (r0 :: rest)).2 with hV0
  set D := mean r0 - mean ((r0 :: rest).map mean) with hD
  have hc : (0 : α) < (rest.length : α) := by
    have : 0 < rest.length := List.length_pos_iff.mpr hrest
    exact_mod_cast this
  have hn : (0 : α) < (r0.length : α) := by
    have : 0 < r0.length := List.length_pos_iff.mpr hr0
    exact_mod_cast this
  set E := (1 - 1 / ((rest.length : α) + 1)) with hE
  have hEpos : 0 < E := by
    rw [hE]
    have : 1 / ((rest.length : α) + 1) < 1 := by
      rw [div_lt_one (by positivity)]; linarith
    linarith
  -- k = 1 / (c-1) / W  (the factor n/(c-1)/n simplifies to 1/(c-1))
  set k := 1 / ((rest.length : α)) / W with hk
  have hkpos : 0 < k := by rw [hk]; positivity
  have hform : ∀ t, rhatSq ((r0.map (· + t)) :: rest) = V0 / W + (2 * t * D + t ^ 2 * E) * k := by
    intro t
    obtain ⟨h1, h2⟩ := rhatSq_shift r0 rest t hr0
    unfold rhatSq
    simp only
    rw [h1, h2]
    simp only [← hWdef, ← hV0, ← hD, ← hE, hk]
    field_simp
  -- choose t ≥ 1 large enough
  set y := (|M - V0 / W| + 1) / k with hy
  have hypos : 0 < y := by rw [hy]; positivity
  set t := max 1 ((2 * |D| + y) / E) with ht
  refine ⟨t, ?_⟩
  rw [hform t]
  have ht1 : 1 ≤ t := le_max_left _ _
  have ht2 : (2 * |D| + y) / E ≤ t := le_max_right _ _
  have hEt : 2 * |D| + y ≤ E * t := by
    have := (div_le_iff₀ hEpos).mp ht2
    linarith
  have hq : y ≤ 2 * t * D + t ^ 2 * E := by
    have hD1 : -|D| ≤ D := neg_abs_le D
    have h1 : t * (E * t - 2 * |D|) ≤ 2 * t * D + t ^ 2 * E := by nlinarith
    have h2 : y ≤ E * t - 2 * |D| := by linarith
    have h3 : y ≤ t * (E * t - 2 * |D|) := by nlinarith
    linarith
  have hky : |M - V0 / W| + 1 ≤ (2 * t * D + t ^ 2 * E) * k := by
    have : y * k = |M - V0 / W| + 1 := by rw [hy]; field_simp
    calc |M - V0 / W| + 1 = y * k := this.symm
      _ ≤ (2 * t * D + t ^ 2 * E) * k := by exact mul_le_mul_of_nonneg_right hq hkpos.le
  have : M - V0 / W ≤ |M - V0 / W| := le_abs_self _
  linarith

end MiniMcmcVerif.Stats

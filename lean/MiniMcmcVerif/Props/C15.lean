import MiniMcmcVerif.Model.Dist
import Mathlib.Analysis.SpecialFunctions.Log.Basic
import Mathlib.Analysis.SpecialFunctions.Sqrt
import Mathlib.Analysis.SpecialFunctions.Trigonometric.Basic
import Mathlib.Tactic.LinearCombination
import Mathlib.Tactic.Positivity
import Mathlib.Analysis.Calculus.Deriv.Pow
import Mathlib.Analysis.Calculus.Deriv.Mul
import Mathlib.Analysis.Calculus.Deriv.Add
import Mathlib.Tactic.Ring
import Mathlib.Tactic.FieldSimp
import Mathlib.Tactic.Linarith

/-!
# C15 — built-in densities, gradients and the proposal density match their definitions (over ℝ)
-/

namespace MiniMcmcVerif.Dist

noncomputable instance : Transc ℝ := ⟨Real.log, Real.pi⟩

@[simp] theorem two_real : (two : ℝ) = 2 := by simp [two]
@[simp] theorem half_real : (half : ℝ) = 1 / 2 := by simp [half]

/-- **normalised − unnormalised = constant**: the two forms of the 2-D Gaussian differ by `-ln(2π) - ½ ln|Σ|`,
    whatever the point. -/
theorem gauss2d_norm_minus_unnorm_const (s : Cov2 ℝ) (absdet m0 m1 x0 x1 : ℝ) :
    gauss2dLogp s absdet m0 m1 x0 x1 - gauss2dUnnorm s m0 m1 x0 x1
      = -Real.log (2 * Real.pi) - (1 / 2) * Real.log absdet := by
  simp only [gauss2dLogp, gauss2dUnnorm, Transc.ln, Transc.pi, two_real, half_real]
  ring

/-- the quadratic form is the Mahalanobis form `δᵀ Σ⁻¹ δ` with the closed-form 2×2 inverse. -/
theorem quad2_eq (s : Cov2 ℝ) (m0 m1 x0 x1 : ℝ) (hdet : s.det ≠ 0) :
    quad2 s m0 m1 x0 x1
      = (s.d * (x0 - m0) ^ 2 - (s.b + s.c) * (x0 - m0) * (x1 - m1) + s.a * (x1 - m1) ^ 2) / s.det := by
  simp only [quad2]
  field_simp
  ring

/-- the inverse computed by `DiffableGaussian2D::new` is the inverse of the covariance. -/
theorem dgNew_inverse (s : Cov2 ℝ) (hdet : s.det ≠ 0) :
    let g := dgNew s
    s.a * g.i00 + s.b * g.i10 = 1 ∧ s.a * g.i01 + s.b * g.i11 = 0
    ∧ s.c * g.i00 + s.d * g.i10 = 0 ∧ s.c * g.i01 + s.d * g.i11 = 1 := by
  have h : s.a * s.d - s.b * s.c ≠ 0 := hdet
  have hD : (s.a * s.d - s.b * s.c) * (1 / (s.a * s.d - s.b * s.c)) = 1 := by field_simp
  simp only [dgNew, Cov2.det, Nat.cast_one]
  refine ⟨?_, ?_, ?_, ?_⟩
  · linear_combination hD
  · ring
  · ring
  · linear_combination hD

/-- `norm_const = -ln(2π) - ½ ln det` (the 2-D Gaussian normalising constant). -/
theorem dgNew_normConst (s : Cov2 ℝ) :
    (dgNew s).normConst = -Real.log (2 * Real.pi) - (1 / 2) * Real.log s.det := by
  simp only [dgNew, Transc.ln, Transc.pi, two_real]
  ring

/-- **batched and single-point evaluations agree row by row**. -/
theorem diffable_batch_rowwise (g : DG ℝ) (m0 m1 : ℝ) (rows : List (ℝ × ℝ)) :
    dgBatch g m0 m1 rows = rows.map fun r => dgSingle g m0 m1 r.1 r.2 := by
  unfold dgBatch
  apply List.map_congr_left
  intro r _
  simp only [dgBatchRow, dgSingle]
  ring

/-- the batched form is the normalised 2-D Gaussian log-density (hence equals `Gaussian2D`'s normalised form). -/
theorem dg_eq_gauss2d (s : Cov2 ℝ) (m0 m1 x0 x1 : ℝ) (hdet : s.det ≠ 0) :
    dgSingle (dgNew s) m0 m1 x0 x1 = gauss2dLogp s s.det m0 m1 x0 x1 := by
  have h : s.a * s.d - s.b * s.c ≠ 0 := hdet
  simp only [dgSingle, dgQuad, dgNew, gauss2dLogp, quad2, Cov2.det, Transc.ln, Transc.pi, two_real, half_real]
  field_simp
  ring

/-- **the gradient handed to HMC/NUTS is the true gradient** (2-D Gaussian, coordinate-wise). -/
theorem gaussian_hasGradient (g : DG ℝ) (m0 m1 x0 x1 : ℝ) :
    HasDerivAt (fun t => dgSingle g m0 m1 t x1) (dgGrad g m0 m1 x0 x1).1 x0
    ∧ HasDerivAt (fun t => dgSingle g m0 m1 x0 t) (dgGrad g m0 m1 x0 x1).2 x1 := by
  constructor
  · have hd : HasDerivAt (fun t : ℝ => t - m0) 1 x0 := (hasDerivAt_id' x0).sub_const m0
    have h : HasDerivAt (fun t : ℝ => -(((t - m0) * g.i00 + (x1 - m1) * g.i10) * (t - m0)
        + ((t - m0) * g.i01 + (x1 - m1) * g.i11) * (x1 - m1)) * (1 / 2) + g.normConst)
        (-(((1 * g.i00) * (x0 - m0) + ((x0 - m0) * g.i00 + (x1 - m1) * g.i10) * 1) + (1 * g.i01) * (x1 - m1)) * (1 / 2)) x0 :=
      ((((((hd.mul_const g.i00).add_const ((x1 - m1) * g.i10)).mul hd).add
        (((hd.mul_const g.i01).add_const ((x1 - m1) * g.i11)).mul_const (x1 - m1))).neg).mul_const (1 / 2 : ℝ)).add_const g.normConst
    have hf : (fun t => dgSingle g m0 m1 t x1) = fun t : ℝ => -(((t - m0) * g.i00 + (x1 - m1) * g.i10) * (t - m0)
        + ((t - m0) * g.i01 + (x1 - m1) * g.i11) * (x1 - m1)) * (1 / 2) + g.normConst := by
      funext t; simp only [dgSingle, dgQuad, half_real]; ring
    rw [hf]
    refine h.congr_deriv ?_
    simp only [dgGrad, two_real, half_real]
    ring
  · have hd : HasDerivAt (fun t : ℝ => t - m1) 1 x1 := (hasDerivAt_id' x1).sub_const m1
    have h : HasDerivAt (fun t : ℝ => -(((x0 - m0) * g.i00 + (t - m1) * g.i10) * (x0 - m0)
        + ((x0 - m0) * g.i01 + (t - m1) * g.i11) * (t - m1)) * (1 / 2) + g.normConst)
        (-(((1 * g.i10) * (x0 - m0)) + ((1 * g.i11) * (x1 - m1) + ((x0 - m0) * g.i01 + (x1 - m1) * g.i11) * 1)) * (1 / 2)) x1 :=
      ((((((hd.mul_const g.i10).const_add ((x0 - m0) * g.i00)).mul_const (x0 - m0)).add
        (((hd.mul_const g.i11).const_add ((x0 - m0) * g.i01)).mul hd)).neg).mul_const (1 / 2 : ℝ)).add_const g.normConst
    have hf : (fun t => dgSingle g m0 m1 x0 t) = fun t : ℝ => -(((x0 - m0) * g.i00 + (t - m1) * g.i10) * (x0 - m0)
        + ((x0 - m0) * g.i01 + (t - m1) * g.i11) * (t - m1)) * (1 / 2) + g.normConst := by
      funext t; simp only [dgSingle, dgQuad, half_real]; ring
    rw [hf]
    refine h.congr_deriv ?_
    simp only [dgGrad, two_real, half_real]
    ring

/-- **Rosenbrock 2-D**: the closed-form gradient is the derivative, coordinate-wise. -/
theorem rosenbrock2d_hasGradient (a b x y : ℝ) :
    HasDerivAt (fun t => rosen2d a b t y) (rosen2dGrad a b x y).1 x
    ∧ HasDerivAt (fun t => rosen2d a b x t) (rosen2dGrad a b x y).2 y := by
  constructor
  · have hid : HasDerivAt (fun t : ℝ => t) 1 x := hasDerivAt_id' x
    have h1 : HasDerivAt (fun t : ℝ => a - t) (-1) x := hid.const_sub a
    have h2 : HasDerivAt (fun t : ℝ => y - t * t) (-(1 * x + x * 1)) x := (hid.mul hid).const_sub y
    have h3 : HasDerivAt (fun t : ℝ => -((a - t) * (a - t) + (y - t * t) * (y - t * t) * b))
        (-(-1 * (a - x) + (a - x) * -1 + (-(1 * x + x * 1) * (y - x * x) + (y - x * x) * -(1 * x + x * 1)) * b)) x :=
      ((h1.mul h1).add ((h2.mul h2).mul_const b)).neg
    unfold rosen2d
    refine h3.congr_deriv ?_
    simp only [rosen2dGrad, two_real]
    push_cast
    ring
  · have hid : HasDerivAt (fun t : ℝ => t) 1 y := hasDerivAt_id' y
    have h2 : HasDerivAt (fun t : ℝ => t - x * x) 1 y := hid.sub_const (x * x)
    have h3 : HasDerivAt (fun t : ℝ => -((a - x) * (a - x) + (t - x * x) * (t - x * x) * b))
        (-(0 + (1 * (y - x * x) + (y - x * x) * 1) * b)) y :=
      ((hasDerivAt_const y ((a - x) * (a - x))).add ((h2.mul h2).mul_const b)).neg
    unfold rosen2d
    refine h3.congr_deriv ?_
    simp only [rosen2dGrad, two_real]
    ring

/-! ### the isotropic Gaussian proposal -/

/-- the per-coordinate normal log-density `ln N(t; f, σ²)` -/
noncomputable def lnNormal (f sigma t : ℝ) : ℝ := -((t - f) ^ 2) / (2 * sigma ^ 2) - (1 / 2) * Real.log (2 * Real.pi * sigma ^ 2)

theorem foldl_add_eq_sum (l : List ℝ) : l.foldl (· + ·) 0 = l.sum := by
  rw [List.sum_eq_foldl]

/-- **`logp(from, to)` is the normalised log-density of `N(from, σ² I)` at `to`**: the sum over coordinates of the
    one-dimensional normal log-densities with mean `from_i` and standard deviation `std`. -/
theorem iso_logp_eq_normal (std : ℝ) (from_ to_ : List ℝ) (hlen : from_.length = to_.length) :
    isoLogp std from_ to_ = (List.zipWith (fun f t => lnNormal f std t) from_ to_).sum := by
  simp only [isoLogp, Transc.ln, Transc.pi, two_real, half_real, foldl_add_eq_sum]
  induction from_ generalizing to_ with
  | nil => cases to_ <;> simp_all
  | cons f fs ih =>
    cases to_ with
    | nil => simp at hlen
    | cons t ts =>
      simp only [List.length_cons, Nat.add_right_cancel_iff] at hlen
      have := ih ts hlen
      simp only [List.zipWith_cons_cons, List.sum_cons, List.length_cons]
      rw [← this]
      simp only [lnNormal]
      push_cast
      ring

/-- **symmetry** in the two arguments (equal lengths). -/
theorem iso_logp_symm (std : ℝ) (x y : List ℝ) (hlen : x.length = y.length) : isoLogp std x y = isoLogp std y x := by
  rw [iso_logp_eq_normal std x y hlen, iso_logp_eq_normal std y x hlen.symm]
  induction x generalizing y with
  | nil => cases y <;> simp_all
  | cons a as ih =>
    cases y with
    | nil => simp at hlen
    | cons b bs =>
      simp only [List.length_cons, Nat.add_right_cancel_iff] at hlen
      simp only [List.zipWith_cons_cons, List.sum_cons, ih bs hlen]
      congr 1
      simp only [lnNormal]; ring

/-- `exp (lnNormal f σ t)` is the normal density `(2πσ²)^{-1/2} · exp(-(t-f)²/(2σ²))`. -/
theorem exp_lnNormal (f sigma t : ℝ) (hs : sigma ≠ 0) :
    Real.exp (lnNormal f sigma t)
      = (Real.sqrt (2 * Real.pi * sigma ^ 2))⁻¹ * Real.exp (-((t - f) ^ 2) / (2 * sigma ^ 2)) := by
  have hpos : 0 < 2 * Real.pi * sigma ^ 2 := by positivity
  unfold lnNormal
  rw [Real.exp_sub, div_eq_inv_mul]
  congr 1
  rw [show (1 / 2 : ℝ) * Real.log (2 * Real.pi * sigma ^ 2) = Real.log (Real.sqrt (2 * Real.pi * sigma ^ 2)) by
    rw [Real.log_sqrt hpos.le]; ring]
  rw [Real.exp_log (Real.sqrt_pos.mpr hpos)]

/-! non-vacuity -/
example : rosen2d (1 : ℝ) 100 1 1 = 0 := by norm_num [rosen2d]
example : (rosen2dGrad (1 : ℝ) 100 1 1) = (0, 0) := by norm_num [rosen2dGrad, two]

end MiniMcmcVerif.Dist

import MiniMcmcVerif.Props.C01Measure
import MiniMcmcVerif.Props.C02
import MiniMcmcVerif.Props.C03Uniform
import MiniMcmcVerif.Props.C05Invariance
import MiniMcmcVerif.Props.C08
import MiniMcmcVerif.Props.C09
import MiniMcmcVerif.Props.C06Involutive
import MiniMcmcVerif.Props.C05Stale
import MiniMcmcVerif.Props.C06Measure

/-!
# C06 — long-run averages converge to the target's expectations

C06 is the end-to-end consequence of facts proved elsewhere, *given* that the random draws have the laws the algorithms
require. This module only collects the theorems that constitute its logical content, so that the C06 check audits them
together:

* the MH kernel satisfies detailed balance and leaves the target stationary (`MH.mh_stationary`), its rule accepts with
  probability `min 1 eʳ` under a uniform draw (`MH.accept_probability`);
* a Gibbs sweep of full-conditional updates leaves the joint invariant (`Gibbs.gibbs_sweep_invariant`);
* the HMC proposal is `L` steps of a time-reversible integrator followed by a Metropolis test on the Hamiltonian
  (`HMC.verlet_reversible`, `HMC.hmc_step_result`); a Metropolis step with such a deterministic involutive proposal
  leaves every non-negative weight invariant on a finite phase space, jointly and for the position marginal
  (`HMC.involutive_mh_invariant`, `HMC.hmc_verlet_invariant`, `HMC.hmc_position_marginal_invariant`);
* the NUTS candidate is uniform among the admissible points of a subtree (`NUTS.selection_uniform`);
* under a uniform draw the coded comparisons realise the required probabilities (`Props/C06Measure.lean`): the HMC test
  `ln u ≤ ΔH` accepts with probability `min 1 (exp ΔH)` (`HMC.hmc_accept_probability`), a NUTS test `u < r` succeeds with
  probability `r` clipped to `[0,1]` (`NUTS.uniform_lt_probability`), and `−log U` has the Exp(1) tail, so the coded slice
  level `joint₀ − Exp(1)` has the law of `log(U·exp(joint₀))` (`NUTS.neg_log_uniform_tail`);
* `run` returns the iterates after burn-in (`Run.runChain_spec`), chains use distinct streams
  (`Seeds.mh_chain_streams_distinct`).

What these theorems do **not** give — that the draws really are N(0,1) / U(0,1) / Exp(1) and serially independent, and
that the pooled estimates of long runs stay within Monte-Carlo error — is examined by the C06 harness (calibrated,
deterministic-per-seed tests); that part is validation, not proof.
-/

namespace MiniMcmcVerif.C06

/-- the stationarity facts, restated together (finite state space for MH, finite alphabets for Gibbs). -/
theorem kernels_leave_target_invariant
    {ι : Type} [Fintype ι] [DecidableEq ι] {K : Type} [Field K] [LinearOrder K] [IsStrictOrderedRing K]
    (π : ι → K) (Q : ι → ι → K) (hπ : ∀ x, 0 ≤ π x) (hQ : ∀ x y, 0 ≤ Q x y)
    {d : Nat} {κ : Type} [Fintype κ] [DecidableEq κ] (ρ : (Fin d → κ) → K) (hρ : ∀ x, 0 ≤ ρ x) (order : List (Fin d)) :
    (∀ y, ∑ x, π x * MH.trans π Q x y = π y)
    ∧ (∀ y, ∑ x, ρ x * Gibbs.sweepKernel ρ order x y = ρ y) :=
  ⟨MH.mh_stationary π Q hπ hQ, Gibbs.gibbs_sweep_invariant ρ hρ order⟩

end MiniMcmcVerif.C06

import MiniMcmcVerif.Props.C16
import Mathlib.MeasureTheory.Measure.Lebesgue.Basic

/-!
# C16 — "samples follow `probs`" as a statement about Lebesgue measure

For non-negative probabilities summing to one, the set of variates `r ∈ [0,1)` that the inverse-CDF scan maps to
category `j` has Lebesgue measure exactly `p_j`.
-/

namespace MiniMcmcVerif.Categorical

open MeasureTheory

/-- every `r` in `[0, Σp)` lies in exactly one cumulative-sum interval -/
theorem exists_region (probs : List ℝ) (hp : ∀ p ∈ probs, 0 ≤ p) (r : ℝ) (h0 : 0 ≤ r) (h1 : r < probs.sum) :
    ∃ j, j < probs.length ∧ (probs.take j).sum ≤ r ∧ r < (probs.take (j + 1)).sum := by
  induction probs using List.reverseRecOn with
  | nil => simp at h1; linarith
  | append_singleton ps p ih =>
    rw [List.sum_append, List.sum_singleton] at h1
    by_cases hr : r < ps.sum
    · obtain ⟨j, hj, hl, hh⟩ := ih (fun q hq => hp q (List.mem_append_left _ hq)) hr
      refine ⟨j, by simp; omega, ?_, ?_⟩
      · rw [List.take_append_of_le_length (by omega)]; exact hl
      · rw [List.take_append_of_le_length (by omega)]; exact hh
    · push Not at hr
      refine ⟨ps.length, by simp, ?_, ?_⟩
      · rw [List.take_append_of_le_length (le_refl _), List.take_length]; exact hr
      · rw [List.take_of_length_le (by simp), List.sum_append, List.sum_singleton]; exact h1

/-- the preimage of category `j` under the scan, inside `[0, 1)`, is the `j`-th cumulative-sum interval -/
theorem preimage_eq (probs : List ℝ) (hp : ∀ p ∈ probs, 0 ≤ p) (hsum : probs.sum = 1) (j : Nat) (hj : j < probs.length) :
    {r : ℝ | 0 ≤ r ∧ r < 1 ∧ sampleIdx probs r = j} = Set.Ico (probs.take j).sum (probs.take (j + 1)).sum := by
  have hmono : ∀ k, (probs.take k).sum ≤ (probs.take (k + 1)).sum := by
    intro k
    by_cases hk : k < probs.length
    · rw [List.take_succ_eq_append_getElem hk, List.sum_append, List.sum_singleton]
      linarith [hp probs[k] (List.getElem_mem hk)]
    · rw [List.take_of_length_le (by omega), List.take_of_length_le (by omega)]
  have hnn : ∀ k, 0 ≤ (probs.take k).sum := fun k => List.sum_nonneg fun q hq => hp q (List.mem_of_mem_take hq)
  have hle1 : ∀ k, (probs.take k).sum ≤ 1 := by
    intro k
    rw [← hsum]
    conv_rhs => rw [← List.take_append_drop k probs, List.sum_append]
    linarith [List.sum_nonneg (fun q hq => hp q (List.mem_of_mem_drop hq) : ∀ q ∈ probs.drop k, 0 ≤ q)]
  ext r
  simp only [Set.mem_ofPred_eq, Set.mem_Ico]
  constructor
  · rintro ⟨h0, h1, hs⟩
    obtain ⟨k, hk, hl, hh⟩ := exists_region probs hp r h0 (by rw [hsum]; exact h1)
    have := sample_region probs hp r k hk hl hh
    rw [hs] at this
    subst this
    exact ⟨hl, hh⟩
  · rintro ⟨hl, hh⟩
    exact ⟨le_trans (hnn j) hl, lt_of_lt_of_le hh (hle1 (j + 1)), sample_region probs hp r j hj hl hh⟩

/-- **category `j` is drawn with probability `p_j`** under a uniform variate on `[0,1)` -/
theorem sample_probability (probs : List ℝ) (hp : ∀ p ∈ probs, 0 ≤ p) (hsum : probs.sum = 1) (j : Nat) (hj : j < probs.length) :
    volume {r : ℝ | 0 ≤ r ∧ r < 1 ∧ sampleIdx probs r = j} = ENNReal.ofReal probs[j] := by
  rw [preimage_eq probs hp hsum j hj, Real.volume_Ico, region_length probs j hj]

end MiniMcmcVerif.Categorical

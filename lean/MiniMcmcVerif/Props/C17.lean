import MiniMcmcVerif.Model.IO
import Mathlib.Tactic.Linarith
import Mathlib.Tactic.Ring

/-!
# C17 — export writers: one row per (chain, observation) cell, documented labels, exactly the stored values
-/

set_option linter.unusedVariables false

namespace MiniMcmcVerif.IO

variable {α β : Type}

theorem length_flatMap_const (f : Nat → List β) (N : Nat) (hN : ∀ c, (f c).length = N) (C : Nat) :
    ((List.range C).flatMap f).length = C * N := by
  induction C with
  | zero => simp
  | succ C ih => rw [List.range_succ, List.flatMap_append, List.length_append, ih]; simp [hN, Nat.succ_mul]

/-- indexing a `flatMap` whose blocks all have length `N`. -/
theorem getElem_flatMap_const (f : Nat → List β) (N : Nat) (hN : ∀ c, (f c).length = N) (C c o : Nat)
    (hc : c < C) (ho : o < N) (h : c * N + o < ((List.range C).flatMap f).length) :
    ((List.range C).flatMap f)[c * N + o] = (f c)[o]'(by rw [hN]; exact ho) := by
  induction C with
  | zero => omega
  | succ C ih =>
    have hlen := length_flatMap_const f N hN C
    simp only [List.range_succ, List.flatMap_append, List.flatMap_cons, List.flatMap_nil, List.append_nil]
    by_cases hcC : c < C
    · have hlt : c * N + o < ((List.range C).flatMap f).length := by
        rw [hlen]
        have : (c + 1) * N ≤ C * N := Nat.mul_le_mul_right N hcC
        rw [Nat.succ_mul] at this; omega
      rw [List.getElem_append_left hlt]
      exact ih hcC hlt
    · have hcC' : c = C := by omega
      subst hcC'
      rw [List.getElem_append_right (by rw [hlen]; omega)]
      simp only [hlen, Nat.add_sub_cancel_left]

/-- the slice taken for cell `(c, o)` lies inside a buffer of `C·N·K` elements: the writers never index out of bounds. -/
theorem offset_in_bounds (C N K c o : Nat) (hc : c < C) (ho : o < N) :
    c * N * K + o * K + K ≤ C * N * K := by
  have h1 : (o + 1) * K ≤ N * K := Nat.mul_le_mul_right K ho
  have h2 : (c + 1) * (N * K) ≤ C * (N * K) := Nat.mul_le_mul_right (N * K) hc
  have e1 : (o + 1) * K = o * K + K := Nat.succ_mul o K
  have e2 : (c + 1) * (N * K) = c * N * K + N * K := by rw [Nat.succ_mul, Nat.mul_assoc]
  have e3 : C * (N * K) = C * N * K := (Nat.mul_assoc C N K).symm
  omega

/-- the flat offset map `(c, o, d) ↦ c·N·K + o·K + d` is injective on the index box: no element is exported twice,
    and (with `offset_in_bounds` and the row count) every element exactly once. -/
theorem offset_injective (N K c o d c' o' d' : Nat) (ho : o < N) (hd : d < K) (ho' : o' < N) (hd' : d' < K)
    (h : c * N * K + o * K + d = c' * N * K + o' * K + d') : c = c' ∧ o = o' ∧ d = d' := by
  have e : ∀ c o d : Nat, c * N * K + o * K + d = (c * N + o) * K + d := by intro c o d; ring
  rw [e, e] at h
  have hK : 0 < K := by omega
  have h1 : ((c * N + o) * K + d) / K = c * N + o := by
    rw [Nat.add_comm, Nat.add_mul_div_right _ _ hK, Nat.div_eq_of_lt hd, Nat.zero_add]
  have h2 : ((c' * N + o') * K + d') / K = c' * N + o' := by
    rw [Nat.add_comm, Nat.add_mul_div_right _ _ hK, Nat.div_eq_of_lt hd', Nat.zero_add]
  have h3 : c * N + o = c' * N + o' := by rw [← h1, ← h2, h]
  have hN : 0 < N := by omega
  have h4 : (c * N + o) / N = c := by
    rw [Nat.add_comm, Nat.add_mul_div_right _ _ hN, Nat.div_eq_of_lt ho, Nat.zero_add]
  have h5 : (c' * N + o') / N = c' := by
    rw [Nat.add_comm, Nat.add_mul_div_right _ _ hN, Nat.div_eq_of_lt ho', Nat.zero_add]
  have hc : c = c' := by rw [← h4, ← h5, h3]
  subst hc
  have ho2 : o = o' := by omega
  subst ho2
  refine ⟨rfl, rfl, ?_⟩
  omega

/-- the offset map is **onto** the buffer: every element `k < C·N·K` of the row-major buffer is the `dim_d` entry of some
    cell `(c, o)` of the index box — together with `offset_injective`, every element is exported exactly once. -/
theorem offset_surjective (C N K k : Nat) (hk : k < C * N * K) :
    ∃ c o d, c < C ∧ o < N ∧ d < K ∧ c * N * K + o * K + d = k := by
  have hK : 0 < K := by
    rcases Nat.eq_zero_or_pos K with h | h
    · subst h; simp at hk
    · exact h
  have hN : 0 < N := by
    rcases Nat.eq_zero_or_pos N with h | h
    · subst h; simp at hk
    · exact h
  refine ⟨k / K / N, k / K % N, k % K, ?_, Nat.mod_lt _ hN, Nat.mod_lt _ hK, ?_⟩
  · rw [Nat.div_div_eq_div_mul, Nat.div_lt_iff_lt_mul (by positivity)]
    calc k < C * N * K := hk
      _ = C * (K * N) := by ring
  · have e1 : k / K / N * N + k / K % N = k / K := by
      rw [Nat.mul_comm]; exact Nat.div_add_mod _ _
    have e2 : k / K * K + k % K = k := by
      rw [Nat.mul_comm]; exact Nat.div_add_mod _ _
    calc k / K / N * N * K + k / K % N * K + k % K
        = (k / K / N * N + k / K % N) * K + k % K := by ring
      _ = k := by rw [e1, e2]

/-- exactly `C·N` rows (also for zero-sized axes). -/
theorem rows_count (C N K : Nat) (flat : List α) : (rowsChainMajor C N K flat).length = C * N := by
  unfold rowsChainMajor
  exact length_flatMap_const _ N (by intro c; simp) C

/-- **row `(c, o)`** sits at position `c·N + o` (chain-major order), carries the labels `(c, o)` and its `dim_d` entry
    is element `(c, o, d)` of the row-major array. -/
theorem rows_spec (C N K : Nat) (flat : List α) (hflat : flat.length = C * N * K) (c o : Nat) (hc : c < C) (ho : o < N) :
    ∃ h : c * N + o < (rowsChainMajor C N K flat).length,
      (rowsChainMajor C N K flat)[c * N + o] = ⟨c, o, slice flat (c * N * K + o * K) K⟩
      ∧ (slice flat (c * N * K + o * K) K).length = K
      ∧ ∀ d (hd : d < K), (slice flat (c * N * K + o * K) K)[d]? = flat[c * N * K + o * K + d]? := by
  have hlen := rows_count C N K flat
  have hidx : c * N + o < C * N := by
    have : (c + 1) * N ≤ C * N := Nat.mul_le_mul_right N hc
    rw [Nat.succ_mul] at this; omega
  refine ⟨by rw [hlen]; exact hidx, ?_, ?_, ?_⟩
  · unfold rowsChainMajor
    rw [getElem_flatMap_const _ N (by intro c; simp) C c o hc ho]
    simp
  · have := offset_in_bounds C N K c o hc ho
    simp only [slice, List.length_take, List.length_drop, hflat]
    omega
  · intro d hd
    simp only [slice, List.getElem?_take, hd, if_true, List.getElem?_drop]

theorem rows_obs_major_count (N C K : Nat) (flat : List α) : (rowsObsMajor N C K flat).length = N * C := by
  unfold rowsObsMajor
  exact length_flatMap_const _ C (by intro c; simp) N

/-- the observation-major twin (`save_parquet_tensor`: tensor `[observation, chain, dim]`, labels `(observation, chain)`). -/
theorem rows_obs_major_spec (N C K : Nat) (flat : List α) (hflat : flat.length = N * C * K) (o c : Nat) (ho : o < N) (hc : c < C) :
    ∃ h : o * C + c < (rowsObsMajor N C K flat).length,
      (rowsObsMajor N C K flat)[o * C + c] = ⟨o, c, slice flat (o * C * K + c * K) K⟩
      ∧ (slice flat (o * C * K + c * K) K).length = K
      ∧ ∀ d (hd : d < K), (slice flat (o * C * K + c * K) K)[d]? = flat[o * C * K + c * K + d]? := by
  have hlen := rows_obs_major_count N C K flat
  have hidx : o * C + c < N * C := by
    have : (o + 1) * C ≤ N * C := Nat.mul_le_mul_right C ho
    rw [Nat.succ_mul] at this; omega
  refine ⟨by rw [hlen]; exact hidx, ?_, ?_, ?_⟩
  · unfold rowsObsMajor
    rw [getElem_flatMap_const _ C (by intro c; simp) N o c ho hc]
    simp
  · have := offset_in_bounds N C K o c ho hc
    simp only [slice, List.length_take, List.length_drop, hflat]
    omega
  · intro d hd
    simp only [slice, List.getElem?_take, hd, if_true, List.getElem?_drop]

/-- header: `chain, observation, dim_0 … dim_{K-1}` — `2 + K` columns. -/
theorem header_spec (K : Nat) : (header K).length = 2 + K ∧ (header K)[0]? = some "chain" ∧ (header K)[1]? = some "observation"
    ∧ ∀ d, d < K → (header K)[2 + d]? = some ("dim_" ++ toString d) := by
  refine ⟨by simp [header, dimNames]; omega, by simp [header], by simp [header], ?_⟩
  intro d hd
  have e : 2 + d = d + 1 + 1 := by omega
  simp only [header, dimNames, e, List.cons_append, List.nil_append, List.getElem?_cons_succ]
  simp [hd]

theorem header_obs_major_spec (K : Nat) : (headerObsMajor K).length = 2 + K ∧ (headerObsMajor K)[0]? = some "observation"
    ∧ (headerObsMajor K)[1]? = some "chain" := by
  refine ⟨by simp [headerObsMajor, dimNames]; omega, by simp [headerObsMajor], by simp [headerObsMajor]⟩

/-! non-vacuity -/
example : rowsChainMajor 2 2 2 [0, 1, 2, 3, 4, 5, 6, 7]
    = [⟨0, 0, [0, 1]⟩, ⟨0, 1, [2, 3]⟩, ⟨1, 0, [4, 5]⟩, ⟨1, 1, [6, 7]⟩] := by decide
example : rowsObsMajor 2 1 3 [0, 1, 2, 3, 4, 5] = [⟨0, 0, [0, 1, 2]⟩, ⟨1, 0, [3, 4, 5]⟩] := by decide
example : rowsChainMajor 0 5 3 ([] : List Nat) = [] ∧ rowsChainMajor 2 0 3 ([] : List Nat) = [] := by decide
example : rowsArray3 [[[1, 2], [3, 4]], [[5, 6], [7, 8]]] = rowsChainMajor 2 2 2 [1, 2, 3, 4, 5, 6, 7, 8] := by decide

end MiniMcmcVerif.IO

import MiniMcmcVerif.Model.NUTS
import MiniMcmcVerif.Props.C04
import Mathlib.Algebra.Order.Field.Basic
import Mathlib.Tactic.Positivity
import Mathlib.Tactic.Ring
import Mathlib.Tactic.FieldSimp

/-!
# C04 — the first-use step size from `find_reasonable_epsilon` is a (positive) power of two

`find_reasonable_epsilon` is the only place where the step size is produced without the clamp of fix aad1add. Whenever
it returns (its two `while` loops are modelled with fuel), the value it returns is `(1/2)^(h+1) · 2^c` or
`(1/2)^(h+1) · (1/2)^c` where `h` / `c` are the numbers of iterations of the halving / crossing loop — for every
target, start point, momentum, every `ln`, every finiteness test, over every ordered field. In particular it is
strictly positive, so `μ = ln(10 ε₀)` of `init_chain` is taken at a positive argument.
-/

set_option linter.unusedSectionVars false
set_option linter.unusedVariables false

namespace MiniMcmcVerif.NUTS

variable {K V : Type} [Field K] [LinearOrder K] [IsStrictOrderedRing K] [HasLnFin K] [Add V] [Sub V] [SMul K V]

theorem halfK_eq : (halfK : K) = 1 / 2 := by unfold halfK; push_cast; rfl

/-- the halving loop multiplies `k` by `1/2` once per iteration -/
theorem halve_spec (target : V → K × V) (z0 : Pt K V) (gradBad : Bool) (fuel : Nat) (k : K) (z : Pt K V)
    (k' : K) (z' : Pt K V)
    (h : findReasonableEps.halve target ((1 : Nat) : K) z0 gradBad fuel k z = some (k', z')) :
    ∃ n : Nat, k' = k * (1 / 2) ^ n := by
  induction fuel generalizing k z with
  | zero => simp [findReasonableEps.halve] at h
  | succ f ih =>
    unfold findReasonableEps.halve at h
    split at h
    · obtain ⟨n, hn⟩ := ih _ _ h
      refine ⟨n + 1, ?_⟩
      rw [hn, halfK_eq]; ring
    · simp only [Option.some.injEq, Prod.mk.injEq] at h
      exact ⟨0, by simp [h.1]⟩

/-- the crossing loop multiplies `ε` by `2` (when the first acceptance probability exceeds 1/2) or by `1/2`
    (otherwise) once per iteration -/
theorem cross_spec (target : V → K × V) (z0 : Pt K V) (logAcc : Pt K V → K) (aPos : Bool) (a : K) (fuel : Nat)
    (eps la e : K)
    (h : findReasonableEps.cross target ((2 : Nat) : K) z0 logAcc aPos a fuel eps la = some e) :
    ∃ n : Nat, e = eps * (if aPos then (2 : K) else 1 / 2) ^ n := by
  induction fuel generalizing eps la with
  | zero => simp [findReasonableEps.cross] at h
  | succ f ih =>
    unfold findReasonableEps.cross at h
    split at h
    · obtain ⟨n, hn⟩ := ih _ _ h
      refine ⟨n + 1, ?_⟩
      rw [hn]
      cases aPos <;> simp [halfK_eq] <;> ring
    · simp only [Option.some.injEq] at h
      exact ⟨0, by simp [h]⟩

/-- **the heuristic's result is `(1/2)^(h+1)` times `c` doublings or `c` halvings** -/
theorem findReasonableEps_form (target : V → K × V) (dot : V → V → K) (allFinite : V → Bool) (pos mom : V)
    (fuel : Nat) (e : K) (h : findReasonableEps target dot allFinite pos mom fuel = some e) :
    ∃ hn c : Nat, e = (1 / 2) ^ (hn + 1) * 2 ^ c ∨ e = (1 / 2) ^ (hn + 1) * (1 / 2) ^ c := by
  unfold findReasonableEps at h
  simp only at h
  split at h
  · exact absurd h (by simp)
  · rename_i k z1 hk
    obtain ⟨hn, hk'⟩ := halve_spec _ _ _ _ _ _ _ _ hk
    obtain ⟨c, hc⟩ := cross_spec _ _ _ _ _ _ _ _ _ h
    refine ⟨hn, c, ?_⟩
    rw [hc, hk', halfK_eq]
    split
    · left; push_cast; ring
    · right; push_cast; ring

/-- **positive**: whenever `find_reasonable_epsilon` returns, it returns a strictly positive step size -/
theorem findReasonableEps_pos (target : V → K × V) (dot : V → V → K) (allFinite : V → Bool) (pos mom : V)
    (fuel : Nat) (e : K) (h : findReasonableEps target dot allFinite pos mom fuel = some e) : 0 < e := by
  obtain ⟨hn, c, h | h⟩ := findReasonableEps_form target dot allFinite pos mom fuel e h <;> rw [h] <;> positivity

/-- when neither loop iterates (finite first leapfrog, acceptance already on the far side of 1/2) the result is `1/2` -/
theorem findReasonableEps_no_iter (target : V → K × V) (dot : V → V → K) (allFinite : V → Bool) (pos mom : V)
    (fuel : Nat) (e : K) (h : findReasonableEps target dot allFinite pos mom fuel = some e) :
    e ≤ 1 / 2 ∨ ∃ c : Nat, 0 < c ∧ ∃ hn : Nat, e = (1 / 2) ^ (hn + 1) * 2 ^ c := by
  obtain ⟨hn, c, h | h⟩ := findReasonableEps_form target dot allFinite pos mom fuel e h
  · rcases Nat.eq_zero_or_pos c with hc | hc
    · left; subst hc; rw [h]; simp
      have : ((2 : K)⁻¹) ^ (hn + 1) ≤ (2 : K)⁻¹ ^ 1 := pow_le_pow_of_le_one (by positivity) (by norm_num) (by omega)
      simpa using this
    · right; exact ⟨c, hc, hn, h⟩
  · left; rw [h, ← pow_add]
    have : ((1 : K) / 2) ^ (hn + 1 + c) ≤ (1 / 2 : K) ^ 1 := pow_le_pow_of_le_one (by positivity) (by norm_num) (by omega)
    simpa using this

/-! non-vacuity: on the standard normal over ℚ (with a crude rational `ln`) the heuristic returns, after iterating -/
section nonvacuity
local instance : HasLnFin ℚ := ⟨fun x => x - 1, fun _ => true⟩
example : ∃ e, findReasonableEps (K := ℚ) (V := ℚ) (fun x => (-(x * x) / 2, -x)) (· * ·) (fun _ => true) 0 1 8 = some e ∧ 1 / 2 < e := by
  refine ⟨2, ?_, by norm_num⟩
  decide +kernel
end nonvacuity

end MiniMcmcVerif.NUTS

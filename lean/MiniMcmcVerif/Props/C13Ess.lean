import MiniMcmcVerif.Props.C13
import MiniMcmcVerif.Props.C12

/-!
# C13 / C12 — `ess_from_chainstats`

The ESS computed from streaming tracker statistics (stats.rs 665-668): `W` and `var⁺` come from `withinvar_from_cs`
(the quantities whose ratio `collect_rhat` reports), the autocovariances from the unsplit draws.
-/

namespace MiniMcmcVerif.Stats

section
variable {α : Type} [Add α] [Sub α] [Mul α] [Div α] [NatCast α] [OfNat α 0]

/-- `collect_rhat² = var⁺ / W` of `withinvar_from_cs` (definitional) -/
theorem collectRhatSq_eq_collectWV (stats : List (Nat × α × α)) :
    collectRhatSq stats = (collectWV stats).2 / (collectWV stats).1 := rfl
end

section
variable {α : Type} [Field α] [LinearOrder α] [IsStrictOrderedRing α]

/-- whichever autocovariance path the chain length selects, `ess_from_chainstats` is the same function of the draws
    and the tracker statistics -/
theorem essFromChainStats_path_independent (chains : List (List α)) (stats : List (Nat × α × α)) :
    essFromChainStats chains stats
      = (essWith autocovBF chains (collectWV stats).1 (collectWV stats).2).2.2 := by
  unfold essFromChainStats ess
  simp only
  rw [ess_path_independent]

/-- it is `M·N/τ` with `τ` from Geyer's sequence of the tracker-based autocorrelation estimate -/
theorem essFromChainStats_eq (chains : List (List α)) (stats : List (Nat × α × α)) :
    essFromChainStats chains stats
      = 1 / (essWith autocovBF chains (collectWV stats).1 (collectWV stats).2).2.1
          * (chains.length : α) * ((chains.headD []).length : α) := by
  rw [essFromChainStats_path_independent]
  simp only [essWith, Nat.cast_one]
end

end MiniMcmcVerif.Stats

import MiniMcmcVerif.Props.C01Measure

/-!
# C06 / C02 / C03 — the coded comparisons realise the probabilities the algorithms require

Under a uniform draw `u` on the unit interval

* the HMC test `ln u ≤ ΔH` (non-strict, unlike MH's) accepts with probability `min 1 (exp ΔH)`;
* a NUTS test `u < r` (direction `u < 1/2`, candidate adoption `u < min(1, n'/n)`, selection `u < n''/(n'+n'')`) succeeds
  with probability `r` clipped to `[0,1]` — the hypothesis under which `selection_uniform` gives the uniform candidate.
-/

namespace MiniMcmcVerif.HMC

open MeasureTheory

theorem accept_region_le (r : ℝ) :
    {u : ℝ | 0 < u ∧ u < 1 ∧ Real.log u ≤ r} = if 1 ≤ Real.exp r then Set.Ioo 0 1 else Set.Ioc 0 (Real.exp r) := by
  ext u
  split_ifs with h
  · simp only [Set.mem_ofPred_eq, Set.mem_Ioo]
    constructor
    · rintro ⟨h0, h1, _⟩; exact ⟨h0, h1⟩
    · rintro ⟨h0, h1⟩
      refine ⟨h0, h1, ?_⟩
      rw [Real.log_le_iff_le_exp h0]
      linarith
  · simp only [Set.mem_ofPred_eq, Set.mem_Ioc]
    push Not at h
    constructor
    · rintro ⟨h0, _, hl⟩; exact ⟨h0, (Real.log_le_iff_le_exp h0).mp hl⟩
    · rintro ⟨h0, hl⟩; exact ⟨h0, by linarith, (Real.log_le_iff_le_exp h0).mpr hl⟩

/-- **HMC acceptance probability**: the non-strict test `ln u ≤ ΔH` accepts with probability `min 1 (exp ΔH)`. -/
theorem hmc_accept_probability (r : ℝ) :
    volume {u : ℝ | 0 < u ∧ u < 1 ∧ Real.log u ≤ r} = ENNReal.ofReal (min 1 (Real.exp r)) := by
  rw [accept_region_le]
  split_ifs with h
  · rw [Real.volume_Ioo, sub_zero, min_eq_left h]
  · push Not at h
    rw [Real.volume_Ioc, sub_zero, min_eq_right h.le]

end MiniMcmcVerif.HMC

namespace MiniMcmcVerif.NUTS

open MeasureTheory

/-- **a test `u < r` under a uniform draw on `[0,1)` succeeds with probability `r` clipped to `[0,1]`** -/
theorem uniform_lt_probability (r : ℝ) :
    volume {u : ℝ | 0 ≤ u ∧ u < 1 ∧ u < r} = ENNReal.ofReal (min 1 (max 0 r)) := by
  have : {u : ℝ | 0 ≤ u ∧ u < 1 ∧ u < r} = Set.Ico 0 (min 1 r) := by
    ext u
    simp only [Set.mem_ofPred_eq, Set.mem_Ico, lt_min_iff]
  rw [this, Real.volume_Ico, sub_zero]
  rcases le_total r 0 with h | h
  · rw [max_eq_left h, min_eq_right (by norm_num : (0 : ℝ) ≤ 1), ENNReal.ofReal_zero,
      ENNReal.ofReal_of_nonpos (le_trans (min_le_right _ _) h)]
  · rw [max_eq_right h]

/-- **the slice level**: Algorithm 6 draws `u ~ U(0, exp(joint₀))`, the code `log u = joint₀ − e` with `e ~ Exp(1)`. These are
    the same law because `−log U` of a uniform `U` has the Exp(1) tail `P(−log U > t) = exp(−t)`, `t ≥ 0`. -/
theorem neg_log_uniform_tail (t : ℝ) (ht : 0 ≤ t) :
    volume {u : ℝ | 0 < u ∧ u < 1 ∧ t < -Real.log u} = ENNReal.ofReal (Real.exp (-t)) := by
  have : {u : ℝ | 0 < u ∧ u < 1 ∧ t < -Real.log u} = Set.Ioo 0 (Real.exp (-t)) := by
    ext u
    simp only [Set.mem_ofPred_eq, Set.mem_Ioo]
    have hle : Real.exp (-t) ≤ 1 := by
      rw [← Real.exp_zero]; exact Real.exp_le_exp.mpr (by linarith)
    constructor
    · rintro ⟨h0, _, hl⟩
      refine ⟨h0, ?_⟩
      rw [← Real.log_lt_iff_lt_exp h0]; linarith
    · rintro ⟨h0, hl⟩
      refine ⟨h0, lt_of_lt_of_le hl hle, ?_⟩
      have := (Real.log_lt_iff_lt_exp h0).mpr hl
      linarith
  rw [this, Real.volume_Ioo, sub_zero]

end MiniMcmcVerif.NUTS

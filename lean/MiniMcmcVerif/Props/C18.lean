import MiniMcmcVerif.Model.Init

/-!
# C18 — initial-position helpers: shape, row-major layout, prefix property, `init_det = init_with_seed 42`
-/

namespace MiniMcmcVerif.Init

variable {α : Type}

/-- exactly `n` vectors. -/
theorem init_length (n d : Nat) (s : List α) : (initRows n d s).length = n := by
  induction n generalizing s with
  | zero => rfl
  | succ n ih => simp [initRows, ih]

/-- row `i` consists of variates `i·d … i·d+d-1` of the stream (row-major consumption). -/
theorem init_row (n d : Nat) (s : List α) (i : Nat) (hi : i < n) :
    (initRows n d s)[i]'(by rw [init_length]; exact hi) = (s.drop (i * d)).take d := by
  induction n generalizing s i with
  | zero => omega
  | succ n ih =>
    cases i with
    | zero => simp [initRows]
    | succ i =>
      simp only [initRows, List.getElem_cons_succ]
      rw [ih (s.drop d) i (by omega), List.drop_drop]
      congr 2
      rw [Nat.succ_mul]; omega

/-- every vector has length exactly `d` as long as the generator delivers (it always does). -/
theorem init_row_length (n d : Nat) (s : List α) (hs : n * d ≤ s.length) :
    ∀ r ∈ initRows n d s, r.length = d := by
  induction n generalizing s with
  | zero => simp [initRows]
  | succ n ih =>
    intro r hr
    simp only [initRows, List.mem_cons] at hr
    have h1 : d ≤ s.length := by
      have : d ≤ (n + 1) * d := Nat.le_mul_of_pos_left d (by omega)
      omega
    rcases hr with rfl | hr
    · simp [h1]
    · apply ih (s.drop d) _ r hr
      rw [List.length_drop]
      have : (n + 1) * d = n * d + d := Nat.succ_mul n d
      omega

/-- **prefix property**: the first `n` rows of a larger request (same `d`, same stream) are the smaller request. -/
theorem init_prefix (n k d : Nat) (s : List α) : (initRows (n + k) d s).take n = initRows n d s := by
  induction n generalizing s with
  | zero => simp [initRows]
  | succ n ih =>
    have : n + 1 + k = (n + k) + 1 := by omega
    rw [this]
    simp [initRows, ih]

/-- `init_det` is `init_with_seed` with seed 42. -/
theorem init_det_eq_42 (gen : UInt64 → List α) (n d : Nat) : initDet gen n d = initWithSeed gen n d 42 := rfl

/-- seeded variants are functions of `(n, d, seed)` alone: prefix property restated for the seeded helper. -/
theorem init_with_seed_prefix (gen : UInt64 → List α) (n k d : Nat) (seed : UInt64) :
    (initWithSeed gen (n + k) d seed).take n = initWithSeed gen n d seed := init_prefix n k d _

example : initRows 2 3 [1, 2, 3, 4, 5, 6, 7] = [[1, 2, 3], [4, 5, 6]] := by decide
example : initRows 3 0 [1, 2] = [[], [], []] := by decide

/-- **each variate is used exactly once, in order**: concatenating the rows gives back the first `n·d` variates of the stream —
    nothing is skipped, repeated or reordered, so the entries inherit independence and the marginal law of the stream. -/
theorem init_flatten (n d : Nat) (s : List α) : (initRows n d s).flatten = s.take (n * d) := by
  induction n generalizing s with
  | zero => simp [initRows]
  | succ n ih =>
    simp only [initRows, List.flatten_cons, ih]
    rw [Nat.succ_mul, Nat.add_comm (n * d) d, List.take_add]

/-- entry `(i, j)` is variate `i·d + j` of the stream. -/
theorem init_entry (n d : Nat) (s : List α) (i j : Nat) (hi : i < n) (hj : j < d) :
    ((initRows n d s)[i]'(by rw [init_length]; exact hi))[j]? = s[i * d + j]? := by
  rw [init_row n d s i hi, List.getElem?_take, if_pos hj, List.getElem?_drop]

/-- distinct cells read distinct stream positions (no variate is shared between two entries). -/
theorem init_cell_injective (d i j i' j' : Nat) (hj : j < d) (hj' : j' < d) (h : i * d + j = i' * d + j') :
    i = i' ∧ j = j' := by
  have h1 : (i * d + j) / d = i := by
    rw [Nat.mul_comm, Nat.mul_add_div (by omega), Nat.div_eq_of_lt hj, Nat.add_zero]
  have h2 : (i' * d + j') / d = i' := by
    rw [Nat.mul_comm, Nat.mul_add_div (by omega), Nat.div_eq_of_lt hj', Nat.add_zero]
  have hi : i = i' := by rw [← h1, ← h2, h]
  subst hi
  exact ⟨rfl, by omega⟩

/-- the output depends on the stream only through its first `n·d` variates (what a larger request draws later cannot matter). -/
theorem init_depends_on_prefix (n d : Nat) (s t : List α) (h : s.take (n * d) = t.take (n * d)) :
    initRows n d s = initRows n d t := by
  induction n generalizing s t with
  | zero => rfl
  | succ n ih =>
    have hd : (n + 1) * d = d + n * d := by rw [Nat.succ_mul, Nat.add_comm]
    rw [hd] at h
    simp only [initRows]
    have h1 : s.take d = t.take d := by
      have := congrArg (List.take d) h
      simpa [List.take_take] using this
    have h2 : (s.drop d).take (n * d) = (t.drop d).take (n * d) := by
      have := congrArg (List.drop d) h
      simpa [List.drop_take] using this
    rw [h1, ih _ _ h2]

example : (initRows 2 3 [1, 2, 3, 4, 5, 6, 7]).flatten = [1, 2, 3, 4, 5, 6] := by decide

end MiniMcmcVerif.Init

import MiniMcmcVerif.Props.C12
import MiniMcmcVerif.Props.C11

/-!
# C12 — ESS is invariant under affine rescaling of the parameter
-/

set_option linter.unusedSectionVars false
set_option linter.unusedVariables false

namespace MiniMcmcVerif.Stats

variable {α : Type} [Field α] [LinearOrder α] [IsStrictOrderedRing α]

theorem centre_affine (xs : List α) (a b : α) (hne : xs ≠ []) :
    centre (xs.map fun x => a * x + b) = (centre xs).map (a * ·) := by
  unfold centre
  simp only [mean_affine xs a b hne, List.map_map, Function.comp_def]
  apply List.map_congr_left
  intro x _
  ring

theorem sum_map_mul_const (c : α) (l : List α) : sum (l.map (c * ·)) = c * sum l := by
  simp only [sum_list]
  rw [List.sum_map_mul_left]
  simp

/-- the autocovariance scales by `a²` -/
theorem autocovBF_affine (xs : List α) (a b : α) (hne : xs ≠ []) :
    autocovBF (xs.map fun x => a * x + b) = (autocovBF xs).map (a ^ 2 * ·) := by
  unfold autocovBF
  simp only [List.length_map, centre_affine xs a b hne, List.map_map, Function.comp_def]
  apply List.map_congr_left
  intro lag _
  have : List.zipWith (· * ·) ((centre xs).map (a * ·)) (((centre xs).map (a * ·)).drop lag)
      = (List.zipWith (· * ·) (centre xs) ((centre xs).drop lag)).map (a ^ 2 * ·) := by
    rw [← List.map_drop, List.zipWith_map_left, List.zipWith_map_right, List.map_zipWith]
    congr 1
    funext x y
    ring
  rw [this, sum_map_mul_const]
  ring

theorem zipWith_add_scale (c : α) (l1 l2 : List α) :
    List.zipWith (· + ·) (l1.map (c * ·)) (l2.map (c * ·)) = (List.zipWith (· + ·) l1 l2).map (c * ·) := by
  rw [List.zipWith_map_left, List.zipWith_map_right, List.map_zipWith]
  congr 1
  funext x y
  ring

theorem foldl_zipWith_scale (c : α) (ls : List (List α)) (acc : List α) :
    (ls.map (List.map (c * ·))).foldl (fun acc a => List.zipWith (· + ·) acc a) (acc.map (c * ·))
      = (ls.foldl (fun acc a => List.zipWith (· + ·) acc a) acc).map (c * ·) := by
  induction ls generalizing acc with
  | nil => rfl
  | cons l ls ih =>
    simp only [List.map_cons, List.foldl_cons]
    rw [zipWith_add_scale, ih]

/-- the autocorrelation estimate `ρ_t = 1 - (W - mean_j acov_t)/var⁺` as the code computes it -/
def rhoOf (acov : List α → List α) (data : List (List α)) (w v : α) : List α :=
  (((data.map acov).foldl (fun acc a => List.zipWith (· + ·) acc a) (List.replicate (data.headD []).length 0)).map
    (· / (data.length : α))).map fun a => (0 - ((0 - a + w) / v)) + ((1 : Nat) : α)

/-- everything downstream of `ρ` -/
def essFromRho (rho : List α) (c n : Nat) : List α × α × α :=
  let ps := pairSums rho
  let mn0 : α := if 2 ≤ rho.length then rho.getD 0 0 + rho.getD 1 0 else 0
  let out := geyer ps mn0 0
  let tau := (0 - ((1 : Nat) : α)) + ((2 : Nat) : α) * out
  (rho, tau, (((1 : Nat) : α) / tau) * (c : α) * (n : α))

theorem essWith_eq (acov : List α → List α) (data : List (List α)) (w v : α) :
    essWith acov data w v = essFromRho (rhoOf acov data w v) data.length (data.headD []).length := rfl

/-- **ESS (with its ρ and τ) is invariant under `x ↦ a·x + b`, `a ≠ 0`**, when `W` and `var⁺` are scaled accordingly
    (which `withinVar_affine` shows they are). -/
theorem essWith_affine (data : List (List α)) (w v a b : α) (ha : a ≠ 0) (hrows : ∀ r ∈ data, r ≠ []) :
    essWith autocovBF (data.map fun r => r.map fun x => a * x + b) (a ^ 2 * w) (a ^ 2 * v)
      = essWith autocovBF data w v := by
  have ha2 : a ^ 2 ≠ 0 := pow_ne_zero 2 ha
  have hhead : ((data.map fun r => r.map fun x => a * x + b).headD []).length = (data.headD []).length := by
    cases data with
    | nil => rfl
    | cons r t => simp
  have hac : (data.map fun r => r.map fun x => a * x + b).map autocovBF = (data.map autocovBF).map (List.map (a ^ 2 * ·)) := by
    rw [List.map_map, List.map_map]
    apply List.map_congr_left
    intro r hr
    exact autocovBF_affine r a b (hrows r hr)
  have hzero : List.replicate (data.headD []).length (0 : α) = (List.replicate (data.headD []).length (0 : α)).map (a ^ 2 * ·) := by
    simp
  have hrho : rhoOf autocovBF (data.map fun r => r.map fun x => a * x + b) (a ^ 2 * w) (a ^ 2 * v) = rhoOf autocovBF data w v := by
    have hf : ((data.map autocovBF).map (List.map (a ^ 2 * ·))).foldl (fun acc x => List.zipWith (· + ·) acc x)
          (List.replicate (data.headD []).length (0 : α))
        = ((data.map autocovBF).foldl (fun acc x => List.zipWith (· + ·) acc x)
          (List.replicate (data.headD []).length (0 : α))).map (a ^ 2 * ·) := by
      have := foldl_zipWith_scale (a ^ 2) (data.map autocovBF) (List.replicate (data.headD []).length (0 : α))
      simpa using this
    unfold rhoOf
    rw [hhead, hac, hf]
    simp only [List.length_map, List.map_map, Function.comp_def]
    apply List.map_congr_left
    intro x _
    have : (0 - a ^ 2 * x / (data.length : α) + a ^ 2 * w) / (a ^ 2 * v) = (0 - x / (data.length : α) + w) / v := by
      rw [show (0 - a ^ 2 * x / (data.length : α) + a ^ 2 * w) = a ^ 2 * (0 - x / (data.length : α) + w) by ring]
      rw [mul_div_mul_left _ _ ha2]
    rw [this]
  rw [essWith_eq, essWith_eq, hrho, hhead, List.length_map]

/-- **`split_rhat_mean_ess` is invariant under affine rescaling** (both R-hat² and ESS), any number of chains. -/
theorem splitRhatSqEss_affine (chains : List (List α)) (a b : α) (ha : a ≠ 0) (n : Nat) (hn : 2 ≤ n)
    (hlen : ∀ ch ∈ chains, ch.length = n) (hne : chains ≠ []) :
    splitRhatSqEss autocovBF (chains.map fun r => r.map fun x => a * x + b) = splitRhatSqEss autocovBF chains := by
  obtain ⟨hsplit, hcount, hrowlen⟩ := splitcat_spec chains n hlen hne
  have hlen' : ∀ ch ∈ (chains.map fun r => r.map fun x => a * x + b), ch.length = n := by
    intro ch hch
    simp only [List.mem_map] at hch
    obtain ⟨r, hr, rfl⟩ := hch
    simp [hlen r hr]
  obtain ⟨hsplit', _, _⟩ := splitcat_spec (chains.map fun r => r.map fun x => a * x + b) n hlen' (by simpa using hne)
  have hcomm : splitcat (chains.map fun r => r.map fun x => a * x + b)
      = (splitcat chains).map fun r => r.map fun x => a * x + b := by
    rw [hsplit', hsplit]
    simp only [List.map_append, List.map_map, Function.comp_def, List.map_take, List.map_drop]
  have hrows : ∀ r ∈ splitcat chains, r ≠ [] := by
    intro r hr
    have := hrowlen r hr
    intro e; rw [e] at this; simp at this; omega
  have hsne : splitcat chains ≠ [] := by
    intro e
    have : (splitcat chains).length = 2 * chains.length := hcount
    rw [e] at this
    have : chains.length = 0 := by simpa using this.symm
    exact hne (List.length_eq_zero_iff.mp this)
  unfold splitRhatSqEss
  simp only [hcomm]
  rw [withinVar_affine (splitcat chains) a b hrows hsne]
  simp only
  rw [essWith_affine (splitcat chains) _ _ a b ha hrows]
  have ha2 : a ^ 2 ≠ 0 := pow_ne_zero 2 ha
  congr 1
  by_cases hW : (withinVar (splitcat chains)).1 = 0
  · simp [hW]
  · field_simp

end MiniMcmcVerif.Stats

namespace MiniMcmcVerif.Stats

variable {α : Type} [Field α] [LinearOrder α] [IsStrictOrderedRing α]

/-! ### chain permutation -/

instance zipAddRightComm : RightCommutative (fun (acc a : List α) => List.zipWith (· + ·) acc a) := ⟨by
  intro acc a b
  apply List.ext_getElem
  · simp only [List.length_zipWith]; omega
  · intro i h1 h2
    simp only [List.getElem_zipWith]
    ring⟩

/-- the chain-averaged autocovariance does not depend on the order of the chains -/
theorem rhoOf_perm (acov : List α → List α) (d₁ d₂ : List (List α)) (h : d₁.Perm d₂) (w v : α)
    (hhead : (d₁.headD []).length = (d₂.headD []).length) :
    rhoOf acov d₁ w v = rhoOf acov d₂ w v := by
  unfold rhoOf
  rw [hhead, h.length_eq]
  have := List.Perm.foldl_eq (f := fun (acc a : List α) => List.zipWith (· + ·) acc a) (h.map acov)
    (List.replicate (d₂.headD []).length (0 : α))
  rw [this]

/-- **ESS is invariant under permutation of the (half-)chains** (all of one length). -/
theorem essWith_chain_perm (acov : List α → List α) (d₁ d₂ : List (List α)) (h : d₁.Perm d₂) (w v : α) (n : Nat)
    (hlen : ∀ r ∈ d₁, r.length = n) (hne : d₁ ≠ []) :
    essWith acov d₁ w v = essWith acov d₂ w v := by
  have hne2 : d₂ ≠ [] := by
    intro e; subst e; exact hne (List.perm_nil.mp h)
  have hh1 : (d₁.headD []).length = n := by
    cases d₁ with
    | nil => exact absurd rfl hne
    | cons a t => simpa using hlen a (by simp)
  have hh2 : (d₂.headD []).length = n := by
    cases d₂ with
    | nil => exact absurd rfl hne2
    | cons a t => simpa using hlen a (h.mem_iff.mpr (by simp))
  rw [essWith_eq, essWith_eq, rhoOf_perm acov d₁ d₂ h w v (by rw [hh1, hh2]), h.length_eq, hh1, hh2]

/-! ### time reversal -/

theorem centre_reverse (xs : List α) : centre xs.reverse = (centre xs).reverse := by
  unfold centre
  have : mean xs.reverse = mean xs := mean_perm (List.reverse_perm xs)
  rw [this, List.map_reverse]

theorem sum_reverse' (l : List α) : sum l.reverse = sum l := by
  rw [sum_list, sum_list, List.sum_reverse]

/-- the lag-`k` product sum of a sequence equals that of the reversed sequence -/
theorem lagsum_reverse (c : List α) (lag : Nat) (hlag : lag ≤ c.length) :
    sum (List.zipWith (· * ·) c.reverse (c.reverse.drop lag)) = sum (List.zipWith (· * ·) c (c.drop lag)) := by
  -- both sides are sums over t < n - lag of c[t]·c[t+lag]
  rw [zipWith_drop_eq, zipWith_drop_eq, List.length_reverse]
  simp only [sum_list]
  -- reindex t ↦ n - lag - 1 - t
  have hperm : ((List.range (c.length - lag)).map fun t => c.reverse.getD t 0 * c.reverse.getD (t + lag) 0)
      = ((List.range (c.length - lag)).map fun t => c.getD t 0 * c.getD (t + lag) 0).reverse := by
    apply List.ext_getElem
    · simp
    · intro i h1 h2
      simp only [List.length_map, List.length_range] at h1
      simp only [List.getElem_map, List.getElem_range, List.getElem_reverse, List.length_map, List.length_range]
      have e1 : c.reverse.getD i 0 = c.getD (c.length - 1 - i) 0 := by
        simp only [List.getD_eq_getElem?_getD]
        rw [List.getElem?_reverse (by omega)]
      have e2 : c.reverse.getD (i + lag) 0 = c.getD (c.length - 1 - (i + lag)) 0 := by
        simp only [List.getD_eq_getElem?_getD]
        rw [List.getElem?_reverse (by omega)]
      rw [e1, e2, mul_comm]
      congr 2 <;> omega
  rw [hperm, List.sum_reverse]

/-- **the autocovariance of a time-reversed sequence is the same** -/
theorem autocovBF_reverse (xs : List α) : autocovBF xs.reverse = autocovBF xs := by
  unfold autocovBF
  simp only [List.length_reverse, centre_reverse]
  apply List.map_congr_left
  intro lag hlag
  have hl : lag < xs.length := List.mem_range.mp hlag
  rw [lagsum_reverse (centre xs) lag (by simp [centre]; omega)]

/-- **ESS is invariant under time reversal of every (half-)chain**, `W` and `var⁺` being unchanged (they are
    permutation-invariant within a chain). -/
theorem essWith_time_reversal (data : List (List α)) (w v : α) :
    essWith autocovBF (data.map List.reverse) w v = essWith autocovBF data w v := by
  have hhead : ((data.map List.reverse).headD []).length = (data.headD []).length := by
    cases data with
    | nil => rfl
    | cons r t => simp
  have hac : (data.map List.reverse).map autocovBF = data.map autocovBF := by
    rw [List.map_map]
    apply List.map_congr_left
    intro r _
    exact autocovBF_reverse r
  rw [essWith_eq, essWith_eq]
  unfold rhoOf
  rw [hhead, hac, List.length_map]

end MiniMcmcVerif.Stats

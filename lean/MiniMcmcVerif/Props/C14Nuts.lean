import MiniMcmcVerif.Props.C03Transition
import MiniMcmcVerif.Props.C14
import Mathlib.Tactic.NormNum

/-!
# C14 / C03 — the whole NUTS transition for float-like carriers

`transition_next_state` (Props/C03Transition.lean) is stated over an ordered field. Its proof uses the order and the
field only through three facts about the selection / accept uniforms `u`:

* `h0 : u` is never `< 0/n`  (`n ≥ 1`),
* `h1 : u < n/n`             (`n ≥ 1`),
* `h2 : u` is never `< minOne (0/n)` (`n ≥ 1`),

which hold for reals in `[0,1)` *and* for IEEE floats in `[0,1)` (`0/n = +0`, `n/n = 1` exactly). Here the structural
lemmas are re-proved for an **arbitrary carrier** (only the notation classes the model needs, no axioms), the transition
theorem is re-proved from `h0 h1 h2` alone, and combined with the IEEE special-value laws: **a NUTS transition that
terminates ends at the start position or at a trajectory point whose log-density is neither NaN nor −inf.**
-/

set_option linter.unusedSectionVars false
set_option linter.unusedVariables false

namespace MiniMcmcVerif.NUTS.Gen

open MiniMcmcVerif.NUTS

variable {K V : Type} [Add K] [Sub K] [Mul K] [Div K] [Neg K] [LT K] [LE K] [DecidableLT K] [DecidableLE K]
  [NatCast K] [HasExp K] [Add V] [Sub V] [SMul K V]

/-- slice-admissible -/
def Adm (dot : V → V → K) (logu : K) (p : Pt K V) : Prop := logu < joint dot p

section tree
variable (target : V → K × V) (dot : V → V → K) (logu : K) (dirNeg : Bool) (eps joint0 : K)

def stepOf (dirNeg : Bool) (eps : K) : K := if dirNeg then -eps else eps

/-- unfolding of the recursive case -/
theorem buildTree_succ (j : Nat) (z : Pt K V) (sel : List K) :
    buildTree target dot logu dirNeg eps joint0 (j + 1) z sel =
      (let r1 := buildTree target dot logu dirNeg eps joint0 j z sel
       let t1 := r1.1
       if t1.s then
         let start := if dirNeg then t1.minus else t1.plus
         let r2 := buildTree target dot logu dirNeg eps joint0 j start r1.2
         let t2 := r2.1
         let minus := if dirNeg then t2.minus else t1.minus
         let plus := if dirNeg then t1.plus else t2.plus
         let u := r2.2.headD ((0 : Nat) : K)
         let rest := r2.2.tail
         let ratio := ((t2.n : Nat) : K) / ((max (t1.n + t2.n) 1 : Nat) : K)
         let prime := if u < ratio then t2.prime else t1.prime
         (⟨minus, plus, prime, t1.n + t2.n, t2.s && noUTurn dot minus plus, t1.alpha + t2.alpha, t1.nalpha + t2.nalpha,
           t1.leaves ++ t2.leaves⟩, rest)
       else (t1, r1.2)) := rfl

/-- start point of the second half -/
def startOf (dirNeg : Bool) (t : Tree K V) : Pt K V := if dirNeg then t.minus else t.plus

/-- the merged tree of the recursive case -/
def mergeTrees (dot : V → V → K) (dirNeg : Bool) (t1 t2 : Tree K V) (u : K) : Tree K V :=
  let minus := if dirNeg then t2.minus else t1.minus
  let plus := if dirNeg then t1.plus else t2.plus
  let ratio := ((t2.n : Nat) : K) / ((max (t1.n + t2.n) 1 : Nat) : K)
  ⟨minus, plus, if u < ratio then t2.prime else t1.prime, t1.n + t2.n, t2.s && noUTurn dot minus plus,
    t1.alpha + t2.alpha, t1.nalpha + t2.nalpha, t1.leaves ++ t2.leaves⟩

theorem bt_stop (j : Nat) (z : Pt K V) (sel : List K)
    (h : (buildTree target dot logu dirNeg eps joint0 j z sel).1.s = false) :
    buildTree target dot logu dirNeg eps joint0 (j + 1) z sel = buildTree target dot logu dirNeg eps joint0 j z sel := by
  rw [buildTree_succ]; simp only [h, Bool.false_eq_true, if_false]

theorem bt_go (j : Nat) (z : Pt K V) (sel : List K)
    (h : (buildTree target dot logu dirNeg eps joint0 j z sel).1.s = true) :
    buildTree target dot logu dirNeg eps joint0 (j + 1) z sel =
      (mergeTrees dot dirNeg (buildTree target dot logu dirNeg eps joint0 j z sel).1
          (buildTree target dot logu dirNeg eps joint0 j
            (startOf dirNeg (buildTree target dot logu dirNeg eps joint0 j z sel).1)
            (buildTree target dot logu dirNeg eps joint0 j z sel).2).1
          ((buildTree target dot logu dirNeg eps joint0 j
            (startOf dirNeg (buildTree target dot logu dirNeg eps joint0 j z sel).1)
            (buildTree target dot logu dirNeg eps joint0 j z sel).2).2.headD ((0 : Nat) : K)),
       (buildTree target dot logu dirNeg eps joint0 j
            (startOf dirNeg (buildTree target dot logu dirNeg eps joint0 j z sel).1)
            (buildTree target dot logu dirNeg eps joint0 j z sel).2).2.tail) := by
  rw [buildTree_succ]; simp only [h, if_true]; rfl

/-- the candidate of a subtree is one of the points it visited. -/
theorem buildTree_prime_mem (j : Nat) (z : Pt K V) (sel : List K) :
    (buildTree target dot logu dirNeg eps joint0 j z sel).1.prime ∈ (buildTree target dot logu dirNeg eps joint0 j z sel).1.leaves := by
  induction j generalizing z sel with
  | zero => simp [buildTree]
  | succ j ih =>
    cases hs : (buildTree target dot logu dirNeg eps joint0 j z sel).1.s
    · rw [bt_stop _ _ _ _ _ _ _ _ _ hs]; exact ih z sel
    · rw [bt_go _ _ _ _ _ _ _ _ _ hs]
      simp only [mergeTrees, List.mem_append]
      by_cases hu : (buildTree target dot logu dirNeg eps joint0 j
            (startOf dirNeg (buildTree target dot logu dirNeg eps joint0 j z sel).1)
            (buildTree target dot logu dirNeg eps joint0 j z sel).2).2.headD ((0 : Nat) : K)
          < ((((buildTree target dot logu dirNeg eps joint0 j
            (startOf dirNeg (buildTree target dot logu dirNeg eps joint0 j z sel).1)
            (buildTree target dot logu dirNeg eps joint0 j z sel).2).1.n : Nat) : K)
            / ((max ((buildTree target dot logu dirNeg eps joint0 j z sel).1.n + (buildTree target dot logu dirNeg eps joint0 j
            (startOf dirNeg (buildTree target dot logu dirNeg eps joint0 j z sel).1)
            (buildTree target dot logu dirNeg eps joint0 j z sel).2).1.n) 1 : Nat) : K))
      · simp only [hu, if_true]; right; exact ih _ _
      · simp only [hu, if_false]; left; exact ih _ _

/-- what is left of the selection stream is a suffix of what was handed in. -/
theorem buildTree_sel_suffix (j : Nat) (z : Pt K V) (sel : List K) :
    ∃ k, (buildTree target dot logu dirNeg eps joint0 j z sel).2 = sel.drop k := by
  induction j generalizing z sel with
  | zero => exact ⟨0, rfl⟩
  | succ j ih =>
    obtain ⟨k1, h1⟩ := ih z sel
    cases hs : (buildTree target dot logu dirNeg eps joint0 j z sel).1.s
    · rw [bt_stop _ _ _ _ _ _ _ _ _ hs]; exact ⟨k1, h1⟩
    · rw [bt_go _ _ _ _ _ _ _ _ _ hs]
      obtain ⟨k2, h2⟩ := ih (startOf dirNeg (buildTree target dot logu dirNeg eps joint0 j z sel).1)
        (buildTree target dot logu dirNeg eps joint0 j z sel).2
      refine ⟨k1 + k2 + 1, ?_⟩
      simp only
      rw [h2, h1, List.tail_drop, List.drop_drop, Nat.add_assoc]


/-- **the points of a subtree are the leapfrog trajectory** from its start point in its direction: the `k`-th visited
    point is `k + 1` leapfrog steps of the signed step size away, the outer end (`minus` for `v = -1`, `plus` for
    `v = +1`) is the last of them and the inner end the first. -/
theorem buildTree_leaves_chain (j : Nat) (z : Pt K V) (sel : List K) :
    (buildTree target dot logu dirNeg eps joint0 j z sel).1.leaves
        = (List.range (buildTree target dot logu dirNeg eps joint0 j z sel).1.leaves.length).map
            (fun k => (leapfrog target (stepOf dirNeg eps))^[k + 1] z)
    ∧ (buildTree target dot logu dirNeg eps joint0 j z sel).1.leaves ≠ []
    ∧ startOf dirNeg (buildTree target dot logu dirNeg eps joint0 j z sel).1
        = (leapfrog target (stepOf dirNeg eps))^[(buildTree target dot logu dirNeg eps joint0 j z sel).1.leaves.length] z
    ∧ startOf (!dirNeg) (buildTree target dot logu dirNeg eps joint0 j z sel).1 = leapfrog target (stepOf dirNeg eps) z := by
  induction j generalizing z sel with
  | zero =>
    cases dirNeg <;> simp [buildTree, stepOf, startOf]
  | succ j ih =>
    obtain ⟨c1, n1, o1, i1⟩ := ih z sel
    cases hs : (buildTree target dot logu dirNeg eps joint0 j z sel).1.s
    · rw [bt_stop _ _ _ _ _ _ _ _ _ hs]; exact ⟨c1, n1, o1, i1⟩
    · rw [bt_go _ _ _ _ _ _ _ _ _ hs]
      generalize ht1 : (buildTree target dot logu dirNeg eps joint0 j z sel).1 = t1 at *
      obtain ⟨c2, n2, o2, i2⟩ := ih (startOf dirNeg t1) (buildTree target dot logu dirNeg eps joint0 j z sel).2
      generalize ht2 : (buildTree target dot logu dirNeg eps joint0 j (startOf dirNeg t1)
        (buildTree target dot logu dirNeg eps joint0 j z sel).2).1 = t2 at *
      generalize (buildTree target dot logu dirNeg eps joint0 j (startOf dirNeg t1)
        (buildTree target dot logu dirNeg eps joint0 j z sel).2).2.headD ((0 : Nat) : K) = u
      refine ⟨?_, by simp [mergeTrees, n1], ?_, ?_⟩
      · simp only [mergeTrees, List.length_append]
        rw [List.range_add, List.map_append, List.map_map]
        congr 1
        · rw [c2]
          simp only [List.length_map, List.length_range]
          apply List.map_congr_left
          intro k _
          simp only [Function.comp]
          rw [o1, ← Function.iterate_add_apply]
          congr 1; omega
      · cases dirNeg
        · simp only [startOf, mergeTrees, Bool.false_eq_true, if_false, List.length_append] at o2 o1 ⊢
          rw [o2, o1, ← Function.iterate_add_apply]; congr 1; omega
        · simp only [startOf, mergeTrees, if_true, List.length_append] at o2 o1 ⊢
          rw [o2, o1, ← Function.iterate_add_apply]; congr 1; omega
      · cases dirNeg
        · simpa [startOf, mergeTrees] using i1
        · simpa [startOf, mergeTrees] using i1


/-- the three facts about uniforms the selection logic needs (see the module doc) -/
structure UnifLaws (U : K → Prop) : Prop where
  h0 : ∀ (u : K) (n : Nat), 0 < n → U u → ¬ u < ((0 : Nat) : K) / ((n : Nat) : K)
  h1 : ∀ (u : K) (n : Nat), 0 < n → U u → u < ((n : Nat) : K) / ((n : Nat) : K)
  h2 : ∀ (u : K) (n : Nat), 0 < n → U u → ¬ u < minOne (((0 : Nat) : K) / ((n : Nat) : K))
  /-- the default `0` used for an exhausted stream behaves like a uniform -/
  hz : U ((0 : Nat) : K)

/-- **the candidate is slice-admissible** — arbitrary carrier -/
theorem buildTree_prime_admissible (U : K → Prop) (hU : UnifLaws U) (j : Nat) (z : Pt K V) (sel : List K)
    (hsel : ∀ u ∈ sel, U u) :
    0 < (buildTree target dot logu dirNeg eps joint0 j z sel).1.n →
      Adm dot logu (buildTree target dot logu dirNeg eps joint0 j z sel).1.prime := by
  induction j generalizing z sel with
  | zero =>
    simp only [buildTree, Adm]
    intro h
    by_contra hc
    simp [hc] at h
  | succ j ih =>
    have ih1 := ih z sel hsel
    obtain ⟨k1, hk1⟩ := buildTree_sel_suffix target dot logu dirNeg eps joint0 j z sel
    have hsel1 : ∀ u ∈ (buildTree target dot logu dirNeg eps joint0 j z sel).2, U u := by
      intro u hu; rw [hk1] at hu; exact hsel u (List.mem_of_mem_drop hu)
    cases hs : (buildTree target dot logu dirNeg eps joint0 j z sel).1.s
    · rw [bt_stop _ _ _ _ _ _ _ _ _ hs]; exact ih1
    · rw [bt_go _ _ _ _ _ _ _ _ _ hs]
      generalize ht1 : (buildTree target dot logu dirNeg eps joint0 j z sel).1 = t1 at *
      have ih2 := ih (startOf dirNeg t1) (buildTree target dot logu dirNeg eps joint0 j z sel).2 hsel1
      obtain ⟨k2, hk2⟩ := buildTree_sel_suffix target dot logu dirNeg eps joint0 j (startOf dirNeg t1)
        (buildTree target dot logu dirNeg eps joint0 j z sel).2
      generalize hr2 : buildTree target dot logu dirNeg eps joint0 j (startOf dirNeg t1)
        (buildTree target dot logu dirNeg eps joint0 j z sel).2 = r2 at *
      have hu : U (r2.2.headD ((0 : Nat) : K)) := by
        cases hl : r2.2 with
        | nil => simpa using hU.hz
        | cons a as =>
          simp only [List.headD_cons]
          have : a ∈ r2.2 := by rw [hl]; simp
          rw [hk2] at this
          exact hsel1 a (List.mem_of_mem_drop this)
      simp only [mergeTrees]
      intro hn
      by_cases hlt : r2.2.headD ((0 : Nat) : K) < ((r2.1.n : Nat) : K) / ((max (t1.n + r2.1.n) 1 : Nat) : K)
      · simp only [hlt, if_true]
        apply ih2
        by_contra h0
        have h0' : r2.1.n = 0 := by omega
        rw [h0'] at hlt
        exact hU.h0 _ _ (by omega) hu hlt
      · simp only [hlt, if_false]
        apply ih1
        by_contra h0
        have h0' : t1.n = 0 := by omega
        have hpos : 0 < r2.1.n := by omega
        apply hlt
        rw [h0', Nat.zero_add]
        have hmax : max r2.1.n 1 = r2.1.n := by omega
        rw [hmax]
        exact hU.h1 _ _ hpos hu

end tree

section transition
variable (target : V → K × V) (dot : V → V → K) (logu eps joint0 : K)

def OnTraj (z0 z : Pt K V) : Prop :=
  ∃ k : Nat, z = (leapfrog target eps)^[k + 1] z0 ∨ z = (leapfrog target (-eps))^[k + 1] z0

def LoopInv (U : K → Prop) (pos0 : V) (z0 : Pt K V) (st : Loop K V) : Prop :=
  (∃ a, st.minus = (leapfrog target (-eps))^[a] z0) ∧ (∃ b, st.plus = (leapfrog target eps)^[b] z0)
  ∧ (st.pos = pos0 ∨ ∃ z, z.pos = st.pos ∧ Adm dot logu z ∧ OnTraj target eps z0 z)
  ∧ (∀ u ∈ st.sel, U u) ∧ (∀ u ∈ st.acc, U u) ∧ 0 < st.n

theorem doubling_inv (U : K → Prop) (hU : UnifLaws U) (pos0 : V) (z0 : Pt K V) (st : Loop K V)
    (h : LoopInv target dot logu eps U pos0 z0 st) :
    LoopInv target dot logu eps U pos0 z0 (doubling target dot logu eps joint0 st) := by
  obtain ⟨⟨a, ha⟩, ⟨b, hb⟩, hpos, hsel, hacc, hn0⟩ := h
  generalize hd : (!(decide (st.dirs.headD ((0 : Nat) : K) < (halfK : K)))) = dirNeg
  have hdoub : doubling target dot logu eps joint0 st =
      (let start := if dirNeg then st.minus else st.plus
       let r := buildTree target dot logu dirNeg eps joint0 st.j start st.sel
       let t := r.1
       let minus := if dirNeg then t.minus else st.minus
       let plus := if dirNeg then st.plus else t.plus
       let tmp := minOne (((t.n : Nat) : K) / ((st.n : Nat) : K))
       let u2 := st.acc.headD (((0 : Nat) : K))
       let adopt := t.s && decide (u2 < tmp)
       { pos := if adopt then t.prime.pos else st.pos
         minus := minus, plus := plus, j := st.j + 1, n := st.n + t.n
         s := t.s && noUTurn dot minus plus
         alpha := t.alpha, nalpha := t.nalpha
         dirs := st.dirs.tail, sel := r.2, acc := st.acc.tail
         log := st.log ++ [(dirNeg, t.n, t.s, adopt)] }) := by
    subst hd; rfl
  rw [hdoub]
  dsimp only
  obtain ⟨c, hc⟩ : ∃ c, (if dirNeg then st.minus else st.plus) = (leapfrog target (stepOf dirNeg eps))^[c] z0 := by
    cases dirNeg
    · exact ⟨b, by simpa [stepOf] using hb⟩
    · exact ⟨a, by simpa [stepOf] using ha⟩
  generalize hstart : (if dirNeg then st.minus else st.plus) = start at hc ⊢
  obtain ⟨hchain, hne, houter, hinner⟩ :=
    buildTree_leaves_chain target dot logu dirNeg eps joint0 st.j start st.sel
  have hmem := buildTree_prime_mem target dot logu dirNeg eps joint0 st.j start st.sel
  have hadm := buildTree_prime_admissible target dot logu dirNeg eps joint0 U hU st.j start st.sel hsel
  obtain ⟨ksuf, hsuf⟩ := buildTree_sel_suffix target dot logu dirNeg eps joint0 st.j start st.sel
  generalize hr : buildTree target dot logu dirNeg eps joint0 st.j start st.sel = r at *
  refine ⟨?_, ?_, ?_, ?_, ?_, Nat.add_pos_left hn0 _⟩
  · cases dirNeg
    · exact ⟨a, by simpa using ha⟩
    · refine ⟨r.1.leaves.length + c, ?_⟩
      simp only [startOf, if_true, stepOf] at houter hc ⊢
      rw [houter, hc, ← Function.iterate_add_apply]
  · cases dirNeg
    · refine ⟨r.1.leaves.length + c, ?_⟩
      simp only [startOf, stepOf, Bool.false_eq_true, if_false] at houter hc ⊢
      rw [houter, hc, ← Function.iterate_add_apply]
    · exact ⟨b, by simpa using hb⟩
  · by_cases hadopt : (r.1.s && decide (st.acc.headD ((0 : Nat) : K) < minOne (((r.1.n : Nat) : K) / ((st.n : Nat) : K)))) = true
    · simp only [hadopt, if_true]
      right
      rw [Bool.and_eq_true, decide_eq_true_eq] at hadopt
      have hu0 : U (st.acc.headD ((0 : Nat) : K)) := by
        cases hl : st.acc with
        | nil => simpa using hU.hz
        | cons u us => simpa [hl] using hacc u (by rw [hl]; exact List.mem_cons_self)
      have hn : 0 < r.1.n := by
        by_contra h0
        have h0' : r.1.n = 0 := by omega
        rw [h0'] at hadopt
        exact hU.h2 _ _ hn0 hu0 hadopt.2
      refine ⟨r.1.prime, rfl, hadm hn, ?_⟩
      rw [hchain] at hmem
      obtain ⟨k, _, hk⟩ := List.mem_map.mp hmem
      refine ⟨k + c, ?_⟩
      rw [← hk, hc, ← Function.iterate_add_apply]
      cases dirNeg
      · left; simp only [stepOf, Bool.false_eq_true, if_false]; congr 1; omega
      · right; simp only [stepOf, if_true]; congr 1; omega
    · simp only [hadopt]
      simpa using hpos
  · intro u hu
    rw [hsuf] at hu
    exact hsel u (List.mem_of_mem_drop hu)
  · intro u hu
    exact hacc u (List.mem_of_mem_tail hu)

/-- **the whole transition, arbitrary carrier** -/
theorem transition_next_state (U : K → Prop) (hU : UnifLaws U) (pos mom0 : V) (exp1 : K) (dirs sel acc : List K)
    (fuel : Nat) (st' : Loop K V) (hsel : ∀ u ∈ sel, U u) (hacc : ∀ u ∈ acc, U u)
    (h : transition target dot eps pos mom0 exp1 dirs sel acc fuel = some st') :
    let z0 : Pt K V := ⟨pos, mom0, (target pos).2, (target pos).1⟩
    let logu := joint dot z0 - exp1
    st'.pos = pos ∨ ∃ z : Pt K V, z.pos = st'.pos ∧ logu < joint dot z ∧ OnTraj target eps z0 z := by
  intro z0 logu
  unfold transition at h
  simp only at h
  have hinv0 : LoopInv target dot logu eps U pos z0
      ⟨pos, z0, z0, 0, 1, true, ((0 : Nat) : K), 0, dirs, sel, acc, []⟩ :=
    ⟨⟨0, rfl⟩, ⟨0, rfl⟩, Or.inl rfl, hsel, hacc, Nat.one_pos⟩
  have hfinal : ∀ (fuel : Nat) (st : Loop K V), LoopInv target dot logu eps U pos z0 st →
      loop target dot logu eps (joint dot z0) fuel st = some st' → LoopInv target dot logu eps U pos z0 st' := by
    intro fuel
    induction fuel with
    | zero => intro st _ h; simp [loop] at h
    | succ f ih =>
      intro st hst h
      simp only [loop] at h
      split at h
      · exact ih _ (doubling_inv target dot logu eps (joint dot z0) U hU pos z0 st hst) h
      · simp only [Option.some.injEq] at h; subst h; exact hst
  exact (hfinal fuel _ hinv0 h).2.2.1

end transition

/-- **C14 for NUTS, at the level of the whole transition**: on every carrier satisfying the IEEE special-value laws
    and the three uniform laws, a transition that terminates ends at the start position or at the position of a point of
    the leapfrog trajectory whose log-density is neither NaN nor −inf — whatever the target returns elsewhere
    (NaN gradients, divergent energies, overflowing step sizes included). -/
theorem nuts_transition_never_bad {F V : Type} [Add F] [Sub F] [Mul F] [Div F] [Neg F] [LT F] [LE F] [DecidableLT F]
    [DecidableLE F] [NatCast F] [HasExp F] [L : IEEELaws F] [Add V] [Sub V] [SMul F V]
    (U : F → Prop) (hU : UnifLaws U) (target : V → F × V) (dot : V → V → F) (eps : F) (pos mom0 : V) (exp1 : F)
    (dirs sel acc : List F) (fuel : Nat) (st' : Loop F V) (hsel : ∀ u ∈ sel, U u) (hacc : ∀ u ∈ acc, U u)
    (h : transition target dot eps pos mom0 exp1 dirs sel acc fuel = some st') :
    st'.pos = pos ∨ ∃ z : Pt F V, z.pos = st'.pos ∧ ¬ L.Bad z.logp
      ∧ OnTraj target eps ⟨pos, mom0, (target pos).2, (target pos).1⟩ z := by
  rcases transition_next_state target dot eps U hU pos mom0 exp1 dirs sel acc fuel st' hsel hacc h with h | ⟨z, hz, hadm, htr⟩
  · exact Or.inl h
  · exact Or.inr ⟨z, hz, MiniMcmcVerif.NUTS.nuts_admissible_not_bad dot _ z hadm, htr⟩

/-- every point at least one leapfrog step along the trajectory carries the log-density of its own position -/
theorem iterate_logp {F V : Type} [Add F] [Sub F] [Mul F] [Div F] [NatCast F] [Add V] [SMul F V]
    (target : V → F × V) (e : F) (k : Nat) (z0 : Pt F V) :
    ((leapfrog target e)^[k + 1] z0).logp = (target ((leapfrog target e)^[k + 1] z0).pos).1 := by
  rw [Function.iterate_succ_apply']
  rfl

/-- **"nor to a position with non-finite coordinates"**: if the target assigns a NaN / −inf density to every position
    outside a set `Good` (e.g. the positions with finite coordinates inside the support), a transition that terminates ends at
    the start position or at a position in `Good`. -/
theorem nuts_transition_good_position {F V : Type} [Add F] [Sub F] [Mul F] [Div F] [Neg F] [LT F] [LE F] [DecidableLT F]
    [DecidableLE F] [NatCast F] [HasExp F] [L : IEEELaws F] [Add V] [Sub V] [SMul F V]
    (U : F → Prop) (hU : UnifLaws U) (target : V → F × V) (dot : V → V → F) (eps : F) (pos mom0 : V) (exp1 : F)
    (dirs sel acc : List F) (fuel : Nat) (st' : Loop F V) (hsel : ∀ u ∈ sel, U u) (hacc : ∀ u ∈ acc, U u)
    (Good : V → Prop) (hgood : ∀ x : V, ¬ Good x → L.Bad (target x).1)
    (h : transition target dot eps pos mom0 exp1 dirs sel acc fuel = some st') :
    st'.pos = pos ∨ Good st'.pos := by
  rcases nuts_transition_never_bad U hU target dot eps pos mom0 exp1 dirs sel acc fuel st' hsel hacc h with h | ⟨z, hz, hnb, k, hk | hk⟩
  · exact Or.inl h
  · right
    by_contra hng
    apply hnb
    rw [hk, iterate_logp]
    rw [← hz, hk] at hng
    exact hgood _ hng
  · right
    by_contra hng
    apply hnb
    rw [hk, iterate_logp]
    rw [← hz, hk] at hng
    exact hgood _ hng

/-! ### the uniform laws hold on every ordered field … -/
section field
variable {K : Type} [Field K] [LinearOrder K] [IsStrictOrderedRing K]

theorem unifLaws_field : UnifLaws (K := K) (fun u => 0 ≤ u ∧ u < 1) where
  h0 := by
    intro u n _ hu h
    simp only [Nat.cast_zero, zero_div] at h
    exact absurd hu.1 (not_le.mpr h)
  h1 := by
    intro u n hn hu
    have hne : ((n : Nat) : K) ≠ 0 := by exact_mod_cast (by omega : n ≠ 0)
    rw [div_self hne]; exact hu.2
  h2 := by
    intro u n _ hu h
    simp only [Nat.cast_zero, zero_div, minOne, Nat.cast_one, zero_lt_one, if_true] at h
    exact absurd hu.1 (not_le.mpr h)
  hz := by simp
end field

/-! ### … and on the float-like carrier `XR` (NaN | −inf | finite | +inf), where `0/0 = NaN` -/
section xr
open XR

def xdiv : XR → XR → XR
  | .fin x, .fin y => if y = 0 then (if x = 0 then .nan else if 0 < x then .pinf else .ninf) else .fin (x / y)
  | _, _ => .nan
instance : Div XR := ⟨xdiv⟩
instance : NatCast XR := ⟨fun n => .fin n⟩

theorem xr_cast (n : Nat) : ((n : Nat) : XR) = .fin (n : Rat) := rfl
theorem xr_div (a b : Rat) (hb : b ≠ 0) : (XR.fin a / XR.fin b : XR) = .fin (a / b) := by
  show xdiv (.fin a) (.fin b) = _
  simp [xdiv, hb]
theorem xr_lt (a b : Rat) : ((XR.fin a : XR) < .fin b) ↔ a < b := Iff.rfl

/-- a finite value in `[0,1)` -/
def unitXR (u : XR) : Prop := ∃ q : Rat, u = .fin q ∧ 0 ≤ q ∧ q < 1

theorem unifLaws_xr : UnifLaws (K := XR) unitXR where
  h0 := by
    rintro u n hn ⟨q, rfl, hq0, _⟩ h
    have hne : ((n : Nat) : Rat) ≠ 0 := by exact_mod_cast (by omega : n ≠ 0)
    rw [xr_cast, xr_cast, xr_div _ _ hne, xr_lt] at h
    simp only [Nat.cast_zero, zero_div] at h
    exact absurd hq0 (not_le.mpr h)
  h1 := by
    rintro u n hn ⟨q, rfl, _, hq1⟩
    have hne : ((n : Nat) : Rat) ≠ 0 := by exact_mod_cast (by omega : n ≠ 0)
    rw [xr_cast, xr_div _ _ hne, xr_lt, div_self hne]
    exact hq1
  h2 := by
    rintro u n hn ⟨q, rfl, hq0, _⟩ h
    have hne : ((n : Nat) : Rat) ≠ 0 := by exact_mod_cast (by omega : n ≠ 0)
    unfold minOne at h
    rw [xr_cast, xr_cast, xr_cast, xr_div _ _ hne] at h
    simp only [Nat.cast_zero, zero_div, Nat.cast_one] at h
    rw [if_pos ((xr_lt 0 1).mpr zero_lt_one), xr_lt] at h
    exact absurd hq0 (not_le.mpr h)
  hz := ⟨0, by rw [xr_cast]; simp, le_refl _, by norm_num⟩

/-- non-vacuity of `nuts_transition_never_bad`: it applies to `XR` (any `exp`) -/
example [HasExp XR] (target : XR → XR × XR) (dot : XR → XR → XR) (eps pos mom0 exp1 : XR)
    (dirs sel acc : List XR) (fuel : Nat) (st' : Loop XR XR) (hsel : ∀ u ∈ sel, unitXR u) (hacc : ∀ u ∈ acc, unitXR u)
    (h : transition target dot eps pos mom0 exp1 dirs sel acc fuel = some st') :
    st'.pos = pos ∨ ∃ z : Pt XR XR, z.pos = st'.pos ∧ ¬ IEEELaws.Bad z.logp
      ∧ OnTraj target eps ⟨pos, mom0, (target pos).2, (target pos).1⟩ z :=
  nuts_transition_never_bad unitXR unifLaws_xr target dot eps pos mom0 exp1 dirs sel acc fuel st' hsel hacc h
end xr

end MiniMcmcVerif.NUTS.Gen

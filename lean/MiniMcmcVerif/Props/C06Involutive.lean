import MiniMcmcVerif.Props.C02
import Mathlib.Algebra.BigOperators.Group.Finset.Basic
import Mathlib.Algebra.BigOperators.Ring.Finset
import Mathlib.Algebra.Order.Field.Basic
import Mathlib.Data.Fintype.Prod
import Mathlib.Data.Fintype.BigOperators
import Mathlib.Logic.Function.Basic
import Mathlib.Tactic.Linarith
import Mathlib.Tactic.FieldSimp
import Mathlib.Tactic.Ring
import Mathlib.Data.ZMod.Defs
import Mathlib.Algebra.Field.ZMod
import Mathlib.Tactic.NormNum

/-!
# C06 / C02 — why "L reversible steps + Metropolis test on H" leaves the target invariant

The HMC update is a Metropolis step whose proposal is *deterministic*: `Φ = flip ∘ F` with `F` the `L`-fold integrator
and `flip` the momentum reversal. `verlet_reversible` says `F (flip (F s)) = flip s`, i.e. `Φ` is an involution.
On a finite phase space (where an involution is automatically a bijection, which plays the role volume preservation
plays on `ℝⁿ`) the kernel "move to `Φ s` with probability `min 1 (π(Φ s)/π(s))`, else stay" leaves every non-negative
weight `π` invariant — zeros allowed. With `π` even in the momentum, `π(Φ s) = π(F s)`, so the acceptance probability
is the coded `min 1 (exp (H s − H (F s)))`, and summing out the momentum gives invariance of the position marginal.
-/

set_option linter.unusedSectionVars false

namespace MiniMcmcVerif.HMC

open Finset

variable {S : Type} [Fintype S] [DecidableEq S]
variable {K : Type} [Field K] [LinearOrder K] [IsStrictOrderedRing K]

/-- acceptance probability of the deterministic proposal `Φ` -/
def accProb (π : S → K) (Φ : S → S) (s : S) : K := min 1 (π (Φ s) / π s)

/-- transition weight of the involutive Metropolis kernel -/
def invKernel (π : S → K) (Φ : S → S) (s t : S) : K :=
  (if t = Φ s then accProb π Φ s else 0) + (if t = s then 1 - accProb π Φ s else 0)

theorem flow_balance (π : S → K) (hπ : ∀ s, 0 ≤ π s) (Φ : S → S) (hΦ : Function.Involutive Φ) (t : S) :
    π (Φ t) * accProb π Φ (Φ t) = π t * accProb π Φ t := by
  unfold accProb
  rw [hΦ t]
  have key : ∀ a b : K, 0 ≤ a → 0 ≤ b → a * min 1 (b / a) = min a b := by
    intro a b ha hb
    rcases eq_or_lt_of_le ha with h | h
    · subst h; simp [hb]
    · rw [mul_min_of_nonneg _ _ ha, mul_one, mul_div_cancel₀ _ (ne_of_gt h)]
  rw [key _ _ (hπ _) (hπ _), key _ _ (hπ _) (hπ _), min_comm]

/-- **involutive Metropolis leaves `π` invariant**: `Σ_s π(s)·T(s,t) = π(t)` for every involution `Φ` and every
    non-negative weight (zeros allowed). -/
theorem involutive_mh_invariant (π : S → K) (hπ : ∀ s, 0 ≤ π s) (Φ : S → S) (hΦ : Function.Involutive Φ) (t : S) :
    ∑ s, π s * invKernel π Φ s t = π t := by
  unfold invKernel
  simp only [mul_add, Finset.sum_add_distrib, mul_ite, mul_zero]
  have h1 : ∑ s, (if t = Φ s then π s * accProb π Φ s else 0) = π (Φ t) * accProb π Φ (Φ t) := by
    rw [Finset.sum_eq_single (Φ t)]
    · simp [hΦ t]
    · intro s _ hs
      have : t ≠ Φ s := by
        intro h; apply hs; rw [h, hΦ s]
      simp [this]
    · intro h; exact absurd (mem_univ _) h
  have h2 : ∑ s, (if t = s then π s * (1 - accProb π Φ s) else 0) = π t * (1 - accProb π Φ t) := by
    simp
  rw [h1, h2, flow_balance π hπ Φ hΦ t]
  ring

/-- each row of the kernel sums to one -/
theorem invKernel_row_sum (π : S → K) (Φ : S → S) (s : S) : ∑ t, invKernel π Φ s t = 1 := by
  unfold invKernel
  simp [Finset.sum_add_distrib]

/-- reversibility of an integrator `F` w.r.t. a reflection makes `flip ∘ F` an involution — the shape of
    `verlet_reversible` -/
theorem involutive_of_reversible (F flp : S → S) (hflip : Function.Involutive flp)
    (hrev : ∀ s, F (flp (F s)) = flp s) : Function.Involutive (flp ∘ F) := by
  intro s
  simp only [Function.comp]
  rw [hrev s, hflip s]

/-- **the HMC update leaves `π` invariant** on a finite phase space: any integrator that is reversible w.r.t. the
    momentum flip, any weight that is even under the flip; the acceptance probability is `min 1 (π(F s)/π(s))`
    (`= min 1 (exp (H s − H (F s)))` for `π = exp (−H)`) — what the coded test `ln u ≤ H − H'` realises. -/
theorem hmc_kernel_invariant (π : S → K) (hπ : ∀ s, 0 ≤ π s) (F flp : S → S) (hflip : Function.Involutive flp)
    (hrev : ∀ s, F (flp (F s)) = flp s) (heven : ∀ s, π (flp s) = π s) (t : S) :
    (∑ s, π s * invKernel π (flp ∘ F) s t = π t)
    ∧ ∀ s, accProb π (flp ∘ F) s = min 1 (π (F s) / π s) := by
  refine ⟨involutive_mh_invariant π hπ _ (involutive_of_reversible F flp hflip hrev) t, ?_⟩
  intro s; unfold accProb; simp [heven]

end MiniMcmcVerif.HMC

namespace MiniMcmcVerif.HMC

open Finset

variable {X P : Type} [Fintype X] [DecidableEq X] [Fintype P] [DecidableEq P]
variable {K : Type} [Field K] [LinearOrder K] [IsStrictOrderedRing K]

/-- **position marginal**: with `π(x,p) = w(x)·ν(p)`, drawing the momentum from `ν`, applying the involutive kernel
    and forgetting the momentum leaves `w` invariant (up to the common factor `Σ ν`). -/
theorem hmc_position_marginal_invariant (w : X → K) (ν : P → K) (hw : ∀ x, 0 ≤ w x) (hν : ∀ p, 0 ≤ ν p)
    (Φ : X × P → X × P) (hΦ : Function.Involutive Φ) (x' : X) :
    ∑ x, w x * (∑ p, ν p * ∑ p', invKernel (fun s : X × P => w s.1 * ν s.2) Φ (x, p) (x', p'))
      = w x' * ∑ p', ν p' := by
  have h := fun p' => involutive_mh_invariant (fun s : X × P => w s.1 * ν s.2)
    (fun s => mul_nonneg (hw _) (hν _)) Φ hΦ (x', p')
  simp only [Fintype.sum_prod_type] at h
  rw [Finset.mul_sum, ← Finset.sum_congr rfl (fun p' _ => h p'), Finset.sum_comm]
  apply Finset.sum_congr rfl
  intro x _
  rw [Finset.mul_sum, Finset.sum_comm]
  apply Finset.sum_congr rfl
  intro p _
  rw [Finset.mul_sum, Finset.mul_sum]
  apply Finset.sum_congr rfl
  intro p' _
  ring

end MiniMcmcVerif.HMC

namespace MiniMcmcVerif.HMC

open Finset

/-- **the coded integrator itself**: on any finite module `V` over any field `F` (e.g. `(ZMod p)ⁿ`), for every gradient
    field, step size and `L`, the HMC kernel built from `L` `verlet` steps leaves every momentum-even non-negative
    weight invariant. -/
theorem hmc_verlet_invariant {F V K : Type} [Field F] [AddCommGroup V] [Module F V] [Fintype V] [DecidableEq V]
    [Field K] [LinearOrder K] [IsStrictOrderedRing K]
    (grad : V → V) (eps half : F) (L : Nat) (π : V × V → K) (hπ : ∀ s, 0 ≤ π s)
    (heven : ∀ s, π (flip s) = π s) (t : V × V) :
    ∑ s, π s * invKernel π (flip ∘ (verlet grad eps half)^[L]) s t = π t :=
  (hmc_kernel_invariant π hπ ((verlet grad eps half)^[L]) flip
    (fun s => by simp [flip]) (verlet_reversible grad eps half L) heven t).1

/-! non-vacuity: `V = ZMod 5` over itself, gradient `x ↦ -x`; a weight that is even in `p`, not constant, with zeros -/
section nv
local instance : Fact (Nat.Prime 5) := ⟨by decide⟩
def piNV : ZMod 5 × ZMod 5 → ℚ := fun s => if s.1 = 0 then 3 else if s.1 = 1 then 0 else 1
theorem piNV_nonneg (s : ZMod 5 × ZMod 5) : 0 ≤ piNV s := by unfold piNV; split_ifs <;> norm_num
theorem piNV_even (s : ZMod 5 × ZMod 5) : piNV (flip s) = piNV s := rfl
example (t : ZMod 5 × ZMod 5) :
    ∑ s, piNV s * invKernel piNV (flip ∘ (verlet (fun x : ZMod 5 => -x) (2 : ZMod 5) 3)^[2]) s t = piNV t :=
  hmc_verlet_invariant (F := ZMod 5) (fun x => -x) 2 3 2 piNV piNV_nonneg piNV_even t
end nv

end MiniMcmcVerif.HMC

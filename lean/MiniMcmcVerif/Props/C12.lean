import MiniMcmcVerif.Model.Stats
import MiniMcmcVerif.Props.C13
import Mathlib.Algebra.Order.Field.Basic
import Mathlib.Algebra.BigOperators.Group.List.Basic
import Mathlib.Algebra.BigOperators.Ring.List
import Mathlib.Algebra.Order.BigOperators.Group.List
import Mathlib.Tactic.Linarith
import Mathlib.Tactic.Ring

/-!
# C12 — ESS = M·N/τ with Geyer's monotone sequence, whichever autocovariance path runs
-/

set_option linter.unusedSectionVars false
set_option linter.unusedVariables false

namespace MiniMcmcVerif.Stats

/-! ### the FFT padding length -/

theorem npadGo_spec (target fuel k : Nat) (hfuel : target ≤ 2 ^ k * 2 ^ fuel) :
    ∃ j, npadGo target fuel (2 ^ k) = 2 ^ j ∧ target ≤ 2 ^ j := by
  induction fuel generalizing k with
  | zero => exact ⟨k, rfl, by simpa using hfuel⟩
  | succ fuel ih =>
    simp only [npadGo]
    split
    · have e : 2 ^ k * 2 = 2 ^ (k + 1) := (pow_succ 2 k).symm
      rw [e]
      apply ih
      calc target ≤ 2 ^ k * 2 ^ (fuel + 1) := hfuel
        _ = 2 ^ (k + 1) * 2 ^ fuel := by rw [pow_succ, pow_succ]; ring
    · rename_i h
      exact ⟨k, rfl, by omega⟩

/-- **padding**: the length chosen for the FFT is a power of two `≥ 2n - 1` (so circular wrap-around cannot reach
    lags `< n`). -/
theorem npad_spec (n : Nat) : ∃ j, npad n = 2 ^ j ∧ 2 * n - 1 ≤ npad n := by
  have h : 2 * n - 1 ≤ 2 ^ 0 * 2 ^ (2 * n) := by
    have : 2 * n < 2 ^ (2 * n) := Nat.lt_two_pow_self
    omega
  obtain ⟨j, h1, h2⟩ := npadGo_spec (2 * n - 1) (2 * n) 0 h
  refine ⟨j, by simpa [npad] using h1, ?_⟩
  have : npad n = 2 ^ j := by simpa [npad] using h1
  rw [this]; exact h2

section semiring
variable {α : Type} [Field α]

theorem sum_list (xs : List α) : sum xs = xs.sum := by
  unfold sum; rw [List.sum_eq_foldl]

theorem sum_range_zero_tail (f : Nat → α) (a b : Nat) (h : ∀ t, a ≤ t → t < a + b → f t = 0) :
    ((List.range (a + b)).map f).sum = ((List.range a).map f).sum := by
  induction b with
  | zero => simp
  | succ b ih =>
    rw [← Nat.add_assoc, List.range_succ, List.map_append, List.sum_append, ih (fun t h1 h2 => h t h1 (by omega))]
    simp [h (a + b) (by omega) (by omega)]

theorem zipWith_drop_eq (c : List α) (lag : Nat) :
    List.zipWith (· * ·) c (c.drop lag) = (List.range (c.length - lag)).map fun t => c.getD t 0 * c.getD (t + lag) 0 := by
  apply List.ext_getElem
  · simp
  · intro i h1 h2
    simp only [List.length_zipWith, List.length_drop] at h1
    simp only [List.getElem_zipWith, List.getElem_drop, List.getElem_map, List.getElem_range]
    have hi : i < c.length := by omega
    have hi2 : i + lag < c.length := by omega
    have e1 : lag + i = i + lag := Nat.add_comm _ _
    simp [List.getD_eq_getElem?_getD, hi, hi2, e1]

/-- **the two autocovariance paths compute the same function**: for a padded length `np ≥ 2n - 1` and every lag `< n`
    the circular correlation of the zero-padded sequence equals the linear (brute-force) one. -/
theorem circ_eq_linear (c : List α) (np lag : Nat) (hnp : 2 * c.length - 1 ≤ np) (hlag : lag < c.length) :
    ((List.range np).map fun t => padded c t * padded c ((t + lag) % np)).sum
      = (List.zipWith (· * ·) c (c.drop lag)).sum := by
  have hn : 0 < c.length := by omega
  have hsplit : np = (c.length - lag) + (np - (c.length - lag)) := by omega
  rw [zipWith_drop_eq, hsplit, sum_range_zero_tail]
  · apply congrArg
    apply List.map_congr_left
    intro t ht
    have ht' : t < c.length - lag := List.mem_range.mp ht
    have h1 : t < c.length := by omega
    have h2 : t + lag < c.length := by omega
    have h3 : (t + lag) % (c.length - lag + (np - (c.length - lag))) = t + lag := by
      apply Nat.mod_eq_of_lt; omega
    simp [padded, h1, h2, h3]
  · intro t h1 h2
    by_cases ht : t < c.length
    · have h3 : (t + lag) % (c.length - lag + (np - (c.length - lag))) = t + lag := by
        apply Nat.mod_eq_of_lt; omega
      have h4 : ¬ t + lag < c.length := by omega
      simp [padded, h3, h4]
    · simp [padded, ht]

/-- `autocov_fft`'s value (by the DFT correlation identity) equals `autocov_bf`'s, lag by lag. -/
theorem autocovCirc_eq_autocovBF (xs : List α) : autocovCirc xs = autocovBF xs := by
  unfold autocovCirc autocovBF
  apply List.map_congr_left
  intro lag hlag
  have hl : lag < xs.length := List.mem_range.mp hlag
  have hc : (centre xs).length = xs.length := by simp [centre]
  simp only [sum_list]
  rw [circ_eq_linear (centre xs) (npad xs.length) lag (by rw [hc]; exact (npad_spec xs.length).choose_spec.2) (by rw [hc]; exact hl)]

/-- hence the 100-row switch does not change the function. -/
theorem autocov_eq_autocovBF (xs : List α) : autocov xs = autocovBF xs := by
  unfold autocov; split
  · rfl
  · exact autocovCirc_eq_autocovBF xs

end semiring

section geyer
variable {α : Type} [Field α] [LinearOrder α] [IsStrictOrderedRing α]

/-- running minimum of a sequence, seeded with `m` -/
def runMin : List α → α → List α
  | [], _ => []
  | p :: ps, m => min p m :: runMin ps (min p m)

/-- **Geyer's initial positive monotone sequence**: what the loop accumulates is the running minimum of the maximal
    prefix of strictly positive pair sums. -/
theorem geyerSeq_eq (ps : List α) (mn : α) : geyerSeq ps mn = runMin (ps.takeWhile (0 < ·)) mn := by
  induction ps generalizing mn with
  | nil => simp [geyerSeq, runMin]
  | cons p ps ih =>
    simp only [geyerSeq]
    by_cases hp : p ≤ 0
    · have : ¬ (0 < p) := not_lt.mpr hp
      simp [hp, List.takeWhile_cons, this, runMin]
    · have hp' : 0 < p := not_le.mp hp
      simp only [hp, if_false, List.takeWhile_cons, hp', decide_true, if_true, runMin]
      have e : (if mn < p then mn else p) = min p mn := by
        by_cases h : mn < p
        · simp [h, min_eq_right h.le]
        · simp [h, min_eq_left (not_lt.mp h)]
      rw [e, ih]

/-- the loop's result is the running total plus the sum of that sequence. -/
theorem geyer_eq_sum (ps : List α) (mn out : α) : geyer ps mn out = out + (geyerSeq ps mn).sum := by
  induction ps generalizing mn out with
  | nil => simp [geyer, geyerSeq]
  | cons p ps ih =>
    simp only [geyer, geyerSeq]
    split
    · simp
    · rw [ih]; simp [List.sum_cons]; ring

/-- the summed sequence is **positive** and **non-increasing** (given a positive seed; the code seeds with the first
    pair sum itself, so the first term is that pair sum). -/
theorem geyerSeq_pos_antitone (ps : List α) (mn : α) (hmn : 0 < mn) :
    (∀ x ∈ geyerSeq ps mn, 0 < x ∧ x ≤ mn) ∧ (geyerSeq ps mn).Pairwise (· ≥ ·) := by
  induction ps generalizing mn with
  | nil => simp [geyerSeq]
  | cons p ps ih =>
    simp only [geyerSeq]
    by_cases hp : p ≤ 0
    · simp [hp]
    · have hp' : 0 < p := not_le.mp hp
      simp only [hp, if_false]
      have hpos : 0 < (if mn < p then mn else p) := by split <;> assumption
      have hle : (if mn < p then mn else p) ≤ mn := by
        split
        · exact le_refl _
        · rename_i h; exact not_lt.mp h
      obtain ⟨h1, h2⟩ := ih _ hpos
      constructor
      · intro x hx
        rcases List.mem_cons.mp hx with rfl | hx
        · exact ⟨hpos, hle⟩
        · exact ⟨(h1 x hx).1, le_trans (h1 x hx).2 hle⟩
      · exact List.pairwise_cons.mpr ⟨fun x hx => (h1 x hx).2, h2⟩

/-- **τ = −1 + 2·Σ (Geyer sequence)** and **ESS = M·N/τ**: the third component of `essWith` is `(1/τ)·M·N` with
    `τ` the second component, and `τ` is `-1 + 2·Σ` of the sequence characterised above. -/
theorem tau_eq (acov : List α → List α) (data : List (List α)) (w v : α) :
    let r := essWith acov data w v
    let ps := pairSums r.1
    let mn0 : α := if 2 ≤ r.1.length then r.1.getD 0 0 + r.1.getD 1 0 else 0
    r.2.1 = -1 + 2 * (geyerSeq ps mn0).sum
    ∧ r.2.2 = (1 / r.2.1) * (data.length : α) * ((data.headD []).length : α) := by
  simp only [essWith, geyer_eq_sum, Nat.cast_one, Nat.cast_ofNat, zero_add, zero_sub]
  constructor <;> trivial

/-- whichever autocovariance path is selected, `ess` is the same function of the data. -/
theorem ess_path_independent (data : List (List α)) (w v : α) :
    essWith autocov data w v = essWith autocovBF data w v := by
  have : (autocov : List α → List α) = autocovBF := funext autocov_eq_autocovBF
  rw [this]

end geyer

/-! ### non-vacuity -/
example : npad 5 = 16 ∧ npad 1 = 1 ∧ npad 101 = 256 := by decide
example : autocovCirc [(1 : ℚ), 3, 2, 6] = autocovBF [(1 : ℚ), 3, 2, 6] := autocovCirc_eq_autocovBF _
example : geyerSeq [(3 : ℚ), 5, 1, -1, 4] 3 = [3, 3, 1] := by decide +kernel

end MiniMcmcVerif.Stats

import MiniMcmcVerif.Model.Run
import Mathlib.Logic.Function.Iterate

/-!
# C09 — `run()`: shape, chain order, burn-in discard and continuation are exact

Theorems about the loop models in `Model/Run.lean`, for every `c`, `d`, every chain (`step`, `obs`) and every start
state. `step^[n]` is `n`-fold iteration.
-/

namespace MiniMcmcVerif.Run

variable {σ ρ : Type}

theorem replicate_eq_map_range (c : Nat) (zero : ρ) :
    List.replicate c zero = List.map (fun _ => zero) (List.range c) := by
  apply List.ext_getElem <;> simp

theorem iter_eq (step : σ → σ) (n : Nat) (s : σ) : iter step n s = step^[n] s := by
  induction n generalizing s with
  | zero => rfl
  | succ n ih => simp [iter, ih]

/-- Loop invariant of `run_chain`: after the first `i ≤ c + d` iterations the chain has made exactly `i`
    transitions and row `k` is filled iff `d + k < i`. -/
theorem runChain_inv (step : σ → σ) (obs : σ → ρ) (zero : ρ) (c d : Nat) (s : σ) (i : Nat) :
    (List.range i).foldl (runBody step obs d) (s, List.replicate c zero)
      = (step^[i] s, (List.range c).map fun k => if d + k < i then obs (step^[d + k + 1] s) else zero) := by
  induction i with
  | zero => simp [replicate_eq_map_range]
  | succ i ih =>
    rw [List.range_succ, List.foldl_append, ih]
    simp only [List.foldl_cons, List.foldl_nil, runBody]
    have hst : step (step^[i] s) = step^[i + 1] s := (Function.iterate_succ_apply' step i s).symm
    rw [hst]
    refine Prod.ext rfl ?_
    simp only
    split
    · rename_i hdi
      apply List.ext_getElem
      · simp
      · intro k h1 h2
        simp only [List.length_set, List.length_map, List.length_range] at h1
        simp only [List.getElem_set, List.getElem_map, List.getElem_range]
        by_cases hk : i - d = k
        · have : d + k = i := by omega
          simp [hk, this]
        · simp only [hk, if_false]
          by_cases h3 : d + k < i
          · have : d + k < i + 1 := by omega
            simp [h3, this]
          · have : ¬ d + k < i + 1 := by omega
            simp [h3, this]
    · rename_i hdi
      apply List.map_congr_left
      intro k _
      have h1 : ¬ d + k < i := by omega
      have h2 : ¬ d + k < i + 1 := by omega
      simp [h1, h2]

/-- **run_chain**: exactly `c` rows; row `k` is the state after exactly `d + k + 1` transitions; the chain is
    left after exactly `c + d` transitions (no transition more than needed). -/
theorem runChain_spec (step : σ → σ) (obs : σ → ρ) (zero : ρ) (c d : Nat) (s : σ) :
    runChain step obs zero c d s
      = (step^[c + d] s, (List.range c).map fun k => obs (step^[d + k + 1] s)) := by
  unfold runChain
  rw [runChain_inv]
  refine Prod.ext rfl ?_
  apply List.map_congr_left
  intro k hk
  have : d + k < c + d := by have := List.mem_range.mp hk; omega
  simp [this]

theorem runChain_length (step : σ → σ) (obs : σ → ρ) (zero : ρ) (c d : Nat) (s : σ) :
    (runChain step obs zero c d s).2.length = c := by
  rw [runChain_spec]; simp

/-- the sampler is left at the last returned state. -/
theorem runChain_last (step : σ → σ) (obs : σ → ρ) (zero : ρ) (c d : Nat) (s : σ) (hc : 0 < c) :
    (runChain step obs zero c d s).2.getLast? = some (obs (runChain step obs zero c d s).1) := by
  rw [runChain_spec]
  obtain ⟨c', rfl⟩ : ∃ c', c = c' + 1 := ⟨c - 1, by omega⟩
  simp only [List.range_succ, List.map_append, List.map_cons, List.map_nil]
  rw [List.getLast?_append]
  simp only [List.getLast?_singleton, Option.some_or]
  have : d + c' + 1 = c' + 1 + d := by omega
  rw [this]

/-- **Continuation** (MH, Gibbs): a run followed by a second run without burn-in returns exactly what one
    longer run returns, and leaves the chain in the same state. -/
theorem run_continuation (step : σ → σ) (obs : σ → ρ) (zero : ρ) (c₁ c₂ d : Nat) (s : σ) :
    let r₁ := runChain step obs zero c₁ d s
    let r₂ := runChain step obs zero c₂ 0 r₁.1
    runChain step obs zero (c₁ + c₂) d s = (r₂.1, r₁.2 ++ r₂.2) := by
  simp only [runChain_spec]
  refine Prod.ext ?_ ?_
  · simp only [Nat.add_zero]
    rw [← Function.iterate_add_apply]
    congr 1; omega
  · simp only
    rw [List.range_add, List.map_append, List.map_map]
    congr 1
    apply List.map_congr_left
    intro k _
    simp only [Function.comp, Nat.zero_add]
    rw [← Function.iterate_add_apply]
    congr 2; omega

/-- General continuation: the second call may have its own burn-in `d₂`; its rows are the iterates counted from
    the state the first call left. -/
theorem run_second_call (step : σ → σ) (obs : σ → ρ) (zero : ρ) (c₁ d₁ c₂ d₂ : Nat) (s : σ) :
    (runChain step obs zero c₂ d₂ (runChain step obs zero c₁ d₁ s).1).2
      = (List.range c₂).map fun k => obs (step^[c₁ + d₁ + d₂ + k + 1] s) := by
  simp only [runChain_spec]
  apply List.map_congr_left
  intro k _
  rw [← Function.iterate_add_apply]
  congr 2; omega

/-! ### HMC -/

theorem hmcRun_inv (step : σ → σ) (obs : σ → ρ) (zero : ρ) (c : Nat) (s1 : σ) (i : Nat) (hi : i ≤ c) :
    (List.range' 1 i).foldl
        (fun (acc : σ × List ρ) stepi => let st := step acc.1; (st, acc.2.set (stepi - 1) (obs st)))
        (s1, List.replicate c zero)
      = (step^[i] s1, (List.range c).map fun k => if k < i then obs (step^[k + 1] s1) else zero) := by
  induction i with
  | zero => simp [replicate_eq_map_range]
  | succ i ih =>
    rw [List.range'_1_concat, List.foldl_append, ih (by omega)]
    simp only [List.foldl_cons, List.foldl_nil]
    have hst : step (step^[i] s1) = step^[i + 1] s1 := (Function.iterate_succ_apply' step i s1).symm
    rw [hst]
    refine Prod.ext rfl ?_
    simp only
    apply List.ext_getElem
    · simp
    · intro k h1 h2
      simp only [List.length_set, List.length_map, List.length_range] at h1
      simp only [List.getElem_set, List.getElem_map, List.getElem_range]
      by_cases hk : 1 + i - 1 = k
      · have : k = i := by omega
        subst this
        simp
      · simp only [hk, if_false]
        by_cases h3 : k < i
        · have : k < i + 1 := by omega
          simp [h3, this]
        · have : ¬ k < i + 1 := by omega
          simp [h3, this]

/-- **HMC::run** (before the permute): row `k` is the batch after exactly `d + k + 1` steps, `c + d` steps in all. -/
theorem hmcRun_spec (step : σ → σ) (obs : σ → ρ) (zero : ρ) (c d : Nat) (s : σ) :
    hmcRun step obs zero c d s
      = (step^[c + d] s, (List.range c).map fun k => obs (step^[d + k + 1] s)) := by
  unfold hmcRun
  simp only [iter_eq]
  rw [hmcRun_inv step obs zero c _ c (Nat.le_refl c)]
  refine Prod.ext ?_ ?_
  · simp only; rw [← Function.iterate_add_apply]
  · simp only
    apply List.map_congr_left
    intro k hk
    have : k < c := List.mem_range.mp hk
    simp only [this, if_true]
    rw [← Function.iterate_add_apply]
    congr 2; omega

/-- HMC's loop computes exactly what the generic `run_chain` loop computes (so continuation etc. carry over). -/
theorem hmcRun_eq_runChain (step : σ → σ) (obs : σ → ρ) (zero : ρ) (c d : Nat) (s : σ) :
    hmcRun step obs zero c d s = runChain step obs zero c d s := by
  rw [hmcRun_spec, runChain_spec]

/-- after the permute, entry `[chain][k]` is chain `chain`'s row of the batch after `d + k + 1` steps. -/
theorem permute10_spec (nChains : Nat) (rows : List (List ρ)) (dflt : ρ) (ch k : Nat)
    (hch : ch < nChains) (hk : k < rows.length) :
    ((permute10 nChains rows dflt)[ch]'(by simp [permute10, hch]))[k]'(by simp [permute10, hk])
      = (rows[k]).getD ch dflt := by
  simp [permute10]

/-! ### NUTS -/

theorem nutsRun_inv (step : σ → σ) (obs : σ → ρ) (zero : ρ) (c d : Nat) (s0 : σ) (_hc : 0 < c) (i : Nat) :
    (List.range' 1 i).foldl (runBody step obs d) (s0, (List.replicate c zero).set 0 (obs s0))
      = (step^[i] s0, (List.range c).map fun k =>
          if d + k ≤ i then obs (step^[d + k] s0) else if k = 0 then obs s0 else zero) := by
  induction i with
  | zero =>
    simp only [List.range'_zero, List.foldl_nil, Function.iterate_zero, id_eq]
    refine Prod.ext rfl ?_
    simp only
    apply List.ext_getElem
    · simp
    · intro k h1 h2
      simp only [List.length_set, List.length_replicate] at h1
      simp only [List.getElem_set, List.getElem_map, List.getElem_range, List.getElem_replicate]
      by_cases hk : 0 = k
      · subst hk
        by_cases hd : d = 0
        · subst hd; simp
        · simp [hd]
      · have h0 : k ≠ 0 := fun h => hk h.symm
        have : ¬ d + k ≤ 0 := by omega
        simp [hk, h0, this]
  | succ i ih =>
    rw [List.range'_1_concat, List.foldl_append, ih]
    simp only [List.foldl_cons, List.foldl_nil, runBody]
    have hst : step (step^[i] s0) = step^[i + 1] s0 := (Function.iterate_succ_apply' step i s0).symm
    rw [hst]
    refine Prod.ext rfl ?_
    simp only
    split
    · rename_i hdi
      apply List.ext_getElem
      · simp
      · intro k h1 h2
        simp only [List.length_set, List.length_map, List.length_range] at h1
        simp only [List.getElem_set, List.getElem_map, List.getElem_range]
        by_cases hk : 1 + i - d = k
        · have h5 : d + k = i + 1 := by omega
          have h6 : d + k ≤ i + 1 := by omega
          simp [hk, h5]
        · simp only [hk, if_false]
          by_cases h3 : d + k ≤ i
          · have : d + k ≤ i + 1 := by omega
            simp [h3, this]
          · have : ¬ d + k ≤ i + 1 := by omega
            simp [h3, this]
    · rename_i hdi
      apply List.map_congr_left
      intro k _
      have h1 : ¬ d + k ≤ i := by omega
      have h2 : ¬ d + k ≤ i + 1 := by omega
      simp [h1, h2]

/-- **NUTSChain::run** (`c ≥ 1`): row `k` is the position after exactly `d + k` transitions counted from the call
    (row 0 of a run without warm-up is the start position; with warm-up it is the last warm-up state), and exactly
    `c + d - 1` transitions are made. -/
theorem nutsRun_spec (init : σ → σ) (step : σ → σ) (obs : σ → ρ) (zero : ρ) (c d : Nat) (s : σ) (hc : 0 < c) :
    nutsRun init step obs zero c d s
      = (step^[c + d - 1] (init s), (List.range c).map fun k => obs (step^[d + k] (init s))) := by
  unfold nutsRun
  simp only
  rw [nutsRun_inv step obs zero c d (init s) hc]
  refine Prod.ext rfl ?_
  simp only
  apply List.map_congr_left
  intro k hk
  have : k < c := List.mem_range.mp hk
  have h : d + k ≤ c + d - 1 := by omega
  simp [h]

/-! ### chain order -/

/-- **Chain order**: block `i` of the stacked output is the `run` of the `i`-th chain, and chain `i` is left
    in the state its own run leaves it. -/
theorem run_chain_order (run1 : σ → σ × List ρ) (chains : List σ) (i : Nat) (hi : i < chains.length) :
    ((runAll run1 chains).2)[i]'(by simp [runAll, hi]) = (run1 chains[i]).2
    ∧ ((runAll run1 chains).1)[i]'(by simp [runAll, hi]) = (run1 chains[i]).1 := by
  simp [runAll]

theorem runAll_shape (run1 : σ → σ × List ρ) (chains : List σ) :
    (runAll run1 chains).2.length = chains.length ∧ (runAll run1 chains).1.length = chains.length := by
  simp [runAll]

/-- the multi-chain NUTS runner returns exactly what its chains return individually. -/
theorem nuts_runner_eq_chains (init step : σ → σ) (obs : σ → ρ) (zero : ρ) (c d : Nat) (chains : List σ) :
    (runAll (nutsRun init step obs zero c d) chains).2 = chains.map fun s => (nutsRun init step obs zero c d s).2 := by
  simp [runAll]

/-! ### non-vacuity: `c = 3, d = 2` with a counter chain -/

example : runChain (· + 1) id 0 3 2 (10 : Nat) = (15, [13, 14, 15]) := by decide
example : hmcRun (· + 1) id 0 3 2 (10 : Nat) = (15, [13, 14, 15]) := by decide
example : nutsRun id (· + 1) id 0 3 2 (10 : Nat) = (14, [12, 13, 14]) := by decide
example : nutsRun id (· + 1) id 0 3 0 (10 : Nat) = (12, [10, 11, 12]) := by decide

end MiniMcmcVerif.Run

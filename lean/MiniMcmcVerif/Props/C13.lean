import MiniMcmcVerif.Model.Stats
import Mathlib.Algebra.Order.Field.Basic
import Mathlib.Algebra.BigOperators.Group.List.Basic
import Mathlib.Algebra.BigOperators.Ring.List
import Mathlib.Algebra.CharZero.Defs
import Mathlib.Data.Nat.Cast.Field
import Mathlib.Tactic.Linarith
import Mathlib.Tactic.FieldSimp
import Mathlib.Tactic.Ring
import Mathlib.Tactic.Positivity

/-!
# C13 — streaming trackers and progress R-hat equal batch statistics of the same draws

All statements are about the *same* polymorphic definitions the driver executes, instantiated at an arbitrary
field of characteristic zero (ordered where an order is needed), for every update sequence.
-/

set_option linter.unusedSectionVars false

namespace MiniMcmcVerif.Stats

section field
variable {α : Type} [Field α] [CharZero α]

theorem sum_eq (xs : List α) : sum xs = xs.sum := by
  unfold sum; rw [List.sum_eq_foldl]

/-- invariant of the running moments in multiplied form: `n·mean = Σx`, `n·mean_sq = Σx²`. -/
theorem feed_inv (xs : List α) (m : Mom α) (S1 S2 : α)
    (h1 : (m.n : α) * m.mean = S1) (h2 : (m.n : α) * m.meanSq = S2) :
    let r := xs.foldl Mom.step m
    r.n = m.n + xs.length ∧ (r.n : α) * r.mean = S1 + xs.sum ∧ (r.n : α) * r.meanSq = S2 + (xs.map sq).sum := by
  induction xs generalizing m S1 S2 with
  | nil => simp [h1, h2]
  | cons x xs ih =>
    simp only [List.foldl_cons]
    have hk : ((m.n + 1 : Nat) : α) ≠ 0 := by push_cast; exact Nat.cast_add_one_ne_zero m.n
    have hstep1 : ((m.step x).n : α) * (m.step x).mean = S1 + x := by
      simp only [Mom.step]
      push_cast
      field_simp
      rw [← h1]; ring
    have hstep2 : ((m.step x).n : α) * (m.step x).meanSq = S2 + sq x := by
      simp only [Mom.step]
      by_cases hn : m.n + 1 = 1
      · have h0 : m.n = 0 := by omega
        simp only [hn, if_true]
        rw [← h2, h0]; simp
      · simp only [hn, if_false]
        push_cast
        field_simp
        rw [← h2]; ring
    have := ih (m.step x) (S1 + x) (S2 + sq x) hstep1 hstep2
    simp only at this
    obtain ⟨a, b, c⟩ := this
    refine ⟨?_, ?_, ?_⟩
    · rw [a]; simp [Mom.step]; omega
    · rw [b]; simp [List.sum_cons]; ring
    · rw [c]; simp [List.sum_cons]; ring

/-- **tracker moments**: after feeding `xs` the tracker reports the count and (for `n ≥ 1`) the mean and the mean of
    squares of exactly the states it was fed. -/
theorem tracker_moments (xs : List α) :
    (Mom.feed xs).n = xs.length ∧
    ((xs.length : α)) * (Mom.feed xs).mean = xs.sum ∧
    ((xs.length : α)) * (Mom.feed xs).meanSq = (xs.map sq).sum := by
  have := feed_inv xs (Mom.init : Mom α) 0 0 (by simp [Mom.init]) (by simp [Mom.init])
  simp only [Mom.init, Nat.zero_add, zero_add] at this
  obtain ⟨a, b, c⟩ := this
  unfold Mom.feed
  refine ⟨a, ?_, ?_⟩
  · rw [← a]; exact b
  · rw [← a]; exact c

theorem tracker_mean (xs : List α) (hne : xs ≠ []) : (Mom.feed xs).mean = xs.sum / (xs.length : α) := by
  have h := (tracker_moments xs).2.1
  have hn : (xs.length : α) ≠ 0 := by
    have : xs.length ≠ 0 := by simpa [List.length_eq_zero_iff] using hne
    exact_mod_cast this
  field_simp
  rw [← h]; ring

/-- `Σ (x - c)² = Σx² - 2c·Σx + n·c²` -/
theorem sum_sq_sub (xs : List α) (c : α) :
    (xs.map fun x => sq (x - c)).sum = (xs.map sq).sum - 2 * c * xs.sum + (xs.length : α) * c ^ 2 := by
  induction xs with
  | nil => simp
  | cons x xs ih =>
    simp only [List.map_cons, List.sum_cons, List.length_cons]
    rw [ih]
    simp only [sq]; push_cast; ring

/-- **unbiased variance**: for `n ≥ 2` updates `sm2 = Σ (x - x̄)² / (n - 1)` with `x̄` the mean of the fed states. -/
theorem tracker_sm2 (xs : List α) (h2 : 2 ≤ xs.length) :
    (Mom.feed xs).sm2 = (xs.map fun x => sq (x - xs.sum / (xs.length : α))).sum / ((xs.length : α) - 1) := by
  obtain ⟨hn, hm, hq⟩ := tracker_moments xs
  have hn0 : (xs.length : α) ≠ 0 := by
    have : xs.length ≠ 0 := by omega
    exact_mod_cast this
  have hn1 : (xs.length : α) - 1 ≠ 0 := by
    have : (xs.length : α) ≠ 1 := by
      have : xs.length ≠ 1 := by omega
      exact_mod_cast this
    exact sub_ne_zero.mpr this
  rw [sum_sq_sub]
  unfold Mom.sm2
  rw [hn]
  simp only [Nat.cast_one]
  rw [← hq, ← hm]
  unfold sq
  field_simp
  ring

/-! #### R-hat from several trackers = R-hat of the multi-chain tracker = classical formula -/

/-- the classical potential scale reduction (squared) from per-chain means and unbiased variances, all of length `n`:
    `W = mean s_j²`, `B/n = Σ (x̄_j - x̄)² / (m - 1)`, `var⁺ = (n-1)/n·W + B/n`. -/
def classicalRhatSq (means vars : List α) (n : Nat) : α :=
  let m := means.length
  let w := vars.sum / (m : α)
  let gm := means.sum / (m : α)
  let bn := (means.map fun x => (x - gm) ^ 2).sum / ((m : α) - 1)
  (((n : α) - 1) / (n : α) * w + bn) / w

/-- **collect_rhat = classical formula**, any number of chains `m ≥ 1` and — crucially — whatever the number of
    *parameters* is (the function is applied per parameter; its divisor is `m - 1`). -/
theorem collect_rhat_eq_classical (stats : List (Nat × α × α)) (n : Nat) (hn : n ≠ 0) (hm : stats ≠ [])
    (hall : ∀ s ∈ stats, s.1 = n) :
    collectRhatSq stats = classicalRhatSq (stats.map fun s => s.2.1) (stats.map fun s => s.2.2) n := by
  have hm0 : (stats.length : α) ≠ 0 := by
    have : stats.length ≠ 0 := by simpa [List.length_eq_zero_iff] using hm
    exact_mod_cast this
  have hn0 : (n : α) ≠ 0 := by exact_mod_cast hn
  have hnavg : sum (stats.map fun s => ((s.1 : Nat) : α)) / (stats.length : α) = (n : α) := by
    rw [sum_eq]
    have : (stats.map fun s => ((s.1 : Nat) : α)) = stats.map fun _ => (n : α) := by
      apply List.map_congr_left; intro s hs; rw [hall s hs]
    rw [this, List.map_const', List.sum_replicate, nsmul_eq_mul]
    field_simp
  have hm1 : ((stats.length - 1 : Nat) : α) = (stats.length : α) - 1 := by
    have : 1 ≤ stats.length := by
      have : stats.length ≠ 0 := by simpa [List.length_eq_zero_iff] using hm
      omega
    rw [Nat.cast_sub this]; simp
  unfold collectRhatSq classicalRhatSq mean
  simp only [hnavg, hm1]
  simp only [sum_eq, List.length_map, List.map_map, Nat.cast_one, sq, Function.comp_def, pow_two]
  ring

/-- **MultiChainTracker::rhat = classical formula** on the same per-chain moments. -/
theorem multi_rhat_eq_classical (ms : List (Mom α)) (n : Nat) (hn : n ≠ 0) :
    multiRhatSq ms n = classicalRhatSq (ms.map (·.mean))
      (ms.map fun k => (k.meanSq - sq k.mean) * (n : α) / ((n : α) - 1)) n := by
  have hn0 : (n : α) ≠ 0 := by exact_mod_cast hn
  unfold multiRhatSq classicalRhatSq mean
  simp only [sum_eq, List.length_map, Nat.cast_one, sq, pow_two]
  congr 1
  have : ((ms.map (·.mean)).map fun x => (x - (ms.map (·.mean)).sum / (ms.length : α)) *
      (x - (ms.map (·.mean)).sum / (ms.length : α))).sum * ((n : α) / ((ms.length : α) - 1)) * (1 / (n : α))
      = ((ms.map (·.mean)).map fun x => (x - (ms.map (·.mean)).sum / (ms.length : α)) *
      (x - (ms.map (·.mean)).sum / (ms.length : α))).sum / ((ms.length : α) - 1) := by
    field_simp
  rw [this]; ring

/-- **the R-hat derived from several single-chain trackers is identical to what the multi-chain tracker reports**
    for the same data (each tracker fed a chain of `n ≥ 1` draws), for every parameter. -/
theorem collect_rhat_eq_multi (chains : List (List α)) (n : Nat) (hn : n ≠ 0) (hm : chains ≠ [])
    (hlen : ∀ ch ∈ chains, ch.length = n) :
    collectRhatSq (chains.map fun ch => ((Mom.feed ch).n, (Mom.feed ch).mean, (Mom.feed ch).sm2))
      = multiRhatSq (chains.map Mom.feed) n := by
  rw [collect_rhat_eq_classical _ n hn (by simpa using hm)
        (by intro s hs; simp only [List.mem_map] at hs; obtain ⟨ch, hch, rfl⟩ := hs
            rw [(tracker_moments ch).1]; exact hlen ch hch),
      multi_rhat_eq_classical _ n hn]
  simp only [List.map_map, Function.comp_def]
  congr 1
  apply List.map_congr_left
  intro ch hch
  simp only [Mom.sm2, (tracker_moments ch).1, hlen ch hch, Nat.cast_one]

end field

section order
variable {α : Type} [Field α] [LinearOrder α] [IsStrictOrderedRing α]

/-- **the acceptance estimate stays in `[0,1]`** under every update, for any weight `a ∈ [0,1]` (the code: 0.01). -/
theorem ema_mem (a p : α) (ind : Bool) (ha0 : 0 ≤ a) (ha1 : a ≤ 1) (hp0 : 0 ≤ p) (hp1 : p ≤ 1) :
    0 ≤ emaStep a p ind ∧ emaStep a p ind ≤ 1 := by
  unfold emaStep
  simp only [Nat.cast_one]
  cases ind
  · simp only [Bool.false_eq_true, if_false, mul_zero, add_zero]
    constructor
    · exact mul_nonneg (by linarith) hp0
    · nlinarith
  · simp only [if_true, mul_one]
    constructor
    · nlinarith [mul_nonneg (sub_nonneg.mpr ha1) hp0]
    · nlinarith

/-- after any sequence of updates (any history of indicators), starting from any `p₀ ∈ [0,1]`
    (`0` for the multi-chain tracker, the first indicator for the per-chain tracker). -/
theorem p_accept_mem (a p0 : α) (inds : List Bool) (ha0 : 0 ≤ a) (ha1 : a ≤ 1) (hp0 : 0 ≤ p0) (hp1 : p0 ≤ 1) :
    0 ≤ inds.foldl (emaStep a) p0 ∧ inds.foldl (emaStep a) p0 ≤ 1 := by
  induction inds generalizing p0 with
  | nil => exact ⟨hp0, hp1⟩
  | cons i is ih =>
    simp only [List.foldl_cons]
    have := ema_mem a p0 i ha0 ha1 hp0 hp1
    exact ih _ this.1 this.2

/-- closed form: an exponential moving average with weight `a` of the indicators. -/
theorem p_accept_ema (a p0 : α) (inds : List Bool) :
    inds.foldl (emaStep a) p0
      = (1 - a) ^ inds.length * p0
        + a * ((inds.zipIdx.map fun (b, i) => (1 - a) ^ (inds.length - 1 - i) * (if b then (1 : α) else 0)).sum) := by
  induction inds using List.reverseRecOn with
  | nil => simp
  | append_singleton is i ih =>
    rw [List.foldl_append, List.foldl_cons, List.foldl_nil, ih]
    simp only [emaStep, Nat.cast_one, List.length_append, List.length_singleton]
    rw [List.zipIdx_append, List.map_append, List.sum_append]
    simp only [List.zipIdx_singleton, List.map_cons, List.map_nil, List.sum_cons, List.sum_nil, zero_add, add_zero,
      Nat.add_sub_cancel, Nat.sub_self, pow_zero, one_mul]
    have : (is.zipIdx.map fun (x : Bool × Nat) => (1 - a) ^ (is.length - x.2) * (if x.1 = true then (1 : α) else 0)).sum
         = (1 - a) * (is.zipIdx.map fun (x : Bool × Nat) => (1 - a) ^ (is.length - 1 - x.2) * (if x.1 = true then (1 : α) else 0)).sum := by
      rw [← List.sum_map_mul_left]
      apply congrArg
      apply List.map_congr_left
      intro x hx
      have hx2 : x.2 < is.length := by
        have := List.snd_lt_of_mem_zipIdx hx
        omega
      have e : is.length - x.2 = (is.length - 1 - x.2) + 1 := by omega
      rw [e, pow_succ]; ring
    rw [this]
    ring

/-- one update is monotone in the previous estimate and in the indicator. -/
theorem ema_mono (a p q : α) (i j : Bool) (ha0 : 0 ≤ a) (ha1 : a ≤ 1) (hpq : p ≤ q) (hij : i = true → j = true) :
    emaStep a p i ≤ emaStep a q j := by
  unfold emaStep
  simp only [Nat.cast_one]
  have h1 : (1 - a) * p ≤ (1 - a) * q := mul_le_mul_of_nonneg_left hpq (by linarith)
  have h2 : a * (if i = true then (1 : α) else 0) ≤ a * (if j = true then (1 : α) else 0) := by
    apply mul_le_mul_of_nonneg_left _ ha0
    cases i <;> cases j <;> simp_all
  linarith

/-- **more moves, higher reported rate**: if history 2 moves whenever history 1 does, its acceptance estimate is at least
    that of history 1 — an indicator that misses moves (or invents them) changes the estimate in a definite direction. -/
theorem p_accept_mono (a p q : α) (pairs : List (Bool × Bool)) (ha0 : 0 ≤ a) (ha1 : a ≤ 1) (hpq : p ≤ q)
    (h : ∀ x ∈ pairs, x.1 = true → x.2 = true) :
    (pairs.map (·.1)).foldl (emaStep a) p ≤ (pairs.map (·.2)).foldl (emaStep a) q := by
  induction pairs generalizing p q with
  | nil => simpa using hpq
  | cons x xs ih =>
    simp only [List.map_cons, List.foldl_cons]
    apply ih
    · exact ema_mono a p q x.1 x.2 ha0 ha1 hpq (h x (by simp))
    · intro y hy; exact h y (by simp [hy])

/-- a missed move strictly lowers the next estimate (weight `a > 0`). -/
theorem ema_strict (a p : α) (ha : 0 < a) : emaStep a p false < emaStep a p true := by
  unfold emaStep
  simp only [Nat.cast_one, Bool.false_eq_true, if_false, if_true, mul_zero, add_zero, mul_one]
  linarith

end order

/-! ### non-vacuity -/
example : (Mom.feed [(1 : ℚ), 2, 6]).n = 3 ∧ (Mom.feed [(1 : ℚ), 2, 6]).mean = 3 ∧ (Mom.feed [(1 : ℚ), 2, 6]).sm2 = 7 := by
  refine ⟨by decide +kernel, by decide +kernel, by decide +kernel⟩
example : collectRhatSq [(2, (1 : ℚ), 2), (2, 3, 4)] = multiRhatSq [⟨2, 1, 2⟩, ⟨2, 3, 11⟩] 2 := by decide +kernel

end MiniMcmcVerif.Stats

import MiniMcmcVerif.Model.Gibbs

/-!
# C05 — a Gibbs step refreshes every coordinate once, conditioning on the freshest state

For every (stateful) conditional `samp`, every state type, every dimension and initial state.
-/

namespace MiniMcmcVerif.Gibbs

variable {S κ : Type}

theorem sweepUpTo_succ (samp : κ → Nat → List S → S × κ) (k : κ) (s : List S) (i : Nat) :
    sweepUpTo samp k s (i + 1) = sweepBody samp (sweepUpTo samp k s i) i := by
  simp [sweepUpTo, List.range_succ, List.foldl_append]

/-- the invariant of the sweep after `i ≤ d` coordinates. -/
theorem sweep_inv (samp : κ → Nat → List S → S × κ) (k : κ) (s : List S) (i : Nat) :
    let st := sweepUpTo samp k s i
    st.state.length = s.length ∧ st.state.drop i = s.drop i ∧ st.log.length = i ∧
    ∀ j (hj : j < st.log.length), st.log[j] = (j, st.state.take j ++ s.drop j) := by
  induction i with
  | zero => simp [sweepUpTo]
  | succ i ih =>
    obtain ⟨hlen, hdrop, hlog, hent⟩ := ih
    rw [sweepUpTo_succ]
    generalize sweepUpTo samp k s i = st at *
    simp only [sweepBody]
    refine ⟨by simp [hlen], ?_, by simp [hlog], ?_⟩
    · rw [List.drop_set_of_lt (by omega)]
      have : st.state.drop (i + 1) = (st.state.drop i).drop 1 := by simp [List.drop_drop]
      rw [this, hdrop]; simp [List.drop_drop]
    · intro j hj
      simp only [List.length_append, List.length_singleton, hlog] at hj
      by_cases hji : j < i
      · rw [List.getElem_append_left (by omega)]
        rw [hent j (by omega)]
        rw [List.take_set_of_le (by omega)]
      · have hji' : j = i := by omega
        subst hji'
        rw [List.getElem_append_right (by omega)]
        simp only [hlog, Nat.sub_self, List.getElem_cons_zero]
        rw [List.take_set_of_le (by omega), ← hdrop, List.take_append_drop]

/-- **every coordinate exactly once, in order `0,1,…,d-1`**. -/
theorem gibbs_call_indices (samp : κ → Nat → List S → S × κ) (k : κ) (s : List S) :
    (gibbsStep samp k s).log.map (·.1) = List.range s.length := by
  have h := sweep_inv samp k s s.length
  simp only at h
  obtain ⟨_, _, hlog, hent⟩ := h
  apply List.ext_getElem
  · simp [gibbsStep, hlog]
  · intro j h1 h2
    simp only [List.length_map] at h1
    simp only [List.getElem_map, List.getElem_range]
    have := hent j (by simpa [gibbsStep] using h1)
    exact congrArg Prod.fst this

/-- **conditioning on the freshest state**: the `j`-th call receives the state in which coordinates `< j` already
    hold their *new* values (those of the final state) and coordinates `≥ j` still hold the old ones. -/
theorem gibbs_call_log (samp : κ → Nat → List S → S × κ) (k : κ) (s : List S) :
    let r := gibbsStep samp k s
    r.log.length = s.length ∧
    ∀ j (hj : j < r.log.length), r.log[j] = (j, r.state.take j ++ s.drop j) := by
  have h := sweep_inv samp k s s.length
  exact ⟨h.2.2.1, h.2.2.2⟩

/-- the dimension is preserved. -/
theorem gibbs_result_length (samp : κ → Nat → List S → S × κ) (k : κ) (s : List S) :
    (gibbsStep samp k s).state.length = s.length :=
  (sweep_inv samp k s s.length).1

/-- sub-step `i` writes the conditional's answer to coordinate `i` and changes nothing else. -/
theorem substep_changes_only_i (samp : κ → Nat → List S → S × κ) (acc : Sweep S κ) (i j : Nat) (hij : j ≠ i) :
    (sweepBody samp acc i).state[j]? = acc.state[j]? := by
  simp only [sweepBody]
  rw [List.getElem?_set_ne (Ne.symm hij)]

theorem substep_writes_answer (samp : κ → Nat → List S → S × κ) (acc : Sweep S κ) (i : Nat) (hi : i < acc.state.length) :
    (sweepBody samp acc i).state[i]? = some (samp acc.cond i acc.state).1 := by
  simp [sweepBody, hi]

/-- the result is exactly the list of returned values: coordinate `j` of the new state is what call `j` returned. -/
theorem gibbs_result (samp : κ → Nat → List S → S × κ) (k : κ) (s : List S) (j : Nat) (hj : j < s.length) :
    (gibbsStep samp k s).state[j]? =
      some (samp (sweepUpTo samp k s j).cond j (sweepUpTo samp k s j).state).1 := by
  -- coordinate j is written at sub-step j and never touched afterwards
  have key : ∀ i, j < i → i ≤ s.length →
      (sweepUpTo samp k s i).state[j]? =
        some (samp (sweepUpTo samp k s j).cond j (sweepUpTo samp k s j).state).1 := by
    intro i
    induction i with
    | zero => intro h; omega
    | succ i ih =>
      intro hji hil
      rw [sweepUpTo_succ]
      by_cases h : j = i
      · subst h
        apply substep_writes_answer
        rw [(sweep_inv samp k s j).1]; exact hj
      · rw [substep_changes_only_i _ _ _ _ h]
        exact ih (by omega) (by omega)
  exact key s.length hj (Nat.le_refl _)

/-! ### non-vacuity: d = 3, a conditional that sums what it is given and counts its calls -/

example :
    let r := gibbsStep (fun (k : Nat) i (g : List Nat) => (g.sum + 10 * i + k, k + 1)) 0 [1, 2, 3]
    r.state = [6, 22, 53] ∧ r.cond = 3 ∧
    r.log = [(0, [1, 2, 3]), (1, [6, 2, 3]), (2, [6, 22, 3])] := by decide

end MiniMcmcVerif.Gibbs

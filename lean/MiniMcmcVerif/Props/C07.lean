import MiniMcmcVerif.Model.Seeds
import MiniMcmcVerif.Model.Sched
import MiniMcmcVerif.Props.C09
import MiniMcmcVerif.Props.C18
import Mathlib.Data.List.Perm.Basic
import Mathlib.Data.List.Count
import Mathlib.Logic.Function.Iterate
import Mathlib.Tactic.Linarith
import Mathlib.Tactic.Positivity
import Mathlib.Data.Rat.Defs
import Mathlib.Algebra.Order.Field.Basic

/-!
# C07 — same seed, same output: schedule independence and seed injectivity
-/

namespace MiniMcmcVerif.Sched

variable {σ : Type}

theorem stepAt_comm (step : σ → σ) (chains : List σ) (i j : Nat) :
    stepAt step (stepAt step chains i) j = stepAt step (stepAt step chains j) i := by
  unfold stepAt
  apply List.ext_getElem?
  intro k
  simp only [List.getElem?_modify]
  by_cases hi : i = k <;> by_cases hj : j = k <;> simp [hi, hj]

instance (step : σ → σ) : RightCommutative (stepAt step) := ⟨stepAt_comm step⟩

/-- **schedule independence**: two schedules that step every chain the same number of times (permutations of each
    other) leave every chain in the same state — for any number of chains and any interleaving. -/
theorem exec_perm (step : σ → σ) (chains : List σ) (s₁ s₂ : List Nat) (h : s₁.Perm s₂) :
    exec step chains s₁ = exec step chains s₂ :=
  List.Perm.foldl_eq h chains

theorem exec_length (step : σ → σ) (chains : List σ) (sched : List Nat) :
    (exec step chains sched).length = chains.length := by
  induction sched generalizing chains with
  | nil => rfl
  | cons i is ih => simp [exec, List.foldl_cons] at *; rw [ih]; simp [stepAt]

/-- every chain ends in the state its own step function reaches after as many steps as the schedule gave it:
    the result of chain `i` does not depend on the other chains at all. -/
theorem exec_chain (step : σ → σ) (chains : List σ) (sched : List Nat) (i : Nat) :
    (exec step chains sched)[i]? = (chains[i]?).map (step^[sched.count i]) := by
  induction sched generalizing chains with
  | nil => simp [exec]
  | cons j js ih =>
    have : exec step chains (j :: js) = exec step (stepAt step chains j) js := rfl
    rw [this, ih]
    unfold stepAt
    rw [List.getElem?_modify]
    by_cases h : j = i
    · subst h
      simp only [if_true, List.count_cons_self]
      cases chains[j]? with
      | none => rfl
      | some c => simp [Function.iterate_succ_apply]
    · have h' : ¬ (j == i) = true := by simpa using h
      simp [h, List.count_cons, h']

/-- `run` is a function of (inputs, seed): with the chains' generators inside the chain state there is no hidden
    state — two executions from equal initial states under *any* two fair schedules agree. -/
theorem run_deterministic (step : σ → σ) (c₁ c₂ : List σ) (s₁ s₂ : List Nat) (hc : c₁ = c₂) (hs : s₁.Perm s₂) :
    exec step c₁ s₁ = exec step c₂ s₂ := by subst hc; exact exec_perm step c₁ s₁ s₂ hs

example : exec (· + 1) [10, 20] [0, 1, 1, 0, 1] = exec (· + 1) [10, 20] [1, 1, 1, 0, 0] := by decide

end MiniMcmcVerif.Sched

namespace MiniMcmcVerif.Seeds

/-- `z ↦ z ^ (z >>> k)` is injective on 64-bit words for `3k ≥ 64` (`d = d >>> k` forces `d = d >>> 3k = 0`). -/
theorem xs_injective (k : Nat) (hk : 64 ≤ 3 * k) : Function.Injective (xs k) := by
  intro a b h
  unfold xs at h
  have hd : (a ^^^ b) = (a ^^^ b) >>> k := by
    have h2 : (a ^^^ (a >>> k)) ^^^ (b ^^^ (b >>> k)) = 0#64 := by rw [h]; exact BitVec.xor_self
    have h3 : (a ^^^ b) ^^^ ((a ^^^ b) >>> k) = 0#64 := by
      rw [BitVec.ushiftRight_xor_distrib]
      rw [← h2]
      ac_rfl
    exact BitVec.xor_eq_zero_iff.mp h3
  have h3k : (a ^^^ b) = (a ^^^ b) >>> (k + k + k) := by
    rw [BitVec.shiftRight_add, BitVec.shiftRight_add, ← hd, ← hd, ← hd]
  have hz : (a ^^^ b) >>> (k + k + k) = 0#64 := by
    apply BitVec.ushiftRight_eq_zero
    omega
  rw [hz] at h3k
  exact BitVec.xor_eq_zero_iff.mp h3k

theorem mul_M1_injective : Function.Injective (· * M1) := by
  intro a b h
  have inv : M1 * 0x96de1b173f119089#64 = 1#64 := by decide
  have := congrArg (· * 0x96de1b173f119089#64) h
  simpa [BitVec.mul_assoc, inv] using this

theorem mul_M2_injective : Function.Injective (· * M2) := by
  intro a b h
  have inv : M2 * 0x319642b2d24d8ec3#64 = 1#64 := by decide
  have := congrArg (· * 0x319642b2d24d8ec3#64) h
  simpa [BitVec.mul_assoc, inv] using this

/-- the splitmix64 output function is a bijection of 64-bit words (here: injective). -/
theorem mix_injective : Function.Injective mix := by
  intro a b h
  unfold mix at h
  have h1 := xs_injective 31 (by omega) h
  have h2 := mul_M2_injective h1
  have h3 := xs_injective 27 (by omega) h2
  have h4 := mul_M1_injective h3
  exact xs_injective 30 (by omega) h4

/-- **different seeds give different generator states** (already the first state word differs). -/
theorem seedFromU64_injective : Function.Injective seedFromU64 := by
  intro a b h
  have h0 : mix (a + PHI) = mix (b + PHI) := congrArg Xo.s0 h
  have := mix_injective h0
  exact (BitVec.add_left_inj PHI).mp this

/-- wrapping `seed + i (+ c)` is injective in the chain index `i < 2^64`. -/
theorem ofNat_add_injective (seed c : W) (i j : Nat) (hi : i < 2 ^ 64) (hj : j < 2 ^ 64)
    (h : seed + BitVec.ofNat 64 i + c = seed + BitVec.ofNat 64 j + c) : i = j := by
  have h1 : seed + BitVec.ofNat 64 i = seed + BitVec.ofNat 64 j := (BitVec.add_left_inj c).mp h
  have h2 : BitVec.ofNat 64 i = BitVec.ofNat 64 j := (BitVec.add_right_inj seed).mp h1
  have := congrArg BitVec.toNat h2
  simp only [BitVec.toNat_ofNat] at this
  rw [Nat.mod_eq_of_lt hi, Nat.mod_eq_of_lt hj] at this
  exact this

/-- **distinct chains get distinct generator states**, for every seed incl. `u64::MAX` and wrapping offsets —
    MH acceptance generators, NUTS chains, Gibbs chains. -/
theorem chain_seed_injective (seed : W) (i j : Nat) (hi : i < 2 ^ 64) (hj : j < 2 ^ 64) (hij : i ≠ j) :
    seedFromU64 (mhAcceptSeed seed i) ≠ seedFromU64 (mhAcceptSeed seed j)
    ∧ seedFromU64 (nutsSeed seed i) ≠ seedFromU64 (nutsSeed seed j)
    ∧ seedFromU64 (gibbsSeed seed i) ≠ seedFromU64 (gibbsSeed seed j) := by
  refine ⟨?_, ?_, ?_⟩
  · intro h; exact hij (ofNat_add_injective seed 1#64 i j hi hj (seedFromU64_injective h))
  · intro h; exact hij (ofNat_add_injective seed 1#64 i j hi hj (seedFromU64_injective h))
  · intro h
    have := seedFromU64_injective h
    unfold gibbsSeed at this
    have h2 : seed + BitVec.ofNat 64 i + 0#64 = seed + BitVec.ofNat 64 j + 0#64 := by simpa using this
    exact hij (ofNat_add_injective seed 0#64 i j hi hj h2)

/-- **every `f64` uniform variate lies in `[0, 1)`** — in fact in `[0, 1 - 2⁻⁵³]` — whatever word the generator
    produced (this is the hypothesis "uniforms lie in [0,1)" of the C03 / C16 theorems). -/
theorem unif53_lt (w : W) : unif53 w < 2 ^ 53 := by
  unfold unif53
  rw [BitVec.toNat_ushiftRight, Nat.shiftRight_eq_div_pow]
  have := w.isLt
  omega

theorem unif24_lt (w : W) : unif24 w < 2 ^ 24 := by
  unfold unif24
  rw [BitVec.toNat_ushiftRight, Nat.shiftRight_eq_div_pow]
  have := w.isLt
  omega

/-- as rationals: `0 ≤ u ≤ 1 - 2⁻⁵³ < 1` -/
theorem unif53_unit (w : W) : (0 : ℚ) ≤ (unif53 w : ℚ) / 2 ^ 53 ∧ (unif53 w : ℚ) / 2 ^ 53 ≤ 1 - 1 / 2 ^ 53 := by
  have h := unif53_lt w
  have h' : (unif53 w : ℚ) ≤ 2 ^ 53 - 1 := by
    have : unif53 w + 1 ≤ 2 ^ 53 := h
    have : ((unif53 w + 1 : ℕ) : ℚ) ≤ ((2 ^ 53 : ℕ) : ℚ) := by exact_mod_cast this
    push_cast at this; linarith
  constructor
  · positivity
  · rw [div_le_iff₀ (by positivity)]; linarith [h']

theorem unif24_unit (w : W) : (0 : ℚ) ≤ (unif24 w : ℚ) / 2 ^ 24 ∧ (unif24 w : ℚ) / 2 ^ 24 ≤ 1 - 1 / 2 ^ 24 := by
  have h := unif24_lt w
  have h' : (unif24 w : ℚ) ≤ 2 ^ 24 - 1 := by
    have : unif24 w + 1 ≤ 2 ^ 24 := h
    have : ((unif24 w + 1 : ℕ) : ℚ) ≤ ((2 ^ 24 : ℕ) : ℚ) := by exact_mod_cast this
    push_cast at this; linarith
  constructor
  · positivity
  · rw [div_le_iff₀ (by positivity)]; linarith [h']

/-- every 53-bit numerator is hit: the crafted word `k <<< 11` used by the harnesses to inject `u = k·2⁻⁵³` -/
theorem unif53_surj (k : Nat) (hk : k < 2 ^ 53) : unif53 (BitVec.ofNat 64 (k * 2 ^ 11)) = k := by
  unfold unif53
  rw [BitVec.toNat_ushiftRight, Nat.shiftRight_eq_div_pow, BitVec.toNat_ofNat]
  rw [Nat.mod_eq_of_lt (by omega)]
  omega

/-! non-vacuity / known-answer: the model reproduces rand's documented stream for seed 0 -/
example : (seedFromU64 0#64).s0 = 0xe220a8397b1dcdaf#64 := by decide

end MiniMcmcVerif.Seeds

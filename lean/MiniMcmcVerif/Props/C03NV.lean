import MiniMcmcVerif.Model.NUTS

/-! Non-vacuity for C03 (core `Rat`, no Mathlib): a depth-2 tree and a whole transition on a 1-D Gaussian, with
    `exp x := 1 / (1 + x²)` standing in for `exp` (the structural theorems hold for any `exp`). -/

namespace MiniMcmcVerif.NUTS.NV
open MiniMcmcVerif.NUTS

instance : SMul Rat Rat := ⟨fun a b => a * b⟩
instance : HasExp Rat := ⟨fun x => 1 / (1 + x * x)⟩

def tgt : Rat → Rat × Rat := fun x => (-(x * x) / 2, -x)
def dotQ : Rat → Rat → Rat := fun a b => a * b
def z0 : Pt Rat Rat := ⟨1, 1 / 2, -1, -1 / 2⟩

/-- slice level `-1`, step 1/2, forward, depth 2: four leapfrog points, complete tree -/
example : (buildTree tgt dotQ (-1) false (1 / 2) (-5 / 8) 2 z0 [1 / 4, 3 / 4, 1 / 2]).1.nalpha = 4
    ∧ (buildTree tgt dotQ (-1) false (1 / 2) (-5 / 8) 2 z0 [1 / 4, 3 / 4, 1 / 2]).1.leaves.length = 4 := by decide +kernel

/-- a high slice level makes the first leaves inadmissible (`n' < n_α`) -/
example : (buildTree tgt dotQ (-3 / 5) false (1 / 2) (-5 / 8) 2 z0 [1 / 4, 3 / 4, 1 / 2]).1.n
    < (buildTree tgt dotQ (-3 / 5) false (1 / 2) (-5 / 8) 2 z0 [1 / 4, 3 / 4, 1 / 2]).1.nalpha := by decide +kernel

/-- a whole transition terminates within the fuel and reports `n_α ≥ 1` -/
example : ((transition tgt dotQ (1 / 2) 1 (1 / 2) (1 / 3) [1 / 4, 3 / 4, 1 / 8, 7 / 8] [1 / 2, 1 / 3, 2 / 3, 1 / 5] [1 / 2, 1 / 2, 1 / 2, 1 / 2] 10).map
    fun st => decide (1 ≤ st.nalpha)) = some true := by decide +kernel

/-- … and moves: the final position `9/8 ≠ 1` is the first forward leapfrog point (the second disjunct of
    `transition_next_state` is inhabited) -/
example : ((transition tgt dotQ (1 / 2) 1 (1 / 2) (1 / 3) [1 / 4, 3 / 4, 1 / 8, 7 / 8] [1 / 2, 1 / 3, 2 / 3, 1 / 5] [1 / 2, 1 / 2, 1 / 2, 1 / 2] 10).map
    fun st => decide (st.pos = 9 / 8 ∧ st.pos = (leapfrog tgt (1 / 2) ⟨1, 1 / 2, -1, -1 / 2⟩).pos)) = some true := by decide +kernel

end MiniMcmcVerif.NUTS.NV

import MiniMcmcVerif.Props.C05
import Mathlib.Algebra.BigOperators.Group.Finset.Basic
import Mathlib.Algebra.BigOperators.Ring.Finset
import Mathlib.Algebra.Order.BigOperators.Group.Finset
import Mathlib.Algebra.Order.Field.Basic
import Mathlib.Data.Fintype.Pi
import Mathlib.Logic.Function.Basic
import Mathlib.Tactic.Linarith
import Mathlib.Tactic.FieldSimp
import Mathlib.Tactic.Ring

/-!
# C05 — "hence the step leaves the joint distribution invariant"

Finite alphabets: a joint weight `π` on `Fin d → ι`. The full-conditional update of coordinate `i` (what one sub-step of
the sweep does when the user's conditional draws from the full conditional *given the state it is handed*) leaves `π`
invariant; a sweep is the composition of these updates — each conditioning on the freshest state, which is exactly
what `gibbs_call_log` establishes for the code — and therefore leaves `π` invariant too.
-/

set_option linter.unusedSectionVars false

namespace MiniMcmcVerif.Gibbs

open Finset

variable {d : Nat} {ι : Type} [Fintype ι] [DecidableEq ι]
variable {K : Type} [Field K] [LinearOrder K] [IsStrictOrderedRing K]

/-- marginal weight of the other coordinates: `Σ_v π(x[i := v])` -/
def margin (π : (Fin d → ι) → K) (i : Fin d) (x : Fin d → ι) : K := ∑ v, π (Function.update x i v)

/-- transition weight of the full-conditional update of coordinate `i`: `y` must agree with `x` off `i`, and then
    `y i` is drawn with probability `π(y) / Σ_v π(x[i := v])`. -/
def condKernel (π : (Fin d → ι) → K) (i : Fin d) (x y : Fin d → ι) : K :=
  if (∀ j, j ≠ i → y j = x j) then π y / margin π i x else 0

theorem margin_update (π : (Fin d → ι) → K) (i : Fin d) (y : Fin d → ι) (u : ι) :
    margin π i (Function.update y i u) = margin π i y := by
  unfold margin
  apply Finset.sum_congr rfl
  intro v _
  rw [Function.update_idem]

theorem agree_iff (i : Fin d) (x y : Fin d → ι) : (∀ j, j ≠ i → y j = x j) ↔ x = Function.update y i (x i) := by
  constructor
  · intro h
    funext j
    by_cases hj : j = i
    · subst hj; simp
    · simp [Function.update_of_ne hj, h j hj]
  · intro h j hj
    rw [h, Function.update_of_ne hj]

/-- **one coordinate update leaves the joint invariant**: `Σ_x π(x)·K_i(x,y) = π(y)`. -/
theorem gibbs_coord_invariant (π : (Fin d → ι) → K) (hπ : ∀ x, 0 ≤ π x) (i : Fin d) (y : Fin d → ι) :
    ∑ x, π x * condKernel π i x y = π y := by
  -- only the states x = y[i := u] contribute
  have hsub : ∑ x, π x * condKernel π i x y
      = ∑ x ∈ (univ.image fun u : ι => Function.update y i u), π x * condKernel π i x y := by
    symm
    apply Finset.sum_subset (Finset.subset_univ _)
    intro x _ hx
    have : ¬ (∀ j, j ≠ i → y j = x j) := by
      intro h
      apply hx
      rw [Finset.mem_image]
      refine ⟨x i, mem_univ _, ?_⟩
      have := (agree_iff i x y).mp h
      exact this.symm
    simp [condKernel, this]
  rw [hsub, Finset.sum_image (by
    intro a _ b _ h
    have := congrFun h i
    simpa using this)]
  have hterm : ∀ u : ι, π (Function.update y i u) * condKernel π i (Function.update y i u) y
      = π (Function.update y i u) * (π y / margin π i y) := by
    intro u
    have hag : ∀ j, j ≠ i → y j = (Function.update y i u) j := by
      intro j hj; rw [Function.update_of_ne hj]
    have hc : (∀ j, j ≠ i → y j = (Function.update y i u) j) := hag
    simp only [condKernel, margin_update]
    rw [if_pos hc]
  simp only [hterm]
  rw [← Finset.sum_mul]
  change margin π i y * (π y / margin π i y) = π y
  by_cases hz : margin π i y = 0
  · -- all summands are ≥ 0 and sum to 0, and π y is one of them
    have hy : π y = 0 := by
      have hle : π y ≤ margin π i y := by
        unfold margin
        have := Finset.single_le_sum (f := fun v => π (Function.update y i v)) (fun v _ => hπ _) (mem_univ (y i))
        simpa using this
      have := hπ y
      linarith
    simp [hz, hy]
  · field_simp

/-- composition of two transition kernels -/
def kcomp (A B : (Fin d → ι) → (Fin d → ι) → K) (x z : Fin d → ι) : K := ∑ y, A x y * B y z

theorem invariant_comp (π : (Fin d → ι) → K) (A B : (Fin d → ι) → (Fin d → ι) → K)
    (hA : ∀ y, ∑ x, π x * A x y = π y) (hB : ∀ z, ∑ y, π y * B y z = π z) (z : Fin d → ι) :
    ∑ x, π x * kcomp A B x z = π z := by
  unfold kcomp
  simp only [Finset.mul_sum]
  rw [Finset.sum_comm]
  rw [← hB z]
  apply Finset.sum_congr rfl
  intro y _
  rw [← hA y, Finset.sum_mul]
  apply Finset.sum_congr rfl
  intro x _
  ring

/-- the sweep over a list of coordinates: compose the coordinate updates in order -/
def sweepKernel (π : (Fin d → ι) → K) : List (Fin d) → (Fin d → ι) → (Fin d → ι) → K
  | [] => fun x y => if x = y then 1 else 0
  | i :: is => kcomp (condKernel π i) (sweepKernel π is)

/-- **a Gibbs sweep (any order, any number of coordinates) leaves the joint invariant.** -/
theorem gibbs_sweep_invariant (π : (Fin d → ι) → K) (hπ : ∀ x, 0 ≤ π x) (is : List (Fin d)) (y : Fin d → ι) :
    ∑ x, π x * sweepKernel π is x y = π y := by
  induction is generalizing y with
  | nil => simp [sweepKernel]
  | cons i is ih =>
    exact invariant_comp π _ _ (gibbs_coord_invariant π hπ i) ih y

end MiniMcmcVerif.Gibbs

import MiniMcmcVerif.Props.C10

/-!
# C10 — the tight termination bound: ⌈N/5⌉ iterations after the last final message
-/

set_option linter.unusedVariables false

namespace MiniMcmcVerif.Reporter

/-- while chains are still waiting for a bar, all five bars are in use -/
def Full (N : Nat) (st : RState) : Prop := st.nextActive < N → st.active.length = 5

theorem full_init (N : Nat) : Full N (RState.init N) := by
  intro h
  simp only [RState.init] at h ⊢
  simp only [List.length_range]
  omega

theorem full_iter (total N : Nat) (st : RState) (arrivals : List (Nat × Nat)) (h : Inv N st) (hf : Full N st) :
    Full N (iter total N st arrivals).1 := by
  obtain ⟨h1, h2, h3, h4, h5, _⟩ :=
    sweep_spec (drain st.mostRecent arrivals) total N st.active st.nextActive h.next_le
  intro hlt
  simp only [iter] at hlt ⊢
  have hna : st.nextActive < N := by omega
  have hlen := hf hna
  omega

/-- **tight bound**: once every final message has arrived the loop breaks within `⌈(N - n_finished)/5⌉` further
    iterations — from the initial state: `⌈N/5⌉` iterations, for every number of chains. -/
theorem reporter_terminates_tight (total N : Nat) (st : RState) (h : Inv N st) (hf : Full N st)
    (hall : ∀ i, finished st.mostRecent total i = true) (hlt : st.nFinished < N) :
    ∃ k, k ≤ (N - st.nFinished + 4) / 5 ∧ (runIters total N st (List.replicate k [])).2 = true := by
  generalize hm : N - st.nFinished = m
  induction m using Nat.strong_induction_on generalizing st with
  | _ m ih =>
    have hstep := iter_all_final total N st h hall
    have hinv' := inv_iter total N st [] h
    have hfull' := full_iter total N st [] h hf
    by_cases hex : N ≤ (iter total N st []).1.nFinished
    · refine ⟨1, by omega, ?_⟩
      simp only [List.replicate_one, runIters]
      have : (iter total N st []).2 = true := by simpa [iter] using hex
      simp [this]
    · -- not yet done: chains were still waiting, so five were retired
      have hna : st.nextActive < N := by
        by_contra hc
        have hp := h.partition
        have hle := h.next_le
        have : st.nextActive = N := by omega
        have := hstep.1
        omega
      have h5 := hf hna
      have hall' : ∀ i, finished (iter total N st []).1.mostRecent total i = true := by
        rw [hstep.2]; exact hall
      have hlt' : (iter total N st []).1.nFinished < N := by omega
      obtain ⟨k, hk, hrun⟩ := ih (N - (iter total N st []).1.nFinished) (by rw [hstep.1]; omega)
        (iter total N st []).1 hinv' hfull' hall' hlt' rfl
      refine ⟨k + 1, ?_, ?_⟩
      · rw [hstep.1, h5] at hk; omega
      · simp only [List.replicate_succ, runIters]
        have : (iter total N st []).2 = false := by simpa [iter] using hex
        simp [this, hrun]

/-- from the very start: `⌈N/5⌉` iterations suffice once all final messages are in (`N ≥ 1`). -/
theorem reporter_terminates_from_init (total N : Nat) (hN : 0 < N) (mr : List (Option Nat))
    (hall : ∀ i, finished mr total i = true) :
    ∃ k, k ≤ (N + 4) / 5 ∧ (runIters total N { RState.init N with mostRecent := mr } (List.replicate k [])).2 = true := by
  have hinv : Inv N { RState.init N with mostRecent := mr } := by
    have := inv_init N
    exact ⟨this.next_le, this.partition, this.nonempty⟩
  have hfull : Full N { RState.init N with mostRecent := mr } := full_init N
  have := reporter_terminates_tight total N _ hinv hfull hall (by simpa [RState.init] using hN)
  simpa [RState.init] using this

end MiniMcmcVerif.Reporter

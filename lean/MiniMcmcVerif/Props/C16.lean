import MiniMcmcVerif.Model.Categorical
import Mathlib.Algebra.Order.Field.Basic
import Mathlib.Algebra.BigOperators.Group.List.Basic
import Mathlib.Algebra.BigOperators.Ring.List
import Mathlib.Algebra.Order.BigOperators.Group.List
import Mathlib.Tactic.Linarith
import Mathlib.Tactic.FieldSimp

/-!
# C16 — Categorical: normalised probabilities, samples in range, never a zero-probability category

`sample_pos_prob` is proved over an *arbitrary carrier* (no algebra assumed beyond the two facts listed as hypotheses),
so it applies verbatim to IEEE floats, absorption of small addends included.
-/

set_option linter.unusedSectionVars false

namespace MiniMcmcVerif.Categorical

section carrier
variable {α : Type} [Add α] [LT α] [DecidableLT α] [OfNat α 0]

theorem lastPos_lt (probs : List α) (k : Nat) (h : lastPos probs = some k) : k < probs.length := by
  induction probs generalizing k with
  | nil => simp [lastPos] at h
  | cons p ps ih =>
    simp only [lastPos] at h
    split at h
    · rename_i k' hk'
      have := ih k' hk'
      simp only [Option.some.injEq] at h
      subst h; simp; omega
    · split at h
      · simp only [Option.some.injEq] at h; subst h; simp
      · simp at h

theorem lastPos_pos (probs : List α) (k : Nat) (h : lastPos probs = some k) (hk : k < probs.length) :
    (0 : α) < probs[k] := by
  induction probs generalizing k with
  | nil => simp [lastPos] at h
  | cons p ps ih =>
    simp only [lastPos] at h
    split at h
    · rename_i k' hk'
      simp only [Option.some.injEq] at h
      subst h
      simp only [List.getElem_cons_succ]
      exact ih k' hk' (lastPos_lt ps k' hk')
    · split at h
      · rename_i hp
        simp only [Option.some.injEq] at h; subst h; simpa using hp
      · simp at h

theorem lastPos_none (probs : List α) (h : lastPos probs = none) : ∀ p ∈ probs, ¬ (0 : α) < p := by
  induction probs with
  | nil => simp
  | cons p ps ih =>
    simp only [lastPos] at h
    split at h
    · simp at h
    · rename_i hnone
      split at h
      · simp at h
      · rename_i hp
        intro q hq
        rcases List.mem_cons.mp hq with rfl | hq
        · exact hp
        · exact ih hnone q hq

theorem scan_lt (r : α) (probs : List α) (cum : α) (i k : Nat) (h : scan r probs cum i = some k) :
    i ≤ k ∧ k < i + probs.length := by
  induction probs generalizing cum i with
  | nil => simp [scan] at h
  | cons p ps ih =>
    simp only [scan] at h
    split at h
    · simp only [Option.some.injEq] at h; subst h; simp
    · have := ih _ _ h
      simp only [List.length_cons]; omega

/-- the scan never breaks at a zero-probability entry: needs only that adding zero does not change what `r` is
    below (`r < x + 0 → r < x`, true of IEEE addition) and that `r` was not already below the running sum. -/
theorem scan_pos (r : α) (hadd0 : ∀ x : α, r < x + 0 → r < x)
    (probs : List α) (hprobs : ∀ p ∈ probs, p = 0 ∨ (0 : α) < p)
    (cum : α) (hcum : ¬ r < cum) (i k : Nat) (h : scan r probs cum i = some k)
    (hk : k - i < probs.length) : (0 : α) < probs[k - i] := by
  induction probs generalizing cum i with
  | nil => simp [scan] at h
  | cons p ps ih =>
    simp only [scan] at h
    split at h
    · rename_i hlt
      simp only [Option.some.injEq] at h; subst h
      simp only [Nat.sub_self, List.getElem_cons_zero]
      rcases hprobs p (by simp) with h0 | hpos
      · subst h0; exact absurd (hadd0 cum hlt) hcum
      · exact hpos
    · rename_i hnlt
      have hik := scan_lt r ps _ _ _ h
      have hk' : k - (i + 1) < ps.length := by omega
      have := ih (fun q hq => hprobs q (List.mem_cons_of_mem _ hq)) _ hnlt (i + 1) h hk'
      have e : k - i = (k - (i + 1)) + 1 := by omega
      simp only [e, List.getElem_cons_succ]
      exact this

/-- **sampling stays in range**, for every variate `r`. -/
theorem sample_in_range (probs : List α) (r : α) (hne : probs ≠ []) : sampleIdx probs r < probs.length := by
  unfold sampleIdx
  cases h : scan r probs 0 0 with
  | some k => have := scan_lt r probs 0 0 k h; simp; omega
  | none =>
    simp only [Option.getD_none, fallback]
    cases h2 : lastPos probs with
    | some k => simpa using lastPos_lt probs k h2
    | none =>
      simp only [Option.getD_none]
      have : 0 < probs.length := List.length_pos_iff.mpr hne
      omega

/-- **never a zero-probability category**: for *every* variate `r` that is not below zero (every uniform variate,
    exactly `0` and `1 - ulp` included), if every entry is `0` or positive and some entry is positive, the sampled
    category has positive probability. -/
theorem sample_pos_prob (probs : List α) (r : α)
    (hr : ¬ r < (0 : α)) (hadd0 : ∀ x : α, r < x + 0 → r < x)
    (hprobs : ∀ p ∈ probs, p = 0 ∨ (0 : α) < p) (hsome : ∃ p ∈ probs, (0 : α) < p)
    (hlt : sampleIdx probs r < probs.length) :
    (0 : α) < probs[sampleIdx probs r] := by
  suffices H : ∀ k, sampleIdx probs r = k → ∀ hk : k < probs.length, (0 : α) < probs[k] from H _ rfl hlt
  intro k hk hklt
  unfold sampleIdx at hk
  cases h : scan r probs 0 0 with
  | some k' =>
    simp only [h, Option.getD_some] at hk
    subst hk
    have := scan_pos r hadd0 probs hprobs 0 hr 0 k' h (by simpa using hklt)
    simpa using this
  | none =>
    simp only [h, Option.getD_none, fallback] at hk
    cases h2 : lastPos probs with
    | some k' =>
      simp only [h2, Option.getD_some] at hk
      subst hk
      exact lastPos_pos probs k' h2 hklt
    | none =>
      obtain ⟨p, hp, hpos⟩ := hsome
      exact absurd hpos (lastPos_none probs h2 p hp)

end carrier

section field
variable {α : Type} [Field α] [LinearOrder α] [IsStrictOrderedRing α]

omit [LinearOrder α] [IsStrictOrderedRing α] in
theorem total_eq_sum (ws : List α) : total ws = ws.sum := by
  unfold total
  rw [List.sum_eq_foldl]

/-- **normalisation**: the stored probabilities sum to one (any field, total weight non-zero). -/
theorem normalize_sum_one (ws : List α) (h : ws.sum ≠ 0) : (normalize ws).sum = 1 := by
  unfold normalize
  rw [total_eq_sum]
  have : (ws.map (· / ws.sum)).sum = ws.sum / ws.sum := by
    simp only [div_eq_mul_inv]
    rw [List.sum_map_mul_right]
    simp
  rw [this, div_self h]

theorem normalize_nonneg (ws : List α) (hw : ∀ w ∈ ws, 0 ≤ w) : ∀ p ∈ normalize ws, 0 ≤ p := by
  intro p hp
  simp only [normalize, List.mem_map] at hp
  obtain ⟨w, hw', rfl⟩ := hp
  rw [total_eq_sum]
  exact div_nonneg (hw w hw') (List.sum_nonneg hw)

/-- scan characterisation in exact arithmetic: starting with running sum `cum ≤ r`, the scan stops at the first
    index whose cumulative sum exceeds `r`. -/
theorem scan_region (r : α) (probs : List α) (hp : ∀ p ∈ probs, 0 ≤ p) (cum : α) (i j : Nat)
    (hj : j < probs.length)
    (hlow : cum + (probs.take j).sum ≤ r) (hhigh : r < cum + (probs.take (j + 1)).sum) :
    scan r probs cum i = some (i + j) := by
  induction probs generalizing cum i j with
  | nil => simp at hj
  | cons p ps ih =>
    simp only [scan]
    cases j with
    | zero =>
      simp only [List.take_zero, List.sum_nil, add_zero, List.take_succ_cons, List.sum_cons] at hlow hhigh
      simp [hhigh]
    | succ j =>
      simp only [List.take_succ_cons, List.sum_cons] at hlow hhigh
      have hpj : 0 ≤ (ps.take j).sum := List.sum_nonneg fun q hq => hp q (List.mem_cons_of_mem _ (List.mem_of_mem_take hq))
      have hn : ¬ r < cum + p := by
        have : cum + p ≤ r := by linarith
        exact not_lt.mpr this
      simp only [hn, if_false]
      have := ih (fun q hq => hp q (List.mem_cons_of_mem _ hq)) (cum + p) (i + 1) j
        (by simpa using hj) (by linarith) (by linarith)
      rw [this]; congr 1; omega

/-- **samples follow `probs`** (exact arithmetic): the set of variates mapped to category `j` is exactly the
    interval `[c_{j-1}, c_j)` of the cumulative sums, whose length is `p_j`. Hence under a uniform variate category
    `j` is drawn with probability `p_j`. -/
theorem sample_region (probs : List α) (hp : ∀ p ∈ probs, 0 ≤ p) (r : α) (j : Nat) (hj : j < probs.length)
    (hlow : (probs.take j).sum ≤ r) (hhigh : r < (probs.take (j + 1)).sum) :
    sampleIdx probs r = j := by
  unfold sampleIdx
  rw [scan_region r probs hp 0 0 j hj (by simpa using hlow) (by simpa using hhigh)]
  simp

omit [LinearOrder α] [IsStrictOrderedRing α] in
theorem region_length (probs : List α) (j : Nat) (hj : j < probs.length) :
    (probs.take (j + 1)).sum - (probs.take j).sum = probs[j] := by
  rw [List.take_succ_eq_append_getElem hj, List.sum_append]
  simp

omit [LinearOrder α] [IsStrictOrderedRing α] in
/-- **proportionality**: the stored probability of category `i` is its weight divided by the total weight. -/
theorem normalize_getElem (ws : List α) (i : Nat) (hi : i < ws.length) :
    (normalize ws)[i]'(by simpa [normalize] using hi) = ws[i] / ws.sum := by
  simp [normalize, total_eq_sum]

omit [LinearOrder α] [IsStrictOrderedRing α] in
/-- a category has stored probability zero exactly when its weight is zero: normalisation neither creates nor removes
    zero-probability categories (so "never a zero-probability category" is "never a zero-weight category"). -/
theorem normalize_zero_iff (ws : List α) (h : ws.sum ≠ 0) (i : Nat) (hi : i < ws.length) :
    (normalize ws)[i]'(by simpa [normalize] using hi) = 0 ↔ ws[i] = 0 := by
  rw [normalize_getElem ws i hi, div_eq_zero_iff]
  exact ⟨fun h' => h'.resolve_right h, Or.inl⟩

omit [LinearOrder α] [IsStrictOrderedRing α] in
/-- normalisation is invariant under rescaling of all weights by a non-zero constant (unnormalised weights). -/
theorem normalize_scale (ws : List α) (c : α) (hc : c ≠ 0) : normalize (ws.map (c * ·)) = normalize ws := by
  unfold normalize
  rw [total_eq_sum, total_eq_sum, List.map_map, List.sum_map_mul_left]
  apply List.map_congr_left
  intro w _
  simp only [Function.comp, List.map_id']
  rw [mul_div_mul_left _ _ hc]

end field

/-! ### non-vacuity -/
example : sampleIdx [(0 : Rat), 1/4, 0, 3/4, 0] 0 = 1 ∧ sampleIdx [(0 : Rat), 1/4, 0, 3/4, 0] (1/4) = 3
    ∧ sampleIdx [(0 : Rat), 1/4, 0, 3/4, 0] 1 = 3 ∧ sampleIdx [(0 : Rat), 1/4, 0, 3/4, 0] (999/1000) = 3 := by
  decide +kernel
example : normalize [(2 : Rat), 0, 6] = [1/4, 0, 3/4] := by decide +kernel

end MiniMcmcVerif.Categorical

import MiniMcmcVerif.Model.Seeds
import MiniMcmcVerif.Model.Init
import MiniMcmcVerif.Props.C07
import MiniMcmcVerif.Props.C18

/-!
# C08 — chains of one sampler are driven by distinct random streams
-/

namespace MiniMcmcVerif.Seeds

theorem proposalSeed_eq (seed : W) (j : Nat) :
    mhProposalSeed seed j = seed + BitVec.ofNat 64 (j + 2 ^ 63) + 1#64 := by
  unfold mhProposalSeed mhAcceptSeed
  have h : (1#64 <<< 63 : W) = BitVec.ofNat 64 (2 ^ 63) := by decide
  rw [h, BitVec.ofNat_add]
  ac_rfl

/-- **Metropolis–Hastings, seeded**: for up to `2^63` chains and every seed, the `2n` generators of the sampler
    (one acceptance and one proposal generator per chain) are seeded pairwise differently — in particular no two
    chains share a proposal stream or an acceptance stream, and within a chain the two are never seeded identically. -/
theorem mh_chain_streams_distinct (seed : W) (i j : Nat) (hi : i < 2 ^ 63) (hj : j < 2 ^ 63) :
    (i ≠ j → seedFromU64 (mhAcceptSeed seed i) ≠ seedFromU64 (mhAcceptSeed seed j))
    ∧ (i ≠ j → seedFromU64 (mhProposalSeed seed i) ≠ seedFromU64 (mhProposalSeed seed j))
    ∧ seedFromU64 (mhAcceptSeed seed i) ≠ seedFromU64 (mhProposalSeed seed j) := by
  have hi' : i < 2 ^ 64 := by omega
  have hj' : j < 2 ^ 64 := by omega
  refine ⟨?_, ?_, ?_⟩
  · intro hij h
    exact hij (ofNat_add_injective seed 1#64 i j hi' hj' (seedFromU64_injective h))
  · intro hij h
    have := seedFromU64_injective h
    rw [proposalSeed_eq, proposalSeed_eq] at this
    have := ofNat_add_injective seed 1#64 (i + 2 ^ 63) (j + 2 ^ 63) (by omega) (by omega) this
    omega
  · intro h
    have := seedFromU64_injective h
    rw [proposalSeed_eq] at this
    unfold mhAcceptSeed at this
    have := ofNat_add_injective seed 1#64 i (j + 2 ^ 63) hi' (by omega) this
    omega

/-- within one chain the acceptance generator and the proposal generator are never seeded identically. -/
theorem mh_accept_ne_proposal (seed : W) (i : Nat) (hi : i < 2 ^ 63) :
    seedFromU64 (mhAcceptSeed seed i) ≠ seedFromU64 (mhProposalSeed seed i) :=
  (mh_chain_streams_distinct seed i i hi hi).2.2

/-- **NUTS**: chain `i` is seeded `seed + i + 1`; distinct chains get distinct generator states. -/
theorem nuts_chain_seeds_distinct (seed : W) (i j : Nat) (hi : i < 2 ^ 64) (hj : j < 2 ^ 64) (hij : i ≠ j) :
    seedFromU64 (nutsSeed seed i) ≠ seedFromU64 (nutsSeed seed j) :=
  (chain_seed_injective seed i j hi hj hij).2.1


theorem rotl45_injective : Function.Injective (fun z : W => z.rotateLeft 45) := by
  intro a b h
  simp only at h
  apply BitVec.eq_of_getLsbD_eq
  intro i hi
  have h1 := congrArg (fun z : W => z.getLsbD ((i + 45) % 64)) h
  simp only [BitVec.getLsbD_rotateLeft] at h1
  by_cases hc : (i + 45) % 64 < 45 % 64
  · have e : 64 - 45 % 64 + (i + 45) % 64 = i := by omega
    simp only [hc, e] at h1
    simpa using h1
  · have e : (i + 45) % 64 - 45 % 64 = i := by omega
    have e2 : (i + 45) % 64 < 64 := by omega
    simp only [hc, e, e2, decide_true, Bool.true_and] at h1
    exact h1

/-- `z ↦ z ^ (z <<< k)` is injective for `4k ≥ 64` (`d = d <<< k` forces `d = d <<< 4k = 0`). -/
theorem xsl_injective (k : Nat) (hk : 64 ≤ 4 * k) : Function.Injective (fun z : W => z ^^^ (z <<< k)) := by
  intro a b h
  simp only at h
  have hd : (a ^^^ b) = (a ^^^ b) <<< k := by
    have h2 : (a ^^^ (a <<< k)) ^^^ (b ^^^ (b <<< k)) = 0#64 := by rw [h]; exact BitVec.xor_self
    have h3 : (a ^^^ b) ^^^ ((a ^^^ b) <<< k) = 0#64 := by
      rw [BitVec.shiftLeft_xor_distrib]
      rw [← h2]
      ac_rfl
    exact BitVec.xor_eq_zero_iff.mp h3
  have h4 : (a ^^^ b) = (a ^^^ b) <<< (k + k + k + k) := by
    rw [BitVec.shiftLeft_add, BitVec.shiftLeft_add, BitVec.shiftLeft_add, ← hd, ← hd, ← hd, ← hd]
  have hz : (a ^^^ b) <<< (k + k + k + k) = 0#64 := BitVec.shiftLeft_eq_zero (by omega)
  rw [hz] at h4
  exact BitVec.xor_eq_zero_iff.mp h4

/-- the xoshiro256++ state transition is a bijection of the state space, hence injective: two generators in different
    states are in different states after the step. -/
theorem next_state_injective (x y : Xo) (h : x.next.2 = y.next.2) : x = y := by
  obtain ⟨a0, a1, a2, a3⟩ := x
  obtain ⟨b0, b1, b2, b3⟩ := y
  simp only [Xo.next, Xo.mk.injEq] at h
  obtain ⟨h0, h1, h2, h3⟩ := h
  have e3 : a3 ^^^ a1 = b3 ^^^ b1 := rotl45_injective h3
  have e0 : a0 = b0 := by
    have : a0 ^^^ (a3 ^^^ a1) ^^^ (a3 ^^^ a1) = b0 ^^^ (b3 ^^^ b1) ^^^ (b3 ^^^ b1) := by rw [h0, e3]
    simpa [BitVec.xor_assoc] using this
  have e1 : a1 = b1 := by
    apply xsl_injective 17 (by omega)
    simp only
    have : (a1 ^^^ (a2 ^^^ a0)) ^^^ (a2 ^^^ a0 ^^^ a1 <<< 17) = (b1 ^^^ (b2 ^^^ b0)) ^^^ (b2 ^^^ b0 ^^^ b1 <<< 17) := by rw [h1, h2]
    have l : ∀ p q r : W, (p ^^^ q) ^^^ (q ^^^ r) = p ^^^ r := by
      intro p q r
      rw [BitVec.xor_assoc, ← BitVec.xor_assoc q q r, BitVec.xor_self, BitVec.zero_xor]
    rwa [l, l] at this
  have e3' : a3 = b3 := by
    have : (a3 ^^^ a1) ^^^ a1 = (b3 ^^^ b1) ^^^ b1 := by rw [e3, e1]
    simpa [BitVec.xor_assoc] using this
  have e2 : a2 = b2 := by
    rw [e1, e0] at h1
    have : b1 ^^^ (b1 ^^^ (a2 ^^^ b0)) ^^^ b0 = b1 ^^^ (b1 ^^^ (b2 ^^^ b0)) ^^^ b0 := by rw [h1]
    simpa [← BitVec.xor_assoc, BitVec.xor_assoc _ b0 b0] using this
  subst e0 e1 e2 e3'
  rfl

/-- **streams never merge**: generators started in different states are in different states after any number of draws. -/
theorem iter_injective (n : Nat) (x y : Xo) (h : Xo.iter n x = Xo.iter n y) : x = y := by
  induction n generalizing x y with
  | zero => exact h
  | succ n ih => exact next_state_injective x y (ih _ _ h)

/-- NUTS / MH acceptance chains `i ≠ j`: after any number `n` of draws the two generators are still in different states. -/
theorem nuts_chains_never_merge (seed : W) (i j : Nat) (hi : i < 2 ^ 64) (hj : j < 2 ^ 64) (hij : i ≠ j) (n : Nat) :
    Xo.iter n (seedFromU64 (nutsSeed seed i)) ≠ Xo.iter n (seedFromU64 (nutsSeed seed j)) :=
  fun h => nuts_chain_seeds_distinct seed i j hi hj hij (iter_injective n _ _ h)

theorem mh_streams_never_merge (seed : W) (i j : Nat) (hi : i < 2 ^ 63) (hj : j < 2 ^ 63) (n : Nat) :
    Xo.iter n (seedFromU64 (mhAcceptSeed seed i)) ≠ Xo.iter n (seedFromU64 (mhProposalSeed seed j)) :=
  fun h => (mh_chain_streams_distinct seed i j hi hj).2.2 (iter_injective n _ _ h)

end MiniMcmcVerif.Seeds

namespace MiniMcmcVerif.Init

variable {α : Type}

/-- **HMC**: the momenta of a batch are `n` consecutive rows of `d` variates of one stream: row `i` uses stream
    positions `i·d … i·d+d-1`, so different chains use disjoint segments; the acceptance variates come after all of them. -/
theorem hmc_rows_disjoint_segments (n d : Nat) (s : List α) (i j : Nat) (hi : i < n) (hj : j < n) (hij : i < j) :
    (initRows n d s)[i]'(by rw [init_length]; exact hi) = (s.drop (i * d)).take d
    ∧ (initRows n d s)[j]'(by rw [init_length]; exact hj) = (s.drop (j * d)).take d
    ∧ i * d + d ≤ j * d ∧ j * d + d ≤ n * d := by
  refine ⟨init_row n d s i hi, init_row n d s j hj, ?_, ?_⟩
  · have : (i + 1) * d ≤ j * d := Nat.mul_le_mul_right d hij
    rw [Nat.succ_mul] at this; exact this
  · have : (j + 1) * d ≤ n * d := Nat.mul_le_mul_right d hj
    rw [Nat.succ_mul] at this; exact this

end MiniMcmcVerif.Init

import MiniMcmcVerif.Model.Seeds
import MiniMcmcVerif.Model.Init
import MiniMcmcVerif.Props.C07
import MiniMcmcVerif.Props.C18

/-!
# C08 — chains of one sampler are driven by distinct random streams
-/

namespace MiniMcmcVerif.Seeds

theorem proposalSeed_eq (seed : W) (j : Nat) :
    mhProposalSeed seed j = seed + BitVec.ofNat 64 (j + 2 ^ 63) + 1#64 := by
  unfold mhProposalSeed mhAcceptSeed
  have h : (1#64 <<< 63 : W) = BitVec.ofNat 64 (2 ^ 63) := by decide
  rw [h, BitVec.ofNat_add]
  ac_rfl

/-- **Metropolis–Hastings, seeded**: for up to `2^63` chains and every seed, the `2n` generators of the sampler
    (one acceptance and one proposal generator per chain) are seeded pairwise differently — in particular no two
    chains share a proposal stream or an acceptance stream, and within a chain the two are never seeded identically. -/
theorem mh_chain_streams_distinct (seed : W) (i j : Nat) (hi : i < 2 ^ 63) (hj : j < 2 ^ 63) :
    (i ≠ j → seedFromU64 (mhAcceptSeed seed i) ≠ seedFromU64 (mhAcceptSeed seed j))
    ∧ (i ≠ j → seedFromU64 (mhProposalSeed seed i) ≠ seedFromU64 (mhProposalSeed seed j))
    ∧ seedFromU64 (mhAcceptSeed seed i) ≠ seedFromU64 (mhProposalSeed seed j) := by
  have hi' : i < 2 ^ 64 := by omega
  have hj' : j < 2 ^ 64 := by omega
  refine ⟨?_, ?_, ?_⟩
  · intro hij h
    exact hij (ofNat_add_injective seed 1#64 i j hi' hj' (seedFromU64_injective h))
  · intro hij h
    have := seedFromU64_injective h
    rw [proposalSeed_eq, proposalSeed_eq] at this
    have := ofNat_add_injective seed 1#64 (i + 2 ^ 63) (j + 2 ^ 63) (by omega) (by omega) this
    omega
  · intro h
    have := seedFromU64_injective h
    rw [proposalSeed_eq] at this
    unfold mhAcceptSeed at this
    have := ofNat_add_injective seed 1#64 i (j + 2 ^ 63) hi' (by omega) this
    omega

/-- within one chain the acceptance generator and the proposal generator are never seeded identically. -/
theorem mh_accept_ne_proposal (seed : W) (i : Nat) (hi : i < 2 ^ 63) :
    seedFromU64 (mhAcceptSeed seed i) ≠ seedFromU64 (mhProposalSeed seed i) :=
  (mh_chain_streams_distinct seed i i hi hi).2.2

/-- **NUTS**: chain `i` is seeded `seed + i + 1`; distinct chains get distinct generator states. -/
theorem nuts_chain_seeds_distinct (seed : W) (i j : Nat) (hi : i < 2 ^ 64) (hj : j < 2 ^ 64) (hij : i ≠ j) :
    seedFromU64 (nutsSeed seed i) ≠ seedFromU64 (nutsSeed seed j) :=
  (chain_seed_injective seed i j hi hj hij).2.1

end MiniMcmcVerif.Seeds

namespace MiniMcmcVerif.Init

variable {α : Type}

/-- **HMC**: the momenta of a batch are `n` consecutive rows of `d` variates of one stream: row `i` uses stream
    positions `i·d … i·d+d-1`, so different chains use disjoint segments; the acceptance variates come after all of them. -/
theorem hmc_rows_disjoint_segments (n d : Nat) (s : List α) (i j : Nat) (hi : i < n) (hj : j < n) (hij : i < j) :
    (initRows n d s)[i]'(by rw [init_length]; exact hi) = (s.drop (i * d)).take d
    ∧ (initRows n d s)[j]'(by rw [init_length]; exact hj) = (s.drop (j * d)).take d
    ∧ i * d + d ≤ j * d ∧ j * d + d ≤ n * d := by
  refine ⟨init_row n d s i hi, init_row n d s j hj, ?_, ?_⟩
  · have : (i + 1) * d ≤ j * d := Nat.mul_le_mul_right d hij
    rw [Nat.succ_mul] at this; exact this
  · have : (j + 1) * d ≤ n * d := Nat.mul_le_mul_right d hj
    rw [Nat.succ_mul] at this; exact this

end MiniMcmcVerif.Init

import MiniMcmcVerif.Props.C12
import MiniMcmcVerif.Props.C12Invariance
import Mathlib.RingTheory.RootsOfUnity.Complex
import Mathlib.Algebra.BigOperators.Ring.Finset
import Mathlib.Algebra.Ring.GeomSum
import Mathlib.Tactic.Linarith

/-!
# C12 — the FFT path: the DFT correlation identity is a theorem, not an assumption

`autocov_fft` computes, per column, `ifft(fft(x) · conj(fft(x)))[lag].re / n_padded / n` with `rustfft`'s
un-normalised transforms `X_k = Σ_a x_a ζ^(-ak)` and `y_t = Σ_k Y_k ζ^(kt)`, `ζ = exp(2πi/N)`. Here it is proved
(Wiener–Khinchin for the finite Fourier transform) that for real data this is exactly the circular correlation
`Σ_a x_a · x_((a+t) mod N)` times `N` — the quantity `Stats.autocovCirc` is defined by — so the only thing still trusted
about `rustfft` is that `process` computes the DFT sums.
-/

set_option linter.unusedSectionVars false
set_option linter.unusedVariables false

namespace MiniMcmcVerif.Stats

open Finset Complex

/-- forward DFT as `rustfft`'s `plan_fft_forward` defines it (no normalisation) -/
noncomputable def dft (N : ℕ) (ζ : ℂ) (x : ℕ → ℂ) (k : ℕ) : ℂ := ∑ a ∈ range N, x a * ζ ^ (-((a : ℤ) * k))

/-- inverse DFT as `plan_fft_inverse` defines it (no normalisation) -/
noncomputable def idft (N : ℕ) (ζ : ℂ) (X : ℕ → ℂ) (t : ℕ) : ℂ := ∑ k ∈ range N, X k * ζ ^ ((k : ℤ) * t)

/-- orthogonality of the characters: `Σ_{k<N} ζ^(k·m) = N` if `N ∣ m`, else `0` -/
theorem char_orth {N : ℕ} {ζ : ℂ} (hζ : IsPrimitiveRoot ζ N) (hN : 0 < N) (m : ℤ) :
    ∑ k ∈ range N, ζ ^ ((k : ℤ) * m) = if (N : ℤ) ∣ m then (N : ℂ) else 0 := by
  have hz : ζ ≠ 0 := hζ.ne_zero (by omega)
  have hpow : ∀ k : ℕ, ζ ^ ((k : ℤ) * m) = (ζ ^ m) ^ k := by
    intro k; rw [mul_comm, zpow_mul, zpow_natCast]
  simp only [hpow]
  split_ifs with hd
  · have : ζ ^ m = 1 := (hζ.zpow_eq_one_iff_dvd m).mpr hd
    simp [this]
  · have hne : ζ ^ m ≠ 1 := fun h => hd ((hζ.zpow_eq_one_iff_dvd m).mp h)
    have hN1 : (ζ ^ m) ^ N = 1 := by
      rw [← zpow_natCast, ← zpow_mul, mul_comm, zpow_mul, zpow_natCast, hζ.pow_eq_one, one_zpow]
    have := geom_sum_mul (ζ ^ m) N
    rw [hN1, sub_self] at this
    rcases mul_eq_zero.mp this with h | h
    · exact h
    · exact absurd (sub_eq_zero.mp h) hne

/-- conjugate of the primitive root on the unit circle -/
theorem conj_zeta (N : ℕ) : (starRingEnd ℂ) (exp (2 * Real.pi * I / N)) = (exp (2 * Real.pi * I / N))⁻¹ := by
  rw [← Complex.exp_conj, ← Complex.exp_neg]
  congr 1
  rw [map_div₀, map_mul, map_mul, Complex.conj_I, map_natCast, map_ofNat, Complex.conj_ofReal]
  ring

theorem conj_zpow (N : ℕ) (e : ℤ) :
    (starRingEnd ℂ) ((exp (2 * Real.pi * I / N)) ^ e) = (exp (2 * Real.pi * I / N)) ^ (-e) := by
  rw [map_zpow₀, conj_zeta, inv_zpow, zpow_neg]

/-- **correlation theorem** for real data: `idft (X · conj X) t = N · Σ_a x_a · x_((a+t) mod N)` -/
theorem idft_dft_mul_conj (N : ℕ) (hN : 0 < N) (x : ℕ → ℝ) (t : ℕ) (ht : t < N) :
    idft N (exp (2 * Real.pi * I / N)) (fun k => dft N (exp (2 * Real.pi * I / N)) (fun a => (x a : ℂ)) k
        * (starRingEnd ℂ) (dft N (exp (2 * Real.pi * I / N)) (fun a => (x a : ℂ)) k)) t
      = (N : ℂ) * ∑ a ∈ range N, ((x a * x ((a + t) % N) : ℝ) : ℂ) := by
  set ζ := exp (2 * Real.pi * I / N) with hζdef
  have hζ : IsPrimitiveRoot ζ N := Complex.isPrimitiveRoot_exp N (by omega)
  have hz : ζ ≠ 0 := hζ.ne_zero (by omega)
  unfold idft dft
  -- expand conj of the sum
  have hconj : ∀ k : ℕ, (starRingEnd ℂ) (∑ a ∈ range N, (x a : ℂ) * ζ ^ (-((a : ℤ) * k)))
      = ∑ b ∈ range N, (x b : ℂ) * ζ ^ ((b : ℤ) * k) := by
    intro k
    rw [map_sum]
    apply Finset.sum_congr rfl
    intro b _
    rw [map_mul, Complex.conj_ofReal, hζdef, conj_zpow, neg_neg]
  simp only [hconj]
  -- triple sum, exchange, orthogonality
  have hexp : ∀ k : ℕ, (∑ a ∈ range N, (x a : ℂ) * ζ ^ (-((a : ℤ) * k))) * (∑ b ∈ range N, (x b : ℂ) * ζ ^ ((b : ℤ) * k))
        * ζ ^ ((k : ℤ) * t)
      = ∑ b ∈ range N, ∑ a ∈ range N, (x a : ℂ) * (x b : ℂ) * ζ ^ ((k : ℤ) * ((b : ℤ) - a + t)) := by
    intro k
    have hterm : ∀ a b : ℕ, (x a : ℂ) * (x b : ℂ) * ζ ^ ((k : ℤ) * ((b : ℤ) - a + t))
        = (x a : ℂ) * ζ ^ (-((a : ℤ) * k)) * ((x b : ℂ) * ζ ^ ((b : ℤ) * k)) * ζ ^ ((k : ℤ) * t) := by
      intro a b
      have : ζ ^ ((k : ℤ) * ((b : ℤ) - a + t)) = ζ ^ (-((a : ℤ) * k)) * ζ ^ ((b : ℤ) * k) * ζ ^ ((k : ℤ) * t) := by
        rw [← zpow_add₀ hz, ← zpow_add₀ hz]; congr 1; ring
      rw [this]; ring
    simp only [hterm]
    rw [Finset.sum_mul_sum, Finset.sum_mul, Finset.sum_comm]
    apply Finset.sum_congr rfl; intro b _
    rw [Finset.sum_mul]
  simp only [hexp]
  rw [Finset.sum_comm]
  have hinner : ∀ b ∈ range N, ∑ k ∈ range N, ∑ a ∈ range N, (x a : ℂ) * (x b : ℂ) * ζ ^ ((k : ℤ) * ((b : ℤ) - a + t))
      = (N : ℂ) * ((x ((b + t) % N) : ℂ) * (x b : ℂ)) := by
    intro b hb
    rw [Finset.sum_comm]
    have : ∀ a ∈ range N, ∑ k ∈ range N, (x a : ℂ) * (x b : ℂ) * ζ ^ ((k : ℤ) * ((b : ℤ) - a + t))
        = if a = (b + t) % N then (N : ℂ) * ((x a : ℂ) * (x b : ℂ)) else 0 := by
      intro a ha
      rw [← Finset.mul_sum, char_orth hζ hN]
      have ha' : a < N := mem_range.mp ha
      have hb' : b < N := mem_range.mp hb
      have hiff : ((N : ℤ) ∣ (b : ℤ) - a + t) ↔ a = (b + t) % N := by
        constructor
        · intro hd
          have hd' : (N : ℤ) ∣ ((b + t : ℕ) : ℤ) - a := by push_cast; convert hd using 1; ring
          have h1 : ((b + t : ℕ) : ℤ) % N = (a : ℤ) % N :=
            Int.emod_eq_emod_iff_emod_sub_eq_zero.mpr (Int.emod_eq_zero_of_dvd hd')
          have h2 : (b + t) % N = a % N := by exact_mod_cast h1
          rw [h2, Nat.mod_eq_of_lt ha']
        · intro he
          have : ((b + t : ℕ) : ℤ) = N * ((b + t) / N : ℕ) + a := by
            rw [he]; exact_mod_cast (Nat.div_add_mod (b + t) N).symm
          refine ⟨((b + t) / N : ℕ), ?_⟩
          push_cast at this ⊢; linarith
      by_cases h : a = (b + t) % N
      · rw [if_pos (hiff.mpr h), if_pos h]; ring
      · rw [if_neg (fun hd => h (hiff.mp hd)), if_neg h]; ring
    rw [Finset.sum_congr rfl this, Finset.sum_ite_eq' (range N) ((b + t) % N)]
    rw [if_pos (mem_range.mpr (Nat.mod_lt _ hN))]
  rw [Finset.sum_congr rfl hinner, ← Finset.mul_sum]
  congr 1
  apply Finset.sum_congr rfl
  intro b _
  push_cast; ring

theorem list_range_sum_eq_finset (f : ℕ → ℝ) (n : ℕ) : ((List.range n).map f).sum = ∑ i ∈ range n, f i := by
  induction n with
  | zero => simp
  | succ n ih => rw [List.range_succ, List.map_append, List.sum_append, ih, Finset.sum_range_succ]; simp

/-- **`autocov_fft` as coded** (centre, zero-pad to `npad n`, forward transform, multiply by the conjugate, inverse
    transform, real part, divide by `n_padded` and by `n`) **equals the model's `autocovCirc`**, lag by lag — and
    therefore (`autocovCirc_eq_autocovBF`) the brute-force autocovariance. -/
theorem autocov_fft_eq_autocovCirc (xs : List ℝ) (lag : ℕ) (hlag : lag < xs.length) :
    let np := npad xs.length
    let ζ := exp (2 * Real.pi * I / np)
    let X := dft np ζ (fun a => ((padded (centre xs) a : ℝ) : ℂ))
    (idft np ζ (fun k => X k * (starRingEnd ℂ) (X k)) lag).re / np / xs.length = (autocovCirc xs).getD lag 0 := by
  intro np ζ X
  have hnp : 2 * xs.length - 1 ≤ np := (npad_spec xs.length).choose_spec.2
  have hnp0 : 0 < np := by
    obtain ⟨k, hk, _⟩ := npad_spec xs.length
    change 0 < npad xs.length
    rw [hk]; positivity
  have hlt : lag < np := by omega
  have key := idft_dft_mul_conj np hnp0 (padded (centre xs)) lag hlt
  change idft np ζ (fun k => X k * (starRingEnd ℂ) (X k)) lag = _ at key
  rw [key]
  have hre : ((np : ℂ) * ∑ a ∈ range np, ((padded (centre xs) a * padded (centre xs) ((a + lag) % np) : ℝ) : ℂ)).re
      = (np : ℝ) * ∑ a ∈ range np, padded (centre xs) a * padded (centre xs) ((a + lag) % np) := by
    rw [← Complex.ofReal_sum, ← Complex.ofReal_natCast, ← Complex.ofReal_mul, Complex.ofReal_re]
  rw [hre]
  have hnpR : (np : ℝ) ≠ 0 := by exact_mod_cast (by omega : np ≠ 0)
  rw [mul_div_cancel_left₀ _ hnpR]
  unfold autocovCirc
  simp only [sum_list]
  rw [List.getD_eq_getElem?_getD, List.getElem?_map, List.getElem?_range hlag]
  simp only [Option.map_some, Option.getD_some]
  rw [list_range_sum_eq_finset]

end MiniMcmcVerif.Stats

import MiniMcmcVerif.Model.Util
import MiniMcmcVerif.Driver.C09
import MiniMcmcVerif.Driver.C05
import MiniMcmcVerif.Driver.C16
import MiniMcmcVerif.Driver.C01
import MiniMcmcVerif.Driver.C18
import MiniMcmcVerif.Driver.C17
import MiniMcmcVerif.Driver.Stats
import MiniMcmcVerif.Driver.C07
import MiniMcmcVerif.Driver.C10
import MiniMcmcVerif.Driver.C15
import MiniMcmcVerif.Driver.C02
import MiniMcmcVerif.Driver.C03

open MiniMcmcVerif MiniMcmcVerif.Driver

def dispatch (line : String) : String :=
  match words line with
  | [] => ""
  | "c09" :: args => c09 args
  | "c05" :: args => c05 args
  | "c05p" :: args => c05p args
  | "c16" :: args => c16 args
  | "c16p" :: args => c16p args
  | "c01" :: args => c01 args
  | "c18" :: args => c18 args
  | "c17" :: args => c17 args
  | "c11" :: args => c11 args
  | "c11b" :: args => c11b args
  | "c12" :: args => c12 args
  | "c12a" :: args => c12a args
  | "c13" :: args => c13 args
  | "c13e" :: args => c13e args
  | "c07" :: args => c07 args
  | "c07u" :: args => c07u args
  | "c10" :: args => c10 args
  | "c10w" :: args => c10w args
  | "c15g2" :: args => c15g2 args
  | "c15dg" :: args => c15dg args
  | "c15iso" :: args => c15iso args
  | "c15r2" :: args => c15r2 args
  | "c15rn" :: args => c15rn args
  | "c02" :: args => c02 args
  | "c03" :: args => c03 args
  | "c03t" :: args => c03t args
  | "c03x" :: args => c03x args
  | "c04" :: args => c04 args
  | "c04f" :: args => c04f args
  | _ => "bad-op"

partial def loop (h : IO.FS.Stream) (out : IO.FS.Stream) : IO Unit := do
  let line ← h.getLine
  if line.isEmpty then return ()
  let r := dispatch line
  if r ≠ "" then out.putStrLn r
  loop h out

def main : IO Unit := do
  let out ← IO.getStdout
  loop (← IO.getStdin) out
  out.flush

import MiniMcmcVerif.Model.Util
import MiniMcmcVerif.Model.Run
import MiniMcmcVerif.Props.C09

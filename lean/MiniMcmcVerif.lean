import MiniMcmcVerif.Model.Util
import MiniMcmcVerif.Model.Run
import MiniMcmcVerif.Props.C09
import MiniMcmcVerif.Model.Gibbs
import MiniMcmcVerif.Props.C05
import MiniMcmcVerif.Model.Categorical
import MiniMcmcVerif.Props.C16

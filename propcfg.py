"""Per-property configuration of ./check: proof obligations (theorem names), tolerances, evidence texts."""

COMMON_TRUSTED = [
    "Lean 4.33 kernel; axioms allowed: propext, Classical.choice, Quot.sound (audited per theorem with #print axioms); no sorry/native_decide/bv_decide/own axioms (source grep)",
    "correspondence check: Rust harness generators and canonicalisation (/verif/harness), Lean driver parsing (/verif/lean/Main.lean), Python comparator and tolerances (/verif/check)",
    "Lean compiler/runtime for the executable instantiations of the models (Float, Float32, Rat, UInt64, List, String)",
]

HOOK_COMMITS = ["f19adfe", "71427de", "9be2068", "df621b3", "8e0d3b7", "51d7784", "e5f5adf", "6b85ba2"]

NOT_APPLICABLE = {}

R = "MiniMcmcVerif.Run."

G = "MiniMcmcVerif.Gibbs."

CAT = "MiniMcmcVerif.Categorical."

MH = "MiniMcmcVerif.MH."

INI = "MiniMcmcVerif.Init."

IO = "MiniMcmcVerif.IO."

ST = "MiniMcmcVerif.Stats."

SD = "MiniMcmcVerif.Seeds."
SC = "MiniMcmcVerif.Sched."

RP = "MiniMcmcVerif.Reporter."

DI = "MiniMcmcVerif.Dist."

HM = "MiniMcmcVerif.HMC."

DA = "MiniMcmcVerif.DualAvg."

NU = "MiniMcmcVerif.NUTS."

PROPS = {
    "C06": {
        "obligations": ["MiniMcmcVerif.C06.kernels_leave_target_invariant", "MiniMcmcVerif.MH.mh_stationary", "MiniMcmcVerif.MH.mh_detailed_balance", "MiniMcmcVerif.MH.accept_probability",
                        "MiniMcmcVerif.Gibbs.gibbs_sweep_invariant", "MiniMcmcVerif.HMC.verlet_reversible", "MiniMcmcVerif.HMC.hmc_step_result",
                        "MiniMcmcVerif.HMC.flow_balance", "MiniMcmcVerif.HMC.involutive_mh_invariant", "MiniMcmcVerif.HMC.invKernel_row_sum", "MiniMcmcVerif.HMC.involutive_of_reversible",
                        "MiniMcmcVerif.HMC.hmc_kernel_invariant", "MiniMcmcVerif.HMC.hmc_position_marginal_invariant", "MiniMcmcVerif.HMC.hmc_verlet_invariant",
                        "MiniMcmcVerif.Gibbs.stale_not_invariant", "MiniMcmcVerif.HMC.accept_region_le", "MiniMcmcVerif.HMC.hmc_accept_probability",
                        "MiniMcmcVerif.NUTS.uniform_lt_probability", "MiniMcmcVerif.NUTS.neg_log_uniform_tail", "MiniMcmcVerif.NUTS.selection_uniform",
                        "MiniMcmcVerif.NUTS.buildTree_prime_admissible", "MiniMcmcVerif.Run.runChain_spec", "MiniMcmcVerif.Seeds.mh_chain_streams_distinct"],
        "timeout": 3000,
        "technique": "Lean 4 theorems for the logical content (kernels leave the target invariant given draws with the required laws) + calibrated deterministic-per-seed tests of the draws' laws and of stationarity",
        "level_text": "PARTIAL. Proved (Lean): the MH kernel satisfies detailed balance and leaves the target stationary and its rule accepts with probability min(1, e^r) under a uniform draw; a Gibbs sweep of full-conditional updates leaves any finite joint "
                      "invariant (and the stale-snapshot variant provably does not); the HMC proposal is L steps of a time-reversible integrator plus a Metropolis test on H, and a Metropolis step with a deterministic involutive proposal "
                      "(flip o verlet^L is one) leaves every momentum-even non-negative weight invariant on every finite phase space, jointly and for the position marginal; under a uniform draw the HMC test ln u <= dH accepts with probability min(1, e^dH), a NUTS test u < r succeeds with probability r clipped to [0,1], and "
                      "-log U has the Exp(1) tail (so the coded slice level joint0 - Exp(1) has the law Algorithm 6 requires); the NUTS candidate is uniform among the admissible points of a subtree; run returns the iterates after burn-in; chains use "
                      "distinct streams. NOT proved, only validated: that the draws the real steps consume have the laws these theorems assume, and that long-run pooled estimates stay within Monte-Carlo error. Validation (deterministic for a given "
                      "seed): (a) hook-recorded draws — MH acceptance draws, proposal noise, HMC momenta and uniforms, NUTS momenta, Exp(1) slice draws, direction / adoption / selection uniforms, f32 and f64 — tested against N(0,1) / U[0,1) / Exp(1) "
                      "by mean, variance, Kolmogorov-Smirnov and lag-1 autocorrelation at 6-sigma / p~1e-9 thresholds; (b) 64 chains per sampler started in a random Gaussian target (so every correct kernel keeps them stationary): z-scores of E[x_i], "
                      "E[x_i x_j], P(x_i > mean+sd) with the standard error taken across the independent chains must stay below 6; (c) the same moment tests on chains started from one common displaced point after a burn-in many "
                      "times the mixing time of these well-conditioned targets (a kernel that is invariant but hardly moves fails here); (d) correlations between the proposal and acceptance streams of a seeded multi-chain MH sampler.",
        "level_note": "This is the one property whose deciding part is statistical: a theorem cannot exhibit a wrong draw distribution, and a calibrated test is not a proof — the claim is therefore labelled partial. A hang or an astronomically deep NUTS tree "
                      "is avoided by cutting histories whose step size collapsed. Detects e.g. momenta of the wrong scale, a squared acceptance draw, Exp(2) slice draws, a kernel bias of a few percent in a second moment; cannot detect biases below "
                      "about 6 standard errors (~1-3 % of a second moment at the quick tier).",
        "rule": "per repetition (quick 1, thorough 6): 5 law-test groups (about 1.4e5 draws); 1 stream-independence group (seeded 8-chain MH with a one-word-per-step proposal: proposal/acceptance, acceptance/acceptance and "
                "proposal/proposal correlations within and across chains at lags -1,0,1, about 500 tests at 6 sigma); 5 stationarity groups (MH, Gibbs, HMC fine step, HMC coarse step at 60-75 % of the stability limit with L = 3, NUTS; "
                "64 chains x 200-2500 draws; random SPD Gaussian targets of dimension 1-4; f32/f64 alternating); 3 ergodicity groups (MH, HMC fine and coarse from one common start at mean + 4 sd, burn-in 400-2000) "
                "— about 100 moment tests; a group is one non-trivial case",
        "trusted": ["hook traces report the draws the steps actually consume", "the 64 chains of a sampler are independent (C08) so that the across-chain standard error is valid"],
        "assumptions": ["false-alarm probability per run about 1e-6 (6-sigma thresholds on ~60 tests)"],
    },
    "C14": {
        "module": "MiniMcmcVerif.Props.C14Nuts",
        "obligations": ["MiniMcmcVerif.NUTS.Gen." + n for n in ["buildTree_prime_mem", "buildTree_sel_suffix", "buildTree_leaves_chain", "buildTree_prime_admissible", "doubling_inv",
                                                                "transition_next_state", "nuts_transition_never_bad", "iterate_logp", "nuts_transition_good_position", "unifLaws_field", "unifLaws_xr"]] + ["MiniMcmcVerif.MH.mh_reject_bad", "MiniMcmcVerif.MH.mh_reject_nan", "MiniMcmcVerif.MH.mh_never_bad", "MiniMcmcVerif.MH.mh_good_state",
                        "MiniMcmcVerif.HMC.hmc_never_bad", "MiniMcmcVerif.HMC.hmc_row_mem", "MiniMcmcVerif.HMC.hmc_good_position",
                        "MiniMcmcVerif.NUTS.nuts_admissible_not_bad", "MiniMcmcVerif.NUTS.nuts_nan_joint",
                        "MiniMcmcVerif.XR.xr_satisfies_laws", "MiniMcmcVerif.XR.xr_satisfies_lawsE"],
        "rel32": 3e-3, "abs32": 1e-3, "rel64": 2e-5, "abs64": 2e-6,
        "timeout": 3000,
        "level_text": "Theorems for every carrier satisfying an explicit list of IEEE-754 special-value laws (NaN and -inf propagate through +/-, negation, nothing is < NaN or -inf, only -inf is <= -inf): an MH candidate of NaN/-inf density is "
                      "rejected for every u; an HMC row whose end-of-trajectory density is NaN/-inf stays at x for every draw except ln u = -inf (u = 0, excepted by the property), whatever the energies — divergent trajectories, NaN gradients "
                      "and overflowing step sizes included — and a row is never a blend; a NUTS point that passes the slice test has a density that is neither NaN nor -inf, and a NaN joint fails both the slice and the divergence test; at the level of the whole NUTS transition (arbitrary carrier: the structural lemmas and the loop invariant are re-proved from the notation classes "
                      "alone plus three facts about uniforms in [0,1) — u is never < 0/n, u < n/n, u is never < min(1, 0/n) for n >= 1 — which hold on ordered fields and on XR where 0/0 = NaN): a transition that terminates ends at "
                      "the start position or at a point of the leapfrog trajectory through it whose log-density is neither NaN nor -inf — hence, if the target assigns NaN / -inf to every position outside a set Good (finite "
                      "coordinates inside the support), at the start position or in Good (nuts_transition_good_position). XR (NaN | -inf | Q | +inf) "
                      "satisfies the laws. Tied to the code by running MH/HMC/NUTS on targets with boundaries and NaN regions, proposals leaving the support and step sizes up to 1e300, judging every visited state with the harness's own f64 "
                      "copy of the target, under a watchdog; HMC rows and NUTS transitions are additionally replayed against the models; the law table is evaluated on native f32/f64 on every run.",
        "level_note": "Trusted: hardware floats satisfy the listed laws (spot-checked natively each run). Absence of hangs/panics is observed (watchdog, catch_unwind), not proved; find_reasonable_epsilon need not terminate on improper flat "
                      "targets (outside the quantifier). 'Non-finite coordinates' follows under the hypothesis that the target maps a non-finite position to NaN/-inf density (true of the targets used).",
        "rule": "targets: half-line exponential x Gaussian (support x0 > 0, -inf outside), log-box (NaN outside (0,1)^d), quartic; starts one step inside the boundary half of the time; MH with proposal std log-uniform (0.05,50), 300 steps; "
                "HMC with eps in {0.01-0.5, 0.5-100, 1e3-1e15, 1e30/1e38/1e300}, L 1-10, 1-6 chains, 25 steps; NUTS with injected step sizes up to 1e300, 20 steps; f32 and f64; distinct by (sampler, type, target, dim, seed)",
        "trusted": ["IEEE-754 special-value laws hold for native f32/f64 (law table evaluated each run)"],
        "assumptions": ["acceptance draws equal to exactly 0 are excepted (property)"],
    },
    "C03": {
        "module": "MiniMcmcVerif.Props.C03Uniform",
        "obligations": [NU + n for n in ["doubling_inv", "transition_next_state", "transition_ends", "loop_result", "transition_statistic", "skeleton_indep_sel", "selection_uniform", "buildTree_succ", "bt_stop", "bt_go", "buildTree_counts", "buildTree_prime_mem", "buildTree_sel_suffix", "buildTree_prime_admissible",
                                         "buildTree_s_no_divergence", "buildTree_size", "buildTree_leaves_chain", "buildTree_alpha_range", "doubling_pos",
                                         "adopted_has_admissible", "loop_invariant"]],
        "rel32": 3e-3, "abs32": 1e-3, "rel64": 2e-5, "abs64": 2e-6,
        "timeout": 3000,
        "level_text": "Theorems (induction on the tree depth; every target, start point, step size, direction, slice level, stream of selection uniforms in [0,1); any ordered field with any exp): the points a subtree visits are the "
                      "leapfrog trajectory from its start in its direction (k-th point = k+1 steps; outer/inner ends = last/first), 2^j of them when complete; n_alpha is their number, n' the number of slice-admissible ones, alpha the sum of "
                      "min(1, exp(joint - joint0)); the candidate is one of them and is slice-admissible whenever n' > 0; s' = true implies no point diverged (joint > logu - 1000); alpha/n_alpha lies in [0,1]; after a doubling the position is the "
                      "old one or the candidate of a subtree with s' = true, adopted only if u < min(1, n'/n) (which forces n' > 0); loop invariant for the whole transition, assembled into transition_next_state: whenever a transition terminates, its final position is the "
                      "start position or the position of a phase point z with logu < joint(z) that is k >= 1 leapfrog steps of size +eps or -eps from the start point (both trajectory ends are leapfrog iterates of it), and the reported statistic alpha/n_alpha is the mean of min(1, exp(joint - joint0)) over the points of the subtree built by the last doubling, in [0,1] "
                      "(transition_statistic). Tied to nuts.rs by replaying every traced transition "
                      "(momentum, Exp(1) draw, every direction / selection / accept uniform from the hook) and direct build_tree calls at Float with closed-form gradients.",
        "level_note": "Uniform selection: the structure of a subtree is independent of the selection uniforms (skeleton_indep_sel) and, with the event u < r having probability r under a uniform draw, every admissible visited point of a "
                      "subtree with n' > 0 is its candidate with probability exactly 1/n', every inadmissible one with probability 0 (selection_uniform). Termination of the doubling loop is not a theorem (fuel). Comparisons that change under a rounding-sized perturbation of the inputs are classified indeterminate.",
        "rule": "chains on 2-D Gaussians, Rosenbrock2D, RosenbrockND, random SPD Gaussians (dim 1-8), Student-t, quartic; 10 (thorough 24) consecutive transitions after init_chain with warm-up 0-12, step size from the chain's own "
                "adaptation plus injected extremes (2-50: immediate U-turn/divergence; 1e-3..1e-2: deep trees); direct build_tree calls with depth 0-7 (thorough 10), both directions, step sizes incl. 1-30, slice levels at the divergence "
                "bound +-1 and above the start; f32 and f64; distinct by (type, target, dim/depth, seed)",
        "trusted": ["burn autodiff (gradients; cross-checked under C15)", "rounding not modelled (perturbation-based classification of knife-edge comparisons)"],
        "assumptions": ["uniform variates lie in [0,1)"],
    },
    "C04": {
        "module": "MiniMcmcVerif.Props.C04Eps",
        "obligations": [NU + n for n in ["halve_spec", "cross_spec", "findReasonableEps_form", "findReasonableEps_pos", "findReasonableEps_no_iter"]] + [DA + n for n in ["adaptStep_counters", "clampOrd_mem", "clampOrd_of_mem", "eps_in_range_step", "eps_in_range", "real_clamp_law", "eps_pos", "eps_frozen_step", "eps_frozen", "second_run_no_adapt", "hbar_step",
                                         "hbar_closed_form", "hbar_bounded", "log_eps_dual_avg", "initChain_spec"]],
        "rel32": 2e-3, "abs32": 1e-4, "rel64": 1e-6, "abs64": 1e-9,
        "timeout": 3000,
        "level_text": "Theorems, for every history of acceptance statistics. For EVERY carrier with a comparison (no order axioms, so NaN-like incomparable values are covered): the coded clamp e.max(lo).min(hi) lands in [lo,hi] "
                      "for every e as soon as lo<=lo, lo<=hi, hi<=hi, hence step size and averaged iterate stay in [min_positive, max] after every transition whatever exp/ln/sqrt/powf return (eps_in_range). Over R: positivity as a corollary; "
                      "once the transition number exceeds n_discard the step size equals the averaged iterate and neither it nor H_bar changes for the rest of the run; a later run whose warm-up length does not exceed the persistent "
                      "counter never adapts; during warm-up (m+t0)*H_bar grows by exactly delta - a per transition (closed form of Nesterov's averaged deficit) and stays within [delta-1, delta] for statistics in [0,1]; in warm-up, while "
                      "the exponentials stay inside [lo,hi], ln eps = mu - sqrt(m)/gamma * H_bar and ln eps_bar is the m^-kappa-weighted average; init_chain keeps m, H_bar, "
                      "eps_bar and sets mu = ln(10 eps). The first-use step size: whenever find_reasonable_epsilon returns (fuel model of its two while loops), over every ordered field, for every target, ln and "
                      "finiteness test, its result is (1/2)^(h+1) * 2^c or (1/2)^(h+1+c) with h / c the iteration counts of the halving / crossing loop, hence strictly positive. Tied to nuts.rs by stepping real chains through 1-3 consecutive runs, reading (m, eps, eps_bar, H_bar, mu) after every transition (hook accessor) and the transition's "
                      "alpha/n_alpha (hook trace), and replaying the model at Float; find_reasonable_epsilon is replayed as well; freezing / positivity are also checked on the implementation bit for bit.",
        "level_note": "Partial: the first-use step size from find_reasonable_epsilon is not clamped by the code; it is proved to be a positive power of two whenever the heuristic returns (finiteness then needs fewer than ~1000 iterations, observed on traces); 'realised acceptance close to the requested one' is statistical — not decided. "
                      "Finding F9 (fixed by aad1add): H_bar used to be updated after warm-up too, so a later run that resumed adaptation collapsed eps (exactly 0 in f32). The library has no tree-depth cap, so a tiny but positive "
                      "step size still makes a transition astronomically long; such histories are cut by the harness (counted).",
        "rule": "chains on 2-D Gaussians, random SPD Gaussians (dim 1-6), Student-t, Rosenbrock; delta uniform in (0.5,0.99); histories of 1-3 runs with warm-up 0, 1-5 or 5-60 (thorough 5-400) and 2-25 collected; f32 and f64; "
                "distinct by (type, target, c, d, run index, seed)",
        "trusted": ["libm exp/ln/sqrt/powf; rounding not modelled (tolerances 2e-3 f32 / 1e-6 f64)", "hook accessor verif_adapt_state returns the private fields"],
        "assumptions": [],
    },
    "C02": {
        "obligations": [HM + n for n in ["iter_eq", "leapBody_eq_verlet", "leapfrogCode_eq_verlet", "hmc_step_result", "hmc_step_ignores_carried", "hmc_rows_independent",
                                         "hmc_step_summand", "verlet_flip_verlet", "verlet_reversible", "hmc_step_L0", "hmc_step_two_valued", "hmc_step_length"]],
        "rel32": 3e-3, "abs32": 1e-3, "rel64": 2e-5, "abs64": 2e-6,
        "level_text": "Theorems (any scalar/vector types with + and scalar multiplication; any gradient field, step size, L incl. 0): the coded loop with its carried summand refines L velocity-Verlet steps and re-establishes "
                      "its invariant; each row ends at x or at verlet^[L](x,p).1, the latter exactly when ln u <= H(x,p) - H(x',p'); the step's result does not depend on the summands left by the previous step (no stale gradient after a rejection); "
                      "row i of the batch is the single-row update of row i's own data; over a module over a field the integrator is time-reversible for every L. Tied to hmc.rs by recording (hook) the momenta and uniforms each real step "
                      "consumed and replaying every row at Float with closed-form gradients; bit-level predicates (row = old or proposal, mask consistency, row independence under perturbation of the other rows, reversibility via verif_leapfrog) on the implementation.",
        "level_note": "Trusted: burn autodiff returns the gradient (cross-checked against closed forms under C15). Exact-arithmetic theorems; in the correspondence a row whose decision margin |dH - ln u| is below the resolvable precision, or whose "
                      "trajectory is numerically unstable (a one-ulp input perturbation moves the result), is counted indeterminate.",
        "rule": "targets: DiffableGaussian2D, Rosenbrock2D, RosenbrockND, d-dim Gaussians with random SPD precision, Student-t, quartic; 1-32 chains (30% single), dim 1-16, L in 0-64 (0-2 favoured), eps log-uniform in [1e-3, 10] "
                "(every 7th case eps in [0.5,10]: unstable), NdArray<f32> and NdArray<f64>, 4 (thorough 8) consecutive steps so that steps after rejections occur; up to 4 rows per step replayed; distinct by (type, target, L, eps, x0)",
        "trusted": ["burn autodiff", "floating-point rounding not modelled (margin / conditioning classification)"],
        "assumptions": [],
    },
    "C15": {
        "module": "MiniMcmcVerif.Props.C15Measure",
        "obligations": [DI + n for n in ["gauss2d_norm_minus_unnorm_const", "quad2_eq", "dgNew_inverse", "dgNew_normConst", "diffable_batch_rowwise", "dg_eq_gauss2d",
                                         "gaussian_hasGradient", "rosenbrock2d_hasGradient", "rosenbrockND_hasGradient", "rosenND_cons", "iso_logp_eq_normal", "iso_logp_symm", "exp_lnNormal",
                                         "exp_lnNormal_eq_gaussianPDF", "iso_density_integrates_to_one"]],
        "rel32": 5e-3, "abs32": 2e-3, "rel64": 3e-4, "abs64": 1e-4,
        "level_text": "Theorems over R about the closed forms the driver executes: Gaussian2D's normalised and unnormalised forms differ by the constant -ln(2pi) - 1/2 ln|Sigma|; the quadratic form is the Mahalanobis form; "
                      "DiffableGaussian2D::new computes the inverse and the normalising constant, its batched and single-point forms agree row by row and equal the normalised 2-D Gaussian; the closed-form gradients of the Gaussian "
                      "of Rosenbrock2D and of RosenbrockND (every dimension, every coordinate: t -> rosenND (x.set k t) has derivative rosenNDGradAt x k at x[k]) are the derivatives (HasDerivAt, coordinate-wise); IsotropicGaussian::logp(from,to) is the sum of one-dimensional normal log-densities with mean from_i and standard deviation std, symmetric, "
                      "and exp of each term is Mathlib's gaussianPDFReal, which integrates to 1. Tied to distributions.rs by evaluating every public method and the autodiff gradients HMC/NUTS use against the model at Float.",
        "level_note": "Trusted: burn autodiff returns the gradient of the tensor program (cross-checked numerically against the closed forms on every run); libm ln. "
                      "sample() is checked bit-exactly against from + std*z for the reference normal stream, or statistically if drawn differently.",
        "rule": "random means, SPD covariances with condition number up to 1e4, points, batches of 1-64, std log-uniform in (1e-3,1e3), dimension 1-32 (RosenbrockND 2-32), f32 and f64 scalars and backends; five families "
                "(Gaussian2D, DiffableGaussian2D batched/single/gradients, IsotropicGaussian logp both ways + unnorm + sample + set_seed, Rosenbrock2D, RosenbrockND); distinct by (family, type, size, first value)",
        "trusted": ["burn autodiff computes the gradient of the tensor expression", "f32-level relative accuracy (5e-3 / 3e-4) is what the tensor-based targets deliver: from_floats stores parameters as f32"],
        "assumptions": ["covariances are symmetric positive definite (det > 0)"],
    },
    "C10": {
        "module": "MiniMcmcVerif.Props.C10Tight",
        "obligations": [RP + n for n in ["full_init", "full_iter", "reporter_terminates_tight", "reporter_terminates_from_init", "progBody_fst", "progress_rows_eq_run", "worker_messages", "workers_send_final", "sweep_spec", "inv_init", "inv_iter",
                                         "retired_init", "retired_iter", "reporter_exit_sound", "iter_all_final", "reporter_terminates"]],
        "timeout": 3000,
        "level_text": "Theorems: the progress worker returns exactly the rows and end state of run_chain for every clock behaviour and whatever happens to its messages; its last message carries n = total and total is sent once; "
                      "the reporter's bookkeeping satisfies n_finished + |active| + waiting = N after every iteration for every arrival history (a chain is counted once), exit implies every chain's final message was seen, and once "
                      "all final messages have arrived the loop breaks within ceil((N - n_finished)/5) iterations (ceil(N/5) from the start), for every number of chains (also > 5 bars) and every completion order. Tied to core.rs/nuts.rs by replaying the model on "
                      "the per-iteration trace of the real reporter threads (hook) under scripted completion orders, and by comparing run_progress with run for all samplers/precisions under a watchdog.",
        "level_note": "Liveness is proved for the model under the fairness premise 'every worker's final message eventually arrives' (mpsc is FIFO and lossless while the receiver lives: trusted); real thread scheduling, "
                      "indicatif and the OS are observed (watchdog), not modelled.",
        "rule": "reporter traces for chain counts {1,2,5,6,7,11,16,33,48} (thorough: 1..48) x completion profiles (instant / index order / reverse order / random) with (c>=4, d) random, plus the NUTS copy; run_progress vs run "
                "for MH (library and user proposal), Gibbs, HMC, NUTS; HMC/NUTS x {f32 on NdArray<f32>, f64 on NdArray<f64>} with diagnostics recomputed from the returned draws; run_chain_progress with the receiver "
                "dropped before / during / after; distinct by (chains, c, d, profile)",
        "trusted": ["std::sync::mpsc delivers per-channel FIFO without loss while the receiver exists; send never blocks", "OS thread scheduling, indicatif"],
        "assumptions": ["n_collect >= 4 (the property's domain)"],
    },
    "C07": {
        "obligations": [SC + n for n in ["stepAt_comm", "exec_perm", "exec_length", "exec_chain", "run_deterministic"]]
                       + [SD + n for n in ["xs_injective", "mul_M1_injective", "mul_M2_injective", "mix_injective", "seedFromU64_injective",
                                           "ofNat_add_injective", "chain_seed_injective", "unif53_lt", "unif24_lt", "unif53_unit", "unif24_unit", "unif53_surj"]]
                       + ["MiniMcmcVerif.Init.init_det_eq_42", "MiniMcmcVerif.Init.init_with_seed_prefix"],
        "disagreement_is_failing_input": False,
        "correspondence_name": "seeding correspondence: per-chain generator words of the real samplers vs. the Lean model of seed_from_u64 / xoshiro256++ / the seed derivations",
        "timeout": 3000,
        "level_text": "Theorems: in the schedule model (every chain owns its generator; a step reads and writes its own chain only) any two schedules that are permutations of each other give identical "
                      "chain states — chain i ends at step^[count i] of its start state, for any number of chains and interleaving; splitmix64's output function and hence seed_from_u64 are injective on u64 "
                      "(no bv_decide), and wrapping seed+i(+1) is injective in the chain index, so different seeds / chains get different generator states, incl. u64::MAX; the f64 / f32 uniform variate "
                      "derived from any generator word (top 53 / 24 bits) lies in [0, 1-2^-53] / [0, 1-2^-24] and every 53-bit numerator is reachable by a crafted word. Tied to the code by (a) exact "
                      "comparison of every chain's generator output, and of the random::<f64>() / random::<f32>() variates drawn from it, with the model of rand's seeding for all four samplers, (b) running every sampler twice, under rayon pools of 1/2/5/16 threads, next to "
                      "concurrently running samplers, and through run_progress, comparing outputs bit for bit.",
        "level_note": "The theorem covers all interleavings of the model; its premise (no mutable state shared between chains/samplers) is what the runtime runs probe — the real rayon/OS schedules explored are the "
                      "handful these runs produce. A mismatch of the seeding model alone is reported as no-failing-input-found (the property does not fix the derivation).",
        "rule": "(a) seeds incl. 0, 1, 42, u64::MAX-{0,1,3}, 2^63, 2^63-1 and random, 1-8 chains, MH/Gibbs/NUTS/HMC; (b) 5 sampler kinds (MH with the library proposal and with a user-defined seedable proposal, "
                "Gibbs with a deterministic conditional, HMC, NUTS) x repeat / pool sizes 1,2,5,16 / three concurrent noise samplers / different seed / progress mode; distinct by (kind, seed, chains, c, d)",
        "trusted": ["rayon, std threads and mpsc behave as documented; OS entropy differs between calls", "rand 0.9 SmallRng = xoshiro256++ seeded by splitmix64 (known-answer checked in Lean for seed 0 and against the real generator on every run)"],
        "assumptions": ["Gibbs: the user's conditional is deterministic given its state"],
    },
    "C08": {
        "obligations": [SD + n for n in ["proposalSeed_eq", "mh_chain_streams_distinct", "mh_accept_ne_proposal", "nuts_chain_seeds_distinct", "seedFromU64_injective",
                                         "rotl45_injective", "xsl_injective", "next_state_injective", "iter_injective", "nuts_chains_never_merge", "mh_streams_never_merge"]]
                       + ["MiniMcmcVerif.Init.hmc_rows_disjoint_segments"],
        "disagreement_is_failing_input": False,
        "correspondence_name": "seeding correspondence: per-chain acceptance/proposal generator words vs. the Lean model",
        "level_text": "Theorems: after MetropolisHastings::seed(s), for up to 2^63 chains and every s the 2n generators (acceptance s+i+1, proposal s+i+1+2^63) are seeded pairwise differently — no two chains "
                      "share a proposal or acceptance stream and within a chain the two never coincide; NUTS chain seeds s+i+1 are pairwise distinct; the xoshiro256++ state transition is injective (rotl 45, x^(x<<17) and the xor network are inverted explicitly), so generators seeded differently are in different states after any number of draws — streams never merge; seed_from_u64 is injective so distinct seeds are distinct "
                      "generator states; HMC's batch rows are disjoint segments of one stream. Tied to the code by comparing the real generators' output words with the model and, on the implementation alone, by "
                      "pairwise distinctness of generator states, next proposals from equal states and trajectories of 2-64 chains started from one common state, seeded and unseeded.",
        "level_note": "Assumption: unseeded construction relies on OS entropy (from_os_rng) giving distinct seeds. Gibbs is excluded by the property. A mismatch of the seeding model alone is reported as no-failing-input-found.",
        "rule": "2-64 chains (every fifth case 64) started from one common state, seeded (60%) and unseeded, seeds incl. the wrap-around ones; MH with IsotropicGaussian and with a user-defined seedable proposal, NUTS, HMC; "
                "distinct by (kind, seeded?, chains, seed)",
        "trusted": ["OS entropy yields distinct seeds for unseeded construction"],
        "assumptions": [],
    },
    "C11": {
        "module": "MiniMcmcVerif.Props.C11Median",
        "obligations": [ST + n for n in ["desc_counts", "basic_median_spec", "basic_var_nonneg", "sumSqDev_eq", "sumSqDev_shift_head", "rhatSq_shift", "rhat_unbounded", "splitcat_spec", "varplus_eq", "rhatSq_eq", "Bof_nonneg", "rhatSq_ge", "mean_affine", "withinVar_affine", "rhat_affine_inv",
                                         "rhat_chain_perm_inv", "rhat_param_local", "sortDesc_perm", "sortDesc_sorted", "basic_minmax_spec"]],
        "level_extra": "basic_stats: the reported median is the upper median of the inputs (at least floor(len/2)+1 inputs are >= it and at least len-floor(len/2) are <= it, ties and input order irrelevant), min/max bound every input, the variance (ddof 1) is non-negative.",
        "rel32": 2e-3, "abs32": 1e-6,
        "level_text": "Theorems (any ordered field, any number/length of chains): splitcat yields 2c half-chains of length n/2 (first/last n/2 draws, odd middle dropped); the value computed is var+/W with "
                      "var+ = (n-1)/n W + B/n, equal to (n-1)/n + B/(nW), hence >= (n-1)/n; invariance under x -> a x + b (a != 0) and under permutation of chains; locality in the parameter; "
                      "basic_stats' min/max are the true extremes and median the floor(len/2)-th order statistic of a descending permutation. Tied to stats.rs by running split_rhat_mean_ess / basic_stats / RunStats "
                      "on generated arrays and comparing with the same polymorphic model at Float (reference) with a Float32 mirror deciding conditioning.",
        "level_note": "'Increases without bound': rhat_unbounded — moving one half-chain by t leaves W unchanged and adds 2t(mean_0 - mean) + t^2(1-1/c) to the between-chain sum of squares, so rhat^2 exceeds any bound "
                      "(also checked on the implementation by the C11:not-growing predicate at separations 0,10,100,1000). Rounding not modelled (tolerance 2e-3); NaN-robustness of the summary is observed (catch_unwind), not proved.",
        "rule": "arrays with 1-16 chains, 4-5000 draws (odd and even; 4-8, the 198-205 and 255-257 neighbourhoods favoured), 1-8 parameters of kinds iid/AR(1)/trend/bimodal/separated/sticky/constant, "
                "10% with location 1e4 x scale (mostly indeterminate); one model case per (array, parameter); exact metamorphic predicates (x 2^k scaling, other-parameter independence), lower bound, "
                "growth with separation; basic_stats on 1-40 finite values; summaries with NaN / 20-40 parameters incl. constant ones must not panic; distinct by (chains, draws, kind, first value)",
        "trusted": ["floating-point rounding is not modelled (f32 results vs exact-arithmetic model at relative tolerance 2e-3 on inputs the f32 mirror handles stably)", "rayon / ndarray slicing semantics"],
        "assumptions": [],
    },
    "C12": {
        "module": "MiniMcmcVerif.Props.C12DFT",
        "obligations": [ST + n for n in ["char_orth", "conj_zeta", "idft_dft_mul_conj", "autocov_fft_eq_autocovCirc", "centre_affine", "autocovBF_affine", "essWith_affine", "splitRhatSqEss_affine", "rhoOf_perm", "essWith_chain_perm", "lagsum_reverse", "autocovBF_reverse", "essWith_time_reversal", "npadGo_spec", "npad_spec", "sum_range_zero_tail", "zipWith_drop_eq", "circ_eq_linear", "autocovCirc_eq_autocovBF", "autocov_eq_autocovBF",
                                         "geyerSeq_eq", "geyer_eq_sum", "geyerSeq_pos_antitone", "tau_eq", "ess_path_independent"]],
        "rel32": 6e-3, "abs32": 4e-4,
        "level_text": "Theorems: the FFT padding length is a power of two >= 2n-1; for such a length the circular correlation of the zero-padded centred sequence equals the linear one at every lag < n, so "
                      "autocov_fft and autocov_bf are the same function — the DFT correlation identity is proved too (over C with the primitive root exp(2 pi i/N): idft(X conj X)[t] = N * sum_a x_a x_((a+t) mod N) for real data, by orthogonality of "
                      "the characters; hence the coded pipeline centre / zero-pad / fft / multiply by the conjugate / ifft / real part / divide by n_padded and n equals the circular-correlation model lag by lag) — and the 100-row switch cannot change ESS; the accumulated sequence is the running minimum of the "
                      "maximal positive prefix of the pair sums (Geyer), positive and non-increasing; tau = -1 + 2 * its sum and ESS = M*N/tau. Tied to stats.rs by comparing both private autocovariance paths "
                      "(hooks) and split_rhat_mean_ess across the switch, on original, time-reversed and chain-permuted data, with the model at Float; cases where the f32 mirror truncates elsewhere are indeterminate.",
        "level_note": "Trusted: rustfft's process() computes the un-normalised DFT sums (the correlation identity and the zero-padding argument are both proved). Affine invariance of (R-hat^2, ESS) through the split is a theorem (splitRhatSqEss_affine); tau and ESS are invariant under permutation of the half-chains (essWith_chain_perm) and under time reversal of every half-chain (autocovBF_reverse, essWith_time_reversal), given the same W and var+; "
                      "both are also exercised through model cases on transformed data; 'about N for iid, N(1-phi)/(1+phi) for AR(1)' is statistical: the measured ratio is reported in the evidence notes, not decided.",
        "rule": "columns of length 2-5000 (powers of two +-1 favoured) for the two autocovariance paths; arrays with 1-16 chains x 4-5000 draws x 1-3 parameters for ESS incl. half-lengths 99-102 around the "
                "switch; a third time-reversed, a third chain-permuted; AR(1) coefficients in (-0.9, 0.99); distinct by (chains, draws, kind, first value)",
        "trusted": ["rustfft computes the discrete Fourier transform", "floating-point rounding is not modelled (relative tolerance 6e-3, autocovariances compared after division by lag 0 with absolute tolerance 4e-4)"],
        "assumptions": [],
    },
    "C13": {
        "module": "MiniMcmcVerif.Props.C13Ess",
        "obligations": [ST + n for n in ["collectRhatSq_eq_collectWV", "essFromChainStats_path_independent", "essFromChainStats_eq", "feed_inv", "tracker_moments", "tracker_mean", "sum_sq_sub", "tracker_sm2", "collect_rhat_eq_classical",
                                         "multi_rhat_eq_classical", "collect_rhat_eq_multi", "ema_mem", "p_accept_mem", "p_accept_ema", "ema_mono", "p_accept_mono", "ema_strict"]],
        "rel32": 6e-3, "abs32": 1e-6,
        "level_text": "Theorems (any field of characteristic 0, induction over the update list, every history): the tracker's count, mean and mean of squares are those of exactly the fed states; ess_from_chainstats is M*N/tau of the "
                      "unsplit draws with W and var+ taken from the trackers, whichever autocovariance path runs; "
                      "for n>=2 sm2 is the unbiased variance; collect_rhat from m>=1 trackers of equal count equals the classical var+/W and equals MultiChainTracker::rhat, for any number of parameters; "
                      "the acceptance estimate is the closed-form EMA of the indicators and stays in [0,1]. Tied to stats.rs by feeding identical update sequences to the real trackers and to the "
                      "same polymorphic model at Float32/Float; ill-conditioned inputs (f32 mirror and f64 reference disagree) are counted indeterminate.",
        "level_note": "Trusted: rounding is not modelled (exact-arithmetic theorems, f32 tolerance 2e-3 in the correspondence); ndarray mean_axis/stack semantics; ChainTracker's first-coordinate start value of p_accept is mirrored in the driver glue.",
        "rule": "update sequences of length 2-5000 (boundary lengths and the 100-row neighbourhood favoured; quick tier up to 1500), 2-16 chains, 1-8 parameters, element types f32/f64/i32/usize, "
                "iid/AR(1)/sticky/trending/separated series with 30% repeated rows (so that 'state equals previous state' occurs); distinct by (type, chains, draws, parameters)",
        "trusted": ["floating-point rounding is not modelled; f32 results are compared with the exact-arithmetic model at relative tolerance 2e-3 on inputs the f32 mirror of the model handles stably"],
        "assumptions": [],
    },
    "C17": {
        "obligations": [IO + n for n in ["length_flatMap_const", "getElem_flatMap_const", "offset_in_bounds", "offset_injective", "offset_surjective", "rows_count", "rows_spec",
                                         "rows_obs_major_count", "rows_obs_major_spec", "header_spec", "header_obs_major_spec"]],
        "level_text": "Theorems (any C, N, K incl. zero-sized axes, any element type): the row/offset model emits exactly C*N rows, row (c,o) sits at position c*N+o with labels (c,o), its dim_d entry is "
                      "element (c,o,d) of the row-major buffer, no slice leaves the buffer, the offset map is injective and onto the buffer (each element exported exactly once), header/schema as documented; twin statement for the "
                      "observation-major Parquet tensor writer. Tied to src/io by calling every real writer, reading the files back with the csv / arrow-ipc / parquet readers and requiring the model "
                      "to reproduce all labels and values exactly (f32->f64 widening recomputed in the model, NaN canonicalised).",
        "level_note": "Trusted: the byte encoders/decoders of csv, arrow-ipc and parquet, and the readers used to read files back; ndarray's axis_iter order (modelled as nested lists).",
        "rule": "shapes 0-6 x 0-40 x 0-8 (15% with a zero-sized axis, 30% tiny), element types f64/f32/i32/usize where the writer accepts them, 0/5/30% special values (subnormals, extremes, -0, NaN, +-inf, "
                "values needing 17 digits); 12 writer/type combinations per shape incl. both tensor entry points; unwritable path must give Err; distinct by (writer, shape, element type)",
        "trusted": ["csv / arrow-ipc / parquet encoders and readers", "ndarray axis_iter order"],
        "assumptions": ["zero-sized burn tensors are exercised only if burn can construct them"],
    },
    "C18": {
        "obligations": [INI + n for n in ["init_length", "init_row", "init_row_length", "init_prefix", "init_det_eq_42", "init_with_seed_prefix",
                                          "init_flatten", "init_entry", "init_cell_injective", "init_depends_on_prefix"]],
        "level_text": "Theorems (induction on n, any element type, any stream): the layout model returns exactly n vectors of length d, row i holds variates i*d..i*d+d-1 (row-major consumption), "
                      "the first n rows of a request for n+k rows equal the request for n rows, init_det = init_with_seed 42; the concatenated rows are exactly the first n*d variates of the stream (each used once, in order: entry (i,j) is variate i*d+j, distinct cells read distinct variates), so entries inherit independence and the marginal law of the stream, and the result depends on the stream only through that prefix; seeded variants are functions of their arguments by construction. "
                      "Tied to core.rs by taking the variate stream from the largest real request and requiring the model to reproduce every smaller real request bit for bit; purity, seed-sensitivity, "
                      "finiteness, freshness of the OS-seeded init are predicates on the implementation.",
        "level_note": "Trusted: 'independent standard-normal' is a property of rand_distr::StandardNormal over SmallRng — supported by bit-equality with the reference stream when the code draws that way, "
                      "otherwise by a deterministic (fixed-seed) moment/KS/autocorrelation test; not a theorem.",
        "rule": "(d, seed, n_big<=256) with d in 0..256 (boundary 0/1/2 favoured), seeds incl. 0, 1, 42, u64::MAX; four requests n<=n_big per stream incl. n=0/1/2; init_det vs seed 42; f32 and f64; "
                "distinct by (type, n, d, seed)",
        "trusted": ["rand_distr::StandardNormal yields independent standard-normal variates"],
        "assumptions": [],
    },
    "C01": {
        "module": "MiniMcmcVerif.Props.C01Measure",
        "obligations": [MH + n for n in ["accept_probability", "mh_step_rule", "mh_step_accept", "mh_step_reject", "mh_step_mem", "accepts_iff",
                                         "mh_reject_bad", "mh_reject_nan", "mh_reject_nan_lnu", "mh_never_bad", "mh_good_state",
                                         "accept_region", "ratio_is_exp_logRatio", "flow_eq_min",
                                         "mh_detailed_balance", "trans_row_sum", "trans_balance", "mh_stationary"]]
                       + ["MiniMcmcVerif.XR.xr_satisfies_laws"],
        "level_text": "Theorems: for every Target/Proposal (arbitrary functions), state type, scalar and every ln u, the step model ends at y iff ln u < [logp y + q(x|y)] - [logp x + q(y|x)] and "
                      "otherwise returns x itself; for every carrier with the listed IEEE laws a NaN/-inf candidate density or a NaN anywhere in the ratio is rejected for every u (u = 0 included); over R the acceptance "
                      "set of u is (0, min 1 (exp r)) and its Lebesgue measure is min 1 (exp r); on every finite state space with any non-negative (asymmetric, zeros allowed) proposal matrix the kernel satisfies detailed balance and the target is "
                      "stationary. Tied to metropolis_hastings.rs by table-driven Target/Proposal with injected u and exact comparison of the decision and of the resulting state bits with the model at Float/Float32.",
        "level_note": "Trusted: hardware floats satisfy IEEELaws (law table spot-checked natively under C14); Rust's ln and Lean's Float.log are the same libm function; rand's StandardUniform bit layout (self-tested).",
        "rule": "2-4 abstract states with log-density and proposal tables drawn from a palette (finite random, equal values, +-inf, NaN, +-0, subnormal, huge), asymmetric 85% of the time; scripted candidates; "
                "1-4 consecutive steps; u in {0, 1 grid step, 1-ulp, 1/2, the grid neighbours of exp(ratio), random}; state types i32/f64/f32, scalars f64/f32; distinct by (scalar, 4 table entries, u)",
        "trusted": ["IEEE special-value laws hold for hardware floats", "Rust f64::ln/f32::ln and Lean Float.log/Float32.log are glibc log/logf"],
        "assumptions": ["the Proposal's own randomness is outside this property (candidates are scripted)"],
    },
    "C16": {
        "module": "MiniMcmcVerif.Props.C16Measure",
        "obligations": [CAT + n for n in ["exists_region", "preimage_eq", "sample_probability", "sample_in_range", "sample_pos_prob", "scan_pos", "normalize_sum_one", "normalize_nonneg",
                                          "scan_region", "sample_region", "region_length", "lastPos_pos", "lastPos_none",
                                          "normalize_getElem", "normalize_zero_iff", "normalize_scale"]],
        "level_extra": "As a statement about Lebesgue measure (sample_probability): for non-negative probabilities summing to one the set of variates r in [0,1) that the scan maps to category j has measure exactly p_j.",
        "level_text": "Theorems: for EVERY variate r that is not below 0 (0 and 1-ulp included) and every weight list whose entries are 0 or positive with one positive, "
                      "the scan model returns an in-range index of positive probability — proved over an arbitrary carrier using only 'r < x+0 -> r < x', so it holds for IEEE floats "
                      "including absorption; in exact arithmetic the variates mapped to category j are exactly [c_{j-1}, c_j) of length p_j; normalised probabilities sum to 1. "
                      "Tied to distributions.rs by injecting exact variates (crafted xoshiro state) into the real sample() and comparing index and probabilities bit-for-bit with the model at Float/Float32.",
        "level_note": "Trusted: IEEE addition satisfies 'r < x + 0 -> r < x'; rand's StandardUniform maps the injected word to (w>>11)*2^-53 / (w>>40)*2^-24 (self-tested by the harness on every run); hook Categorical::verif_with_rng only replaces the generator.",
        "rule": "weight vectors of length 1-64 (a third of length <= 4) in five styles incl. zeros at the ends and wide dynamic range, f32 and f64; variates: 0, 1 grid step, 1-ulp, 1/2, "
                "every cumulative sum floored to the variate grid and its two neighbours, 2-6 random; distinct by (type, weights, variate)",
        "trusted": ["IEEE: r < x + 0 implies r < x", "rand 0.9 StandardUniform bit layout (self-tested each run)"],
        "assumptions": ["weights are non-negative with at least one positive (the property's domain)"],
    },
    "C05": {
        "module": "MiniMcmcVerif.Props.C05Stale",
        "obligations": [G + n for n in ["stale_not_invariant", "margin_update", "agree_iff", "gibbs_coord_invariant", "invariant_comp", "gibbs_sweep_invariant", "sweep_inv", "gibbs_call_indices", "gibbs_call_log", "gibbs_result_length",
                                        "substep_changes_only_i", "substep_writes_answer", "gibbs_result"]],
        "level_text": "Theorems (induction over the sweep index; any stateful conditional, state type, dimension): the call log of one Gibbs step has "
                      "length d, its j-th entry is (j, new[0..j] ++ old[j..]) — every coordinate once, in order, each call seeing all earlier results — "
                      "sub-step i writes coordinate i only, the dimension is preserved. Tied to gibbs.rs by driving the real step()/run() with a recording, "
                      "scripted Conditional and comparing call log, final state and call count exactly with the model.",
        "level_note": "Trusted: the recording Conditional observes exactly the arguments the library passes. The consequence 'the joint distribution is left invariant' is proved for finite alphabets "
                      "(gibbs_coord_invariant, gibbs_sweep_invariant: any joint weight on Fin d -> iota, any sweep order) for updates that condition on the state they are handed; that the code hands over the freshest state is gibbs_call_log + the correspondence.",
        "rule": "recording Conditional returning scripted values under GibbsMarkovChain::step (1-4 consecutive steps) and GibbsSampler::run (1-8 chains, with burn-in); "
                "state types i64/f64/usize/f32, dimension 1-64 (a quarter of the cases d<=3); distinct by (type, d, nsteps, entry point, n_chains)",
        "trusted": ["the recording Conditional sees exactly what the library passes to Conditional::sample"],
        "assumptions": [],
    },
    "C09": {
        "obligations": [R + n for n in [
            "runChain_spec", "runChain_length", "runChain_last", "run_continuation", "run_second_call",
            "hmcRun_spec", "hmcRun_eq_runChain", "permute10_spec", "nutsRun_spec", "run_chain_order",
            "runAll_shape", "nuts_runner_eq_chains", "iter_eq"]],
        "level_text": "Theorems (induction over the loop index, any c, d, chain, start state): run_chain/HMC::run/NUTSChain::run loop models return exactly c rows, "
                      "row k = state after d+k+1 (NUTS d+k) transitions, exactly c+d (c+d-1) transitions, continuation, chain order. The models are tied to "
                      "the code by running them on traces obtained from hand-stepped clones of the real samplers and comparing every row exactly.",
        "level_note": "Trusted: order preservation of rayon collect / stack (modelled as map); Clone captures the whole chain state; hook verif_init_chain calls the private init_chain.",
        "rule": "histories of 1-4 consecutive run(n_collect,n_discard) calls (boundary values 0/1/2 favoured) on a user-defined counting chain under "
                "ChainRunner::run (1-32 chains, dim 1-16) and on real MH, Gibbs, HMC and NUTS samplers; a clone is stepped by hand to get the state "
                "trace, the Lean run-loop model is executed on a pointer into that trace and must reproduce every returned row and the number of "
                "transitions made; a case is non-trivial/distinct by (loop kind, history of (c,d) pairs)",
        "trusted": ["rayon par_iter_mut().map().collect() and ndarray/burn stack preserve order (modelled as List.map)",
                    "manual stepping of a clone is the reference for 'state after k transitions' (needs the sampler to be deterministic given its generator: C07)"],
        "assumptions": ["chain state (incl. its generators) is captured by Clone; HMC sub-check is skipped (counted) if HMC is not deterministic"],
    },
}

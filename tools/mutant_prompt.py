#!/usr/bin/env python3
"""usage: tools/mutant_prompt.py <PROP> <first-index> [n]  — creates scratch worktree /tmp/mut/<PROP> of /repo HEAD and writes the
sub-agent prompt (property text only, nothing from /verif) to /tmp/mut/prompts/<PROP>.txt"""
import json, sys, os, subprocess
pid, first = sys.argv[1], int(sys.argv[2])
n = int(sys.argv[3]) if len(sys.argv) > 3 else 3
props = {json.loads(l)['id']: json.loads(l) for l in open('/verif/properties.jsonl')}
p = props[pid]
wt = f'/tmp/mut/{pid}'
os.makedirs('/tmp/mut/prompts', exist_ok=True)
if not os.path.exists(wt):
    subprocess.run(['git', '-C', '/repo', 'worktree', 'add', '-f', wt, 'HEAD'], check=True, capture_output=True)
os.makedirs(wt + '/out', exist_ok=True)
io = pid == 'C17'
featflag = '--features csv,arrow,parquet' if io else ''
extra = {
 'C03': ' Note: the tests test_chain_2/3, test_run_1 and test_build_tree pin outputs at fixed seeds, so the order and number of random draws on their paths must not change.',
 'C04': ' Note: the tests test_chain_2/3, test_run_1 pin NUTS outputs at fixed seeds after 3-5 warm-up steps.',
 'C06': ' Aim for subtle distributional bias (a few percent in a second moment, a slight correlation between streams, a bias appearing only in some dimension / precision / configuration), not gross breakage.',
 'C17': ' The I/O code is in src/io/ behind the cargo features csv, arrow, parquet; also make sure the plain `cargo test --offline` (no features) still passes.',
}.get(pid, '')
T = f'''You are testing how well a semantic property of the Rust library mini-mcmc (a compact MCMC library: Metropolis-Hastings, Gibbs, HMC, NUTS over burn tensors, diagnostics, CSV/Arrow/Parquet export) is protected by its existing test suite.

Your scratch git worktree of the library is {wt} (detached HEAD). Work ONLY inside {wt}. Never read or touch /repo or /verif (they are out of bounds), and do not look at any other directory under /tmp/mut.

THE PROPERTY ({pid}: {p['title']})
Statement: {p['statement']}
Quantified over: {p['quantifier']['text']}
Why the existing tests cannot settle it: {p['why_tests_cant']}

YOUR TASK
Produce up to {n} DIFFERENT, realistic changes to the library source (under src/) — the kind of slip or "optimisation" a maintainer could plausibly commit — each of which
  (a) still compiles,
  (b) still passes the whole existing test suite:  cd {wt} && CARGO_NET_OFFLINE=true CARGO_TARGET_DIR={wt}/target cargo test --offline {featflag}
  (c) BREAKS the property above, and
  (d) needs something SPECIFIC to manifest — an unusual input, a particular multi-step sequence of calls, a special value, a particular size/shape/configuration, a particular interleaving or completion order, or two cooperating edits at different sites that each look harmless alone. Do NOT propose changes that ordinary use would expose at once (e.g. breaking the main path for all inputs). The subtler and more input-specific, the better: think of boundary sizes, rarely taken branches, wrap-around, special floating-point values, second and later calls on the same object, unusual type parameters (f32 vs f64), large counts.
Prefer changes at different sites / mechanisms from each other. Do not touch the tests, Cargo.toml features, or anything guarded by `#[cfg(feature = "verif-hooks")]` (ignore that instrumentation; leave it intact). Changes must be to library behaviour, not comments.{extra}

For each change i = {first}.. write three files in {wt}/out/ :
  m<i>.diff        — `git diff -- src` of the change alone (must apply with `git apply` on a clean checkout)
  m<i>_demo.rs     — a self-contained Rust integration test file (it will be copied to tests/zz_demo.rs) using only the crate's public API (and its existing dependencies / dev-dependencies) that FAILS with the change applied and PASSES on the unchanged library. Make it deterministic (fixed seeds) and fast (< 60 s).
  m<i>.meta.json   — JSON object with string fields: "property" ("{pid}"), "summary" (what was changed), "needs" (what is needed for it to manifest), "why_tests_pass" (why the existing suite does not notice), "features" (cargo features the demo needs, "" if none{'; here most likely "csv,arrow,parquet"' if io else ''}), and "ran" (list of the commands you ran with their outcomes).

You must actually verify all of (a)-(c) by running cargo in the worktree, with the change applied (suite passes, demo fails) and reverted (demo passes). Always use the private target dir CARGO_TARGET_DIR={wt}/target and --offline (there is no network). A cold build takes a few minutes. If a candidate change makes an existing test fail, discard or refine it. When finished, leave the worktree clean (`git checkout -- .`, remove tests/zz_demo.rs) with only the out/ directory added, and report briefly what you produced (one paragraph per change).
'''
open(f'/tmp/mut/prompts/{pid}.txt', 'w').write(T)
print(f'/tmp/mut/prompts/{pid}.txt')

#!/bin/bash
# Development aid (not a registered check): which lines of /repo/src does the correspondence harness execute?
# Builds the harness with source-based coverage (nightly toolchain: llvm-cov/llvm-profdata live there), runs every
# property's quick tier, and writes work/cov/uncovered.txt (uncovered lines per file, #[cfg(test)] modules excluded)
# and work/cov/report.txt. Used to find blind spots of the generators before a seeded change does.
set -e
cd /verif
export CARGO_NET_OFFLINE=true
T=/verif/.cache/target-cov
BIN=$(ls -d ~/.rustup/toolchains/nightly-x86_64-unknown-linux-gnu/lib/rustlib/*/bin | head -1)
mkdir -p work/cov
(cd harness && LLVM_PROFILE_FILE=/verif/work/cov/build-%p-%m.profraw CARGO_TARGET_DIR=$T cargo +nightly build --offline -Zprofile-rustflags \
   --config 'profile.dev.package.mini-mcmc.rustflags=["-Cinstrument-coverage"]' --config 'profile.dev.rustflags=["-Cinstrument-coverage"]' 2>&1 | tail -2)
rm -f work/cov/*.profraw
for p in ${@:-C01 C02 C03 C04 C05 C06 C07 C08 C09 C10 C11 C12 C13 C14 C15 C16 C17 C18}; do
  mkdir -p work/cov/$p
  LLVM_PROFILE_FILE=/verif/work/cov/$p-%p-%m.profraw VERIF_TIER=quick $T/debug/harness $p /verif/work/cov/$p >/dev/null 2>&1 || echo "harness $p exit $?"
done
$BIN/llvm-profdata merge -sparse work/cov/*.profraw -o work/cov/all.profdata
$BIN/llvm-cov report $T/debug/harness -instr-profile=work/cov/all.profdata --sources /repo/src > work/cov/report.txt 2>/dev/null || true
$BIN/llvm-cov show $T/debug/harness -instr-profile=work/cov/all.profdata --sources /repo/src --show-line-counts-or-regions=false > work/cov/show.txt 2>/dev/null || true
python3 - <<'PY'
import re
cur=None; out=[]; intests=False
for line in open('/verif/work/cov/show.txt', errors='replace'):
    m=re.match(r'^(/repo/src/\S+):$', line.strip())
    if m: cur=m.group(1); intests=False; continue
    m=re.match(r'^\s*(\d+)\|\s*([0-9.kMGE]*)\|(.*)$', line)
    if not m or cur is None: continue
    ln, cnt, src = int(m.group(1)), m.group(2), m.group(3)
    if '#[cfg(test)]' in src: intests=True
    if intests: continue
    if cnt == '0': out.append(f'{cur}:{ln}: {src.rstrip()[:140]}')
open('/verif/work/cov/uncovered.txt','w').write('\n'.join(out)+'\n')
print(len(out), 'uncovered executable lines outside test modules -> work/cov/uncovered.txt')
PY
tail -20 work/cov/report.txt
rm -f /repo/*.profraw /verif/harness/*.profraw /verif/*.profraw 2>/dev/null || true

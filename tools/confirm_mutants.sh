#!/bin/bash
# usage: tools/confirm_mutants.sh <ID> [<ID>...]
# For every /tmp/mut/<ID>/out/m<i>.diff: confirm in the scratch worktree that (1) the existing suite passes with the
# change, (2) the demo fails with it, (3) the demo passes without it; then keep it as /verif/seeded/<ID>-m<i>/.
export CARGO_NET_OFFLINE=true CARGO_TARGET_DIR=/tmp/confirm-target
for ID in "$@"; do
  W=/tmp/mut/$ID
  for d in $W/out/m*.diff; do
    i=$(basename $d .diff)
    dest=/verif/seeded/$ID-$i
    [ -f $dest/meta.json ] && { echo "$ID $i already kept"; continue; }
    cd $W || continue
    git checkout -q -- . ; rm -f tests/zz_demo.rs
    feats=$(python3 -c "import json;print(json.load(open('$W/out/$i.meta.json')).get('features','') or '')" 2>/dev/null)
    fa=""; [ -n "$feats" ] && fa="--features $feats"
    git apply $d || { echo "$ID $i: patch does not apply"; continue; }
    suite=$(cargo test --offline $fa 2>&1 | grep -E "^test result" | awk '{f+=$6} END {print f+0}')
    suite_ok=$(cargo test --offline $fa >/dev/null 2>&1 && echo pass || echo FAIL)
    cp $W/out/${i}_demo.rs tests/zz_demo.rs
    demo_with=$(cargo test --offline $fa --test zz_demo >/dev/null 2>&1 && echo pass || echo FAIL)
    git checkout -q -- src Cargo.toml
    demo_without=$(cargo test --offline $fa --test zz_demo >/dev/null 2>&1 && echo pass || echo FAIL)
    rm -f tests/zz_demo.rs
    echo "$ID $i: suite_with_change=$suite_ok demo_with_change=$demo_with demo_without_change=$demo_without"
    if [ "$suite_ok" = pass ] && [ "$demo_with" = FAIL ] && [ "$demo_without" = pass ]; then
      mkdir -p $dest
      cp $d $dest/patch.diff; cp $W/out/${i}_demo.rs $dest/demo.rs
      python3 - <<PY
import json
m=json.load(open('$W/out/$i.meta.json'))
m['confirmed']={'existing_suite_with_change':'pass','demo_with_change':'FAIL','demo_without_change':'pass',
  'how':'tools/confirm_mutants.sh in scratch worktree /tmp/mut/$ID (cargo test --offline $fa; demo as tests/zz_demo.rs)'}
json.dump(m,open('$dest/meta.json','w'),indent=1)
PY
    fi
  done
done

#!/bin/sh
# usage: tools/seedtest.sh <patch.diff> <property> [<property>...]
# applies a seeded change to /repo, runs the quick checks, undoes it. Prints one DETECTED/MISSED line per property.
patch="$1"; shift
cd /repo || exit 2
if [ -n "$(git status --porcelain --untracked-files=no)" ]; then echo "/repo not clean"; exit 2; fi
git apply "$patch" || { echo "patch does not apply"; exit 2; }
for p in "$@"; do
  out=$(cd /verif && ./check "$p" --tier quick 2>&1); rc=$?
  if echo "$out" | grep -q "^VIOLATION property=$p"; then echo "DETECTED $p rc=$rc :: $(echo "$out" | grep -m1 '^#')"; else echo "MISSED   $p rc=$rc :: $(echo "$out" | tail -1)"; fi
done
git -C /repo checkout -- . 

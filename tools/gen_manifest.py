#!/usr/bin/env python3
"""Regenerates /verif/MANIFEST.json from propcfg.py (claimed properties) and properties.jsonl."""
import json, os, sys, subprocess
V = os.path.dirname(os.path.dirname(os.path.abspath(__file__)))
sys.path.insert(0, V)
from propcfg import PROPS, NOT_APPLICABLE, HOOK_COMMITS

props = [json.loads(l) for l in open(os.path.join(V, "properties.jsonl"))]
claimed = sorted(PROPS)
m = {
    "version": 1,
    "setup_cmd": "./setup.sh",
    "hooks": {
        "guard": "verif-hooks",
        "enable": "cargo feature: the harness crate depends on mini-mcmc (path=/repo) with features [csv, arrow, parquet, verif-hooks]; every hook is #[cfg(feature = \"verif-hooks\")]",
        "baseline_off_cmd": "cd /repo && CARGO_NET_OFFLINE=true cargo test --workspace --no-fail-fast --offline",
        "source_commits": HOOK_COMMITS,
        "add_only": True,
    },
    "engines": [{
        "name": "lean-proof+correspondence", "path": "/verif/check", "serves_properties": claimed,
        "kind_free_text": "Lean 4 theorems about hand-written executable models (lean/), tied to /repo on every run by a differential "
                          "correspondence check: the Rust harness (harness/) runs the real code, the compiled Lean driver runs the model on the same cases",
    }],
    "checks": [],
    "notes": "See DESIGN.md. Defects repaired in /repo are listed in known_findings.jsonl as 'fixed:' lines; reversed fixes are kept as seeded/ changes.",
    "not_applicable": [],
}
for p in props:
    pid = p["id"]
    if pid in PROPS:
        c = PROPS[pid]
        m["checks"].append({
            "property_id": pid,
            "quick_cmd": f"./check {pid} --tier quick",
            "thorough_cmd": f"./check {pid} --tier thorough",
            "evidence_file": f"/verif/evidence/{pid}.json",
            "replay_cmd_template": f"./check {pid} --replay {{path}}",
            "engine": "lean-proof+correspondence",
            "level_claimed": {"category": "proof", "text": c["level_text"] + ((" " + c["level_extra"]) if c.get("level_extra") else ""), "design_ref": f"DESIGN.md §6 {pid}"},
            "level_note": c["level_note"],
            "technique": c.get("technique", "Lean 4 theorems about an executable model + differential correspondence (model vs. real code)"),
        })
    else:
        m["not_applicable"].append({"property_id": pid, "reason": NOT_APPLICABLE.get(pid, f"check not built yet (planned: DESIGN.md §6 {pid})")})
json.dump(m, open(os.path.join(V, "MANIFEST.json"), "w"), indent=1)
print("claimed:", claimed)

#!/bin/sh
# Build the framework from files on disk only (offline): Lean models, theorems and driver; Rust harness.
set -e
cd "$(dirname "$0")"
export CARGO_NET_OFFLINE=true
mkdir -p .cache work evidence replays
(cd lean && lake build 2>&1 | tail -5)
[ -f harness/Cargo.lock ] || cp /repo/Cargo.lock harness/Cargo.lock
(cd harness && cargo build --offline 2>&1 | tail -3)
echo "setup done"

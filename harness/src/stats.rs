//! C11 (split R-hat, summary statistics), C12 (ESS, autocovariance paths), C13 (streaming trackers).
use crate::util::*;
use mini_mcmc::stats::verif::{verif_autocov_bf, verif_autocov_fft};
use mini_mcmc::stats::{basic_stats, collect_rhat, split_rhat_mean_ess, ChainStats, ChainTracker, MultiChainTracker, RunStats};
use ndarray::{Array1, Array2, Array3};

#[derive(Clone, Copy, Debug, PartialEq)]
enum Kind {
    Iid,
    Ar1,
    Trend,
    Bimodal,
    Apart,
    Constant,
    Sticky,
}

/// [chain][draw] series for one parameter
fn series(rng: &mut Sm, kind: Kind, m: usize, n: usize, loc: f64, scale: f64) -> Vec<Vec<f64>> {
    let phi = match kind {
        Kind::Ar1 => rng.uniform(-0.9, 0.99),
        _ => 0.0,
    };
    let slope = rng.normal() * 3.0 / n as f64;
    let sep = if kind == Kind::Apart { *rng.pick(&[0.5, 1.0, 3.0, 10.0, 100.0]) } else { 0.0 };
    (0..m)
        .map(|c| {
            let mut x = rng.normal();
            let mut prev = 0.0;
            (0..n)
                .map(|t| {
                    let z = rng.normal();
                    let v = match kind {
                        Kind::Iid | Kind::Apart => z,
                        Kind::Ar1 => {
                            x = phi * x + (1.0 - phi * phi).sqrt() * z;
                            x
                        }
                        Kind::Trend => z + slope * t as f64,
                        Kind::Bimodal => z * 0.3 + if rng.coin(0.5) { 2.0 } else { -2.0 },
                        Kind::Constant => 0.0,
                        Kind::Sticky => {
                            if t > 0 && rng.coin(0.4) {
                                prev
                            } else {
                                z
                            }
                        }
                    };
                    prev = v;
                    loc + scale * (v + sep * c as f64)
                })
                .collect()
        })
        .collect()
}

fn pick_kind(rng: &mut Sm) -> Kind {
    *rng.pick(&[Kind::Iid, Kind::Iid, Kind::Ar1, Kind::Ar1, Kind::Trend, Kind::Bimodal, Kind::Apart, Kind::Sticky, Kind::Constant])
}

fn pick_n(rng: &mut Sm, lo: u64, thorough: bool) -> usize {
    (match rng.below(10) {
        0 => rng.range(lo, lo + 4),
        1 | 2 | 3 | 4 => rng.range(lo, 60),
        5 | 6 => rng.range(60, 400),
        7 => *rng.pick(&[198, 199, 200, 201, 202, 203, 204, 205, 255, 256, 257]),
        8 => rng.range(400, if thorough { 5000 } else { 1500 }),
        _ => rng.range(lo, 30),
    }) as usize
}

fn array_of(cols: &[Vec<Vec<f64>>], m: usize, n: usize) -> Array3<f32> {
    let p = cols.len();
    Array3::from_shape_fn((m, n, p), |(c, t, d)| cols[d][c][t] as f32)
}
fn col_tokens(a: &Array3<f32>, d: usize) -> String {
    let (m, n, _) = a.dim();
    let mut v = Vec::with_capacity(m * n);
    for c in 0..m {
        for t in 0..n {
            v.push(h32(a[[c, t, d]]));
        }
    }
    v.join(" ")
}

// ------------------------------------------------------------------ C11

pub fn run_c11(out: &mut Out) {
    let mut rng = out.rng("c11");
    let n_arrays = out.n(120, 2500);
    for _ in 0..n_arrays {
        let id = out.fresh_id("rh");
        let m = rng.range(1, 16) as usize;
        let n = pick_n(&mut rng, 4, out.thorough());
        let p = rng.range(1, 8) as usize;
        let wide = rng.coin(0.1);
        let cols: Vec<(Kind, Vec<Vec<f64>>)> = (0..p)
            .map(|_| {
                let k = pick_kind(&mut rng);
                let scale = if rng.coin(0.2) { rng.log_uniform(1e-6, 1e-3) } else { rng.log_uniform(1e-2, 1e2) };
                let loc = if wide { rng.normal() * scale * 1e4 } else { rng.normal() * scale * 3.0 };
                (k, series(&mut rng, k, m, n, loc, scale))
            })
            .collect();
        let pow2 = *rng.pick(&[0.25f32, 0.5, 2.0, 8.0]);
        let junk: Vec<f64> = (0..8).map(|_| rng.normal() * 50.0).collect();
        if !out.selected(&id) {
            continue;
        }
        guard_case(out, &id.clone(), "C11:panic", (m * n * p) as u64, |out| {
            let a = array_of(&cols.iter().map(|c| c.1.clone()).collect::<Vec<_>>(), m, n);
            let (rhat, _ess) = split_rhat_mean_ess(a.view());
            for d in 0..p {
                let cid = format!("{id}.{d}");
                out.case(format!("c11 {cid} {m} {n} ; {}", col_tokens(&a, d)), format!("{cid} {}", ts(rhat[d])));
                out.count(&format!("kind_{:?}", cols[d].0));
                out.nontrivial(&format!("{m}:{n}:{:?}:{}", cols[d].0, h32(a[[0, 0, d]])));
                // implementation-only predicates
                out.count("predicate_evaluations");
                let half = (n / 2) as f32;
                let bound = ((half - 1.0) / half).sqrt();
                if rhat[d].is_finite() && rhat[d] < bound * (1.0 - 2e-3) && !wide {
                    out.fail(&cid, "C11:below-lower-bound", "split R-hat below sqrt((n-1)/n)", (m * n) as u64,
                        format!("rhat={} bound={bound} kind={:?} m={m} n={n}", rhat[d], cols[d].0));
                }
            }
            // exact metamorphic checks: scaling by a power of two and changing *other* parameters must not change a bit
            let scaled = a.mapv(|x| x * pow2);
            let (rs, es) = split_rhat_mean_ess(scaled.view());
            let (r0, e0) = split_rhat_mean_ess(a.view());
            for d in 0..p {
                let same = |x: f32, y: f32| x.to_bits() == y.to_bits() || (x.is_nan() && y.is_nan());
                if !same(rs[d], r0[d]) || !same(es[d], e0[d]) {
                    out.fail(&format!("{id}.{d}"), "C11:scale-invariance", "R-hat/ESS changed under multiplication by a power of two", (m * n) as u64,
                        format!("x{pow2}: rhat {} -> {}, ess {} -> {}", r0[d], rs[d], e0[d], es[d]));
                }
            }
            if p >= 2 {
                let mut other = a.clone();
                for c in 0..m {
                    for t in 0..n {
                        for d in 1..p {
                            other[[c, t, d]] = (junk[(c + t + d) % 8] * (t as f64 + 1.0).sin()) as f32;
                        }
                    }
                }
                let (ro, eo) = split_rhat_mean_ess(other.view());
                if ro[0].to_bits() != r0[0].to_bits() && !(ro[0].is_nan() && r0[0].is_nan()) || eo[0].to_bits() != e0[0].to_bits() && !(eo[0].is_nan() && e0[0].is_nan()) {
                    out.fail(&id, "C11:param-local", "R-hat/ESS of a parameter depends on the values of other parameters", (m * n) as u64,
                        format!("rhat {} vs {}, ess {} vs {}", r0[0], ro[0], e0[0], eo[0]));
                }
            }
        });
    }
    // monotone growth with separation
    for k in 0..out.n(10, 100) {
        let id = out.fresh_id("sep");
        let m = rng.range(2, 8) as usize;
        let n = rng.range(8, 200) as usize;
        let base = series(&mut rng, Kind::Iid, m, n, 0.0, 1.0);
        if !out.selected(&id) {
            continue;
        }
        guard_case(out, &id.clone(), "C11:panic", (m * n) as u64, |out| {
            let mut last = 0.0f32;
            // separations well above the sampling spread of the chain means (<= 1): there B is increasing in t
            for (j, t) in [0.0, 10.0, 100.0, 1000.0].iter().enumerate() {
                let cols = vec![base.iter().enumerate().map(|(c, s)| s.iter().map(|x| x + if c % 2 == 1 { *t } else { 0.0 }).collect()).collect::<Vec<Vec<f64>>>()];
                let a = array_of(&cols, m, n);
                let (r, _) = split_rhat_mean_ess(a.view());
                out.case(format!("c11 {id}.{j} {m} {n} ; {}", col_tokens(&a, 0)), format!("{id}.{j} {}", ts(r[0])));
                out.count("predicate_evaluations");
                if j > 0 && !(r[0] > last) {
                    out.fail(&format!("{id}.{j}"), "C11:not-growing", "R-hat does not grow when chains are moved further apart", (m * n) as u64,
                        format!("separation {t}: rhat {} after {last}", r[0]));
                }
                last = r[0];
            }
            let _ = k;
        });
    }
    // summary statistics
    for _ in 0..out.n(150, 3000) {
        let id = out.fresh_id("bs");
        let len = rng.range(1, 40) as usize;
        // a third of the cases: tightly clustered diagnostics (R-hat values 1.000x, ESS around 4000)
        let (centre, spread): (f64, f64) = match rng.below(3) { 0 => (*rng.pick(&[1.0, 1.0, 4000.0, 250.0, -3.0]), rng.log_uniform(1e-4, 1e-2)), _ => (0.0, 1.0) };
        let vals: Vec<f32> = (0..len).map(|_| if centre != 0.0 { (centre + centre.abs() * spread * rng.normal()) as f32 } else if rng.coin(0.2) { (rng.below(5) as f32) * 0.5 } else { (rng.normal() * rng.log_uniform(0.1, 1e3)) as f32 }).collect();
        if !out.selected(&id) {
            continue;
        }
        guard_case(out, &id.clone(), "C11:basic-stats-panic", len as u64, |out| {
            let b = basic_stats("x", Array1::from(vals.clone()));
            out.case(
                format!("c11b {id} ; {}", vals.iter().map(|x| h32(*x)).collect::<Vec<_>>().join(" ")),
                format!("{id} {} {} {} {} {}", h32(b.min), h32(b.median), h32(b.max), ts(b.mean), if len >= 2 { ts(b.std) } else { td(f64::NAN) }),
            );
            out.count("basic_stats_finite");
        });
    }
    // NaN diagnostics must not make the summary fail (constant parameters give NaN R-hat / ESS)
    for _ in 0..out.n(60, 1000) {
        let id = out.fresh_id("nan");
        let len = rng.range(2, 64) as usize;
        let vals: Vec<f32> = (0..len).map(|_| if rng.coin(0.3) { f32::NAN } else if rng.coin(0.1) { f32::INFINITY } else { rng.normal() as f32 }).collect();
        let m = rng.range(1, 4) as usize;
        let n = rng.range(4, 30) as usize;
        let p = rng.range(20, 40) as usize;
        let cols: Vec<Vec<Vec<f64>>> = (0..p).map(|_| { let k = if rng.coin(0.3) { Kind::Constant } else { Kind::Iid }; series(&mut rng, k, m, n, 0.0, 1.0) }).collect();
        if !out.selected(&id) {
            continue;
        }
        out.count("predicate_evaluations");
        let r = guarded(|| basic_stats("x", Array1::from(vals.clone())));
        if let Err(e) = r {
            out.fail(&id, "C11:nan-summary-panic", "basic_stats panicked on diagnostics containing NaN", len as u64, format!("{e}; values {vals:?}"));
        }
        let a = array_of(&cols, m, n);
        let r = guarded(|| RunStats::from(a.view()));
        match r {
            Err(e) => out.fail(&id, "C11:nan-summary-panic", "RunStats::from panicked on an array with constant parameters", (m * n * p) as u64, e),
            Ok(rs) => {
                out.count("runstats_with_constant_params");
                // printing the summary (what the progress bars and users do with it) must not fail either
                match guarded(|| format!("{rs}")) {
                    Ok(text) if !text.is_empty() => out.count("runstats_displayed"),
                    Ok(_) => out.fail(&id, "C11:display-empty", "the run summary prints as an empty string", 1, String::new()),
                    Err(e) => out.fail(&id, "C11:nan-summary-panic", "printing a run summary with NaN diagnostics panicked", 1, e),
                }
            }
        }
    }
}

// ------------------------------------------------------------------ C12

pub fn run_c12(out: &mut Out) {
    let mut rng = out.rng("c12");
    // (a) the two autocovariance paths on the same column, against the model
    for _ in 0..out.n(60, 1200) {
        let id = out.fresh_id("ac");
        let n = match rng.below(6) {
            0 => rng.range(2, 8),
            1 | 2 | 3 => rng.range(2, 300),
            4 => *rng.pick(&[63, 64, 65, 127, 128, 129, 255, 256, 257]),
            _ => rng.range(301, if out.thorough() { 5000 } else { 1200 }),
        } as usize;
        let k = pick_kind(&mut rng);
        let k = if k == Kind::Constant { Kind::Ar1 } else { k };
        let loc0 = rng.normal();
        let s = series(&mut rng, k, 1, n, loc0, 1.0);
        if !out.selected(&id) {
            continue;
        }
        guard_case(out, &id.clone(), "C12:panic", n as u64, |out| {
            let col: Vec<f32> = s[0].iter().map(|x| *x as f32).collect();
            let a = Array2::from_shape_vec((n, 1), col.clone()).unwrap();
            let bf = verif_autocov_bf(a.view());
            let fft = verif_autocov_fft(a.view());
            let a0 = bf[[0, 0]] as f64;
            let line = format!(
                "{id} {} # {}",
                (0..n).map(|l| ts((bf[[l, 0]] as f64 / a0) as f32)).collect::<Vec<_>>().join(" "),
                (0..n).map(|l| ts((fft[[l, 0]] as f64 / a0) as f32)).collect::<Vec<_>>().join(" ")
            );
            out.case(format!("c12a {id} ; {}", col.iter().map(|x| h32(*x)).collect::<Vec<_>>().join(" ")), line);
            out.count(if n <= 100 { "acov_n_le_100" } else { "acov_n_gt_100" });
            out.nontrivial(&format!("ac:{n}:{k:?}"));
        });
    }
    // (b) ESS through the public entry point, incl. the 100-row switch, reversed time and permuted chains
    for _ in 0..out.n(110, 2500) {
        let id = out.fresh_id("es");
        let m = rng.range(1, 16) as usize;
        let n = pick_n(&mut rng, 4, out.thorough());
        let p = rng.range(1, 4) as usize;
        let mut out_far = 0u64;
        let cols: Vec<(Kind, Vec<Vec<f64>>)> = (0..p)
            .map(|_| {
                let k = pick_kind(&mut rng);
                let scale = rng.log_uniform(1e-2, 1e2);
                // a quarter of the parameters sit far from the origin compared with their spread (location / sd of
                // 100 - 1000): affine invariance in f32 then needs the centred two-pass formulas the code uses
                let loc = if rng.coin(0.25) {
                    out_far += 1;
                    scale * rng.log_uniform(100.0, 1000.0) * if rng.coin(0.5) { 1.0 } else { -1.0 }
                } else {
                    rng.normal() * scale * 3.0
                };
                (k, series(&mut rng, k, m, n, loc, scale))
            })
            .collect();
        out.count_n("parameters_far_from_origin", out_far);
        let variant = rng.below(3);
        let perm_seed = rng.next();
        if !out.selected(&id) {
            continue;
        }
        guard_case(out, &id.clone(), "C12:panic", (m * n * p) as u64, |out| {
            let mut data: Vec<Vec<Vec<f64>>> = cols.iter().map(|c| c.1.clone()).collect();
            match variant {
                1 => {
                    for col in data.iter_mut() {
                        for ch in col.iter_mut() {
                            ch.reverse();
                        }
                    }
                    out.count("time_reversed");
                }
                2 => {
                    let mut r = Sm(perm_seed);
                    for col in data.iter_mut() {
                        let mut r2 = r.clone();
                        for i in (1..col.len()).rev() {
                            let j = r2.below(i as u64 + 1) as usize;
                            col.swap(i, j);
                        }
                    }
                    r.next();
                    out.count("chains_permuted");
                }
                _ => {}
            }
            let a = array_of(&data, m, n);
            let (_r, ess) = split_rhat_mean_ess(a.view());
            for d in 0..p {
                let cid = format!("{id}.{d}");
                out.case(format!("c12 {cid} {m} {n} ; {}", col_tokens(&a, d)), format!("{cid} {}", ts(ess[d])));
                out.count(&format!("kind_{:?}", cols[d].0));
                out.count(if n / 2 <= 100 { "half_le_100_bruteforce" } else { "half_gt_100_fft" });
                out.nontrivial(&format!("{m}:{n}:{:?}:{}", cols[d].0, h32(a[[0, 0, d]])));
                // a measured (not decided) figure: ESS / (number of draws) for iid data
                if cols[d].0 == Kind::Iid && n >= 400 && m >= 2 {
                    let ratio = ess[d] as f64 / ((m * (n / 2) * 2) as f64);
                    out.notes.push(format!("iid ESS/N = {ratio:.3} (m={m}, n={n})"));
                }
            }
        });
    }
    out.notes.truncate(8);
}

// ------------------------------------------------------------------ C13

trait Elem: Copy + num_traits::ToPrimitive + num_traits::Num + num_traits::FromPrimitive + PartialOrd + std::fmt::Debug {
    const NAME: &'static str;
    fn from64(x: f64) -> Self;
}
impl Elem for f32 {
    const NAME: &'static str = "f32";
    fn from64(x: f64) -> Self {
        x as f32
    }
}
impl Elem for f64 {
    const NAME: &'static str = "f64";
    fn from64(x: f64) -> Self {
        x
    }
}
impl Elem for i32 {
    const NAME: &'static str = "i32";
    fn from64(x: f64) -> Self {
        x.round() as i32
    }
}
impl Elem for i16 {
    const NAME: &'static str = "i16";
    fn from64(x: f64) -> Self {
        x.round() as i16
    }
}
impl Elem for i8 {
    const NAME: &'static str = "i8";
    fn from64(x: f64) -> Self {
        x.round() as i8
    }
}
impl Elem for usize {
    const NAME: &'static str = "usize";
    fn from64(x: f64) -> Self {
        x.round().abs() as usize
    }
}

fn c13_one<T: Elem>(out: &mut Out, rng: &mut Sm) {
    let id = out.fresh_id("tr");
    let m = rng.range(2, 16) as usize;
    let n = pick_n(rng, 2, out.thorough());
    let p = rng.range(1, 8) as usize;
    let int = matches!(T::NAME, "i32" | "usize" | "i16" | "i8");
    // integer states are not confined to small values: magnitudes whose *square* does not fit the element type any
    // more (i8 >= 12, i16 >= 182, i32 >= 46341, usize >= 2^32) are as legitimate as small ones
    let big: f64 = match T::NAME {
        "i32" => 1e8,
        "usize" => 1e12,
        "i16" => 3000.0,
        "i8" => 12.0,
        _ => 0.0,
    };
    // a share of the floating-point histories lives entirely at a tiny scale (every coordinate of every move far below
    // f32::EPSILON in absolute size): 'state differs from previous state' is exact inequality, not a tolerance (seeded C13-m7)
    let tiny_case = !int && rng.coin(0.15);
    let cols: Vec<Vec<Vec<f64>>> = (0..p)
        .map(|_| {
            let k = *rng.pick(&[Kind::Iid, Kind::Ar1, Kind::Sticky, Kind::Sticky, Kind::Apart, Kind::Trend]);
            let scale = if tiny_case { rng.log_uniform(1e-12, 1e-8) } else if int && rng.coin(0.4) { rng.log_uniform(2.0, big) } else if int { rng.uniform(2.0, 50.0f64.min(big)) } else if rng.coin(0.25) { rng.log_uniform(1e-6, 1e-3) } else { rng.log_uniform(1e-2, 1e2) };
            let loc = if int { scale * 4.0 + rng.unit() * 20.0 } else { rng.normal() * scale * 3.0 };
            series(rng, k, m, n + 1, loc, scale)
        })
        .collect();
    // whole-row stickiness so that 'state equals previous state' happens
    let stick: Vec<bool> = (0..m * (n + 1)).map(|_| rng.coin(0.3)).collect();
    if !out.selected(&id) {
        return;
    }
    guard_case(out, &id.clone(), "C13:panic", (m * n * p) as u64, |out| {
        // data[c][t][d] as T, row 0 = initial state
        let mut data: Vec<Vec<Vec<T>>> = (0..m).map(|c| (0..=n).map(|t| (0..p).map(|d| T::from64(cols[d][c][t])).collect()).collect()).collect();
        for c in 0..m {
            for t in 1..=n {
                if stick[c * (n + 1) + t] {
                    data[c][t] = data[c][t - 1].clone();
                }
            }
        }
        let mut trackers: Vec<ChainTracker> = (0..m).map(|c| ChainTracker::new(p, &data[c][0])).collect();
        let mut multi = MultiChainTracker::new(m, p);
        let mut p_bad = false;
        for t in 1..=n {
            for c in 0..m {
                trackers[c].step(&data[c][t]).unwrap();
                let pa = trackers[c].stats().p_accept;
                if !(0.0..=1.0).contains(&pa) {
                    p_bad = true;
                }
            }
            let flat: Vec<T> = (0..m).flat_map(|c| data[c][t].clone()).collect();
            multi.step(&flat).unwrap();
            if !(0.0..=1.0).contains(&multi.p_accept) {
                p_bad = true;
            }
        }
        out.count("predicate_evaluations");
        if p_bad {
            out.fail(&id, "C13:p-accept-range", "reported acceptance rate left [0,1]", (m * n) as u64, String::new());
        }
        let stats: Vec<ChainStats> = trackers.iter().map(|t| t.stats()).collect();
        let refs: Vec<&ChainStats> = stats.iter().collect();
        let collect = collect_rhat(&refs);
        let mr = multi.rhat().unwrap();
        let s0 = &stats[0];
        if s0.n != n as u64 {
            out.fail(&id, "C13:count", "tracker count differs from the number of updates", (m * n) as u64, format!("{} vs {n}", s0.n));
        }
        let toks: Vec<String> = (0..m)
            .flat_map(|c| (0..=n).flat_map(move |t| (0..p).map(move |d| (c, t, d))))
            .map(|(c, t, d)| h32(num_traits::ToPrimitive::to_f32(&data[c][t][d]).unwrap()))
            .collect();
        let line = format!(
            "{id} {} # {} # {} # {} # {} # {} # {}",
            s0.n,
            ts(s0.p_accept),
            s0.mean.iter().map(|x| ts(*x)).collect::<Vec<_>>().join(" "),
            s0.sm2.iter().map(|x| ts(*x)).collect::<Vec<_>>().join(" "),
            collect.iter().map(|x| ts(*x)).collect::<Vec<_>>().join(" "),
            mr.iter().map(|x| ts(*x)).collect::<Vec<_>>().join(" "),
            ts(multi.p_accept)
        );
        out.case(format!("c13 {id} {m} {n} {p} ; {}", toks.join(" ")), line);
        out.count(&format!("elem_{}", T::NAME));
        out.count(if p == 1 { "params_1" } else { "params_ge_2" });
        if tiny_case {
            out.count("tiny_scale_histories");
        }
        out.nontrivial(&format!("{}:{m}:{n}:{p}", T::NAME));
    });
}

/// `ess_from_chainstats`: trackers fed every draw of their chain, ESS of the unsplit draws with the trackers' W / var+
fn c13_ess(out: &mut Out, rng: &mut Sm) {
    let id = out.fresh_id("ec");
    let m = rng.range(2, 8) as usize;
    // unsplit chains: lengths around the 100-row switch of `autocov`, short ones, and a few hundred (the model's
    // list-based autocovariance is quadratic, so no thousands here — C12 covers those through the split path)
    let n = match rng.below(3) {
        0 => rng.range(4, 60),
        1 => rng.range(95, 106),
        _ => rng.range(60, 600),
    } as usize;
    let k = pick_kind(rng);
    let scale = rng.log_uniform(1e-2, 1e2);
    let loc = if rng.coin(0.2) { scale * rng.log_uniform(100.0, 1000.0) } else { rng.normal() * scale * 3.0 };
    let col = series(rng, k, m, n, loc, scale);
    if !out.selected(&id) {
        return;
    }
    guard_case(out, &id.clone(), "C13:panic", (m * n) as u64, |out| {
        let a = array_of(&[col.clone()], m, n);
        let trackers: Vec<ChainStats> = (0..m)
            .map(|c| {
                let mut t = ChainTracker::new(1, &[a[[c, 0, 0]]]);
                for i in 0..n {
                    t.step(&[a[[c, i, 0]]]).unwrap();
                }
                t.stats()
            })
            .collect();
        let refs: Vec<&ChainStats> = trackers.iter().collect();
        let e = mini_mcmc::stats::ess_from_chainstats(a.view(), &refs);
        out.case(format!("c13e {id} {m} {n} ; {}", col_tokens(&a, 0)), format!("{id} {}", ts(e[0])));
        out.count("ess_from_chainstats");
        out.nontrivial(&format!("ec:{m}:{n}:{k:?}"));
    });
}

pub fn run_c13(out: &mut Out) {
    let mut rng = out.rng("c13");
    let n = out.n(160, 3000);
    for i in 0..n {
        match i % 4 {
            0 => c13_one::<f32>(out, &mut rng),
            1 => c13_one::<f64>(out, &mut rng),
            2 => c13_one::<i32>(out, &mut rng),
            _ => c13_one::<usize>(out, &mut rng),
        }
    }
    for i in 0..out.n(40, 600) {
        if i % 2 == 0 {
            c13_one::<i16>(out, &mut rng);
        } else {
            c13_one::<i8>(out, &mut rng);
        }
    }
    for _ in 0..out.n(60, 1200) {
        c13_ess(out, &mut rng);
    }
}

//! C18 — init / init_det / init_with_seed: shape, finite standard-normal entries, purity, prefix property.
//!
//! The stream of variates is taken from the implementation itself (the largest request); the Lean layout model must
//! then reproduce every smaller request from that stream (prefix property + row-major layout), `init_det` is checked
//! against seed 42, repeated calls must agree bit for bit. The distribution is checked by comparison with the
//! rand_distr reference stream and — if a (harmless) rewrite draws differently — by a deterministic moment /
//! Kolmogorov–Smirnov / independence test at fixed seeds.
use crate::util::*;
use mini_mcmc::core::{init, init_det, init_with_seed};
use rand::rngs::SmallRng;
use rand::SeedableRng;
use rand_distr::{Distribution, StandardNormal};

trait El: num_traits::Float + num_traits::FromPrimitive + std::fmt::Debug {
    const NAME: &'static str;
    fn hex(self) -> String;
}
impl El for f64 {
    const NAME: &'static str = "f64";
    fn hex(self) -> String {
        h64(self)
    }
}
impl El for f32 {
    const NAME: &'static str = "f32";
    fn hex(self) -> String {
        h32(self)
    }
}

fn rows_str<T: El>(rows: &[Vec<T>]) -> String {
    rows.iter()
        .map(|r| r.iter().map(|x| x.hex()).collect::<Vec<_>>().join(" "))
        .collect::<Vec<_>>()
        .join(" | ")
}

fn phi(x: f64) -> f64 {
    // standard normal CDF via erfc (Abramowitz–Stegun 7.1.26 is too coarse; use a series/continued fraction-free approach)
    0.5 * erfc(-x / std::f64::consts::SQRT_2)
}
fn erfc(x: f64) -> f64 {
    // W. J. Cody-style rational approximation is overkill; numerical recipes erfccheb-like with 1.2e-7 accuracy suffices here
    let z = x.abs();
    let t = 1.0 / (1.0 + 0.5 * z);
    let r = t
        * (-z * z - 1.26551223
            + t * (1.00002368
                + t * (0.37409196
                    + t * (0.09678418
                        + t * (-0.18628806 + t * (0.27886807 + t * (-1.13520398 + t * (1.48851587 + t * (-0.82215223 + t * 0.17087277)))))))))
        .exp();
    if x >= 0.0 {
        r
    } else {
        2.0 - r
    }
}

/// deterministic distribution sanity test; returns Some(description) if the sample is not plausibly iid N(0,1)
fn not_normal(xs: &[f64], lag: usize) -> Option<String> {
    let n = xs.len() as f64;
    if xs.len() < 4096 {
        return None;
    }
    let mean = xs.iter().sum::<f64>() / n;
    let var = xs.iter().map(|x| (x - mean) * (x - mean)).sum::<f64>() / n;
    let m4 = xs.iter().map(|x| (x - mean).powi(4)).sum::<f64>() / n;
    let se = 1.0 / n.sqrt();
    if mean.abs() > 6.0 * se {
        return Some(format!("mean {mean} (n={n})"));
    }
    if (var - 1.0).abs() > 6.0 * (2.0f64).sqrt() * se {
        return Some(format!("variance {var} (n={n})"));
    }
    if (m4 - 3.0).abs() > 6.0 * (96.0f64).sqrt() * se {
        return Some(format!("fourth moment {m4} (n={n})"));
    }
    let mut s = xs.to_vec();
    s.sort_by(|a, b| a.partial_cmp(b).unwrap());
    let mut ks: f64 = 0.0;
    for (i, x) in s.iter().enumerate() {
        let f = phi(*x);
        ks = ks.max((f - i as f64 / n).abs()).max((f - (i + 1) as f64 / n).abs());
    }
    if ks > 3.3 * se {
        return Some(format!("Kolmogorov-Smirnov distance {ks} (n={n})"));
    }
    for l in [1usize, lag.max(1)] {
        if l < xs.len() {
            let c = xs.iter().zip(xs[l..].iter()).map(|(a, b)| (a - mean) * (b - mean)).sum::<f64>() / (n - l as f64) / var;
            if c.abs() > 6.0 * se {
                return Some(format!("lag-{l} autocorrelation {c} (n={n})"));
            }
        }
    }
    None
}

fn one<T: El>(out: &mut Out, rng: &mut Sm, big: bool, zero_dim: bool) {
    let id = out.fresh_id("init");
    // zero-length vectors (`d == 0`, `n >= 1`: n empty vectors) are requested in every run, not left to chance
    let d = if zero_dim { 0 } else if rng.coin(0.15) { *rng.pick(&[0u64, 1, 2]) } else { rng.range(0, 256) } as usize;
    let n_big = if big { 256 } else { rng.range(1, 256) as usize };
    let seed = if rng.coin(0.2) { *rng.pick(&[0u64, 1, 42, u64::MAX]) } else { rng.next() };
    let ns: Vec<usize> = (0..4).map(|_| (if rng.coin(0.3) { *rng.pick(&[0u64, 1, 2]) as usize } else { rng.below(n_big as u64 + 1) as usize }).min(n_big)).collect();
    if !out.selected(&id) {
        return;
    }
    guard_case(out, &id.clone(), "C18:panic", (n_big * d) as u64, |out| {
        let bigreq: Vec<Vec<T>> = init_with_seed(n_big, d, seed);
        let stream: Vec<T> = bigreq.iter().flatten().cloned().collect();
        let stream_str = stream.iter().map(|x| x.hex()).collect::<Vec<_>>().join(" ");
        let size = (n_big * d) as u64;
        out.count("predicate_evaluations");
        if bigreq.len() != n_big || bigreq.iter().any(|r| r.len() != d) {
            out.fail(&id, "C18:shape", "init_with_seed returned a wrong shape", size, format!("n={n_big} d={d} got {} rows", bigreq.len()));
            return;
        }
        if stream.iter().any(|x| !x.is_finite()) {
            out.fail(&id, "C18:non-finite", "init_with_seed returned a non-finite entry", size, String::new());
        }
        // purity
        let again: Vec<Vec<T>> = init_with_seed(n_big, d, seed);
        if rows_str(&again) != rows_str(&bigreq) {
            out.fail(&id, "C18:impure", "two calls of init_with_seed with the same arguments differ", size, format!("n={n_big} d={d} seed={seed}"));
        }
        // different seeds give different output
        if n_big * d >= 2 {
            let other: Vec<Vec<T>> = init_with_seed(n_big, d, seed.wrapping_add(1));
            if rows_str(&other) == rows_str(&bigreq) {
                out.fail(&id, "C18:seed-ignored", "init_with_seed ignores its seed", size, format!("seeds {seed} and {}", seed.wrapping_add(1)));
            }
        }
        // reference stream of rand_distr (supporting evidence for 'standard normal'), else a distribution test
        let mut r = SmallRng::seed_from_u64(seed);
        let reference: Vec<T> = (0..n_big * d).map(|_| T::from_f64(StandardNormal.sample(&mut r)).unwrap()).collect();
        if reference.iter().map(|x| x.hex()).collect::<Vec<_>>() == stream.iter().map(|x| x.hex()).collect::<Vec<_>>() {
            out.count("matches_rand_distr_reference_stream");
        } else {
            out.count("differs_from_reference_stream");
            let xs: Vec<f64> = stream.iter().map(|x| x.to_f64().unwrap()).collect();
            if let Some(why) = not_normal(&xs, d) {
                out.fail(&id, "C18:not-standard-normal", "entries are not plausibly independent standard-normal draws", size, why);
            }
        }
        // rows must not repeat
        if d >= 1 && n_big >= 2 && bigreq[0] == bigreq[1] {
            out.fail(&id, "C18:rows-identical", "consecutive vectors are identical", size, String::new());
        }
        for (j, n) in ns.iter().enumerate() {
            let cid = format!("{id}.{j}");
            let rows: Vec<Vec<T>> = init_with_seed(*n, d, seed);
            if rows.len() != *n || rows.iter().any(|r| r.len() != d) {
                out.fail(&cid, "C18:shape", "init_with_seed returned a wrong shape", size, format!("n={n} d={d}"));
                continue;
            }
            out.case(format!("c18 {cid} {n} {d} ; {stream_str}"), format!("{cid} {}", rows_str(&rows)));
            out.nontrivial(&format!("{}:{n}:{d}:{seed}", T::NAME));
        }
        if seed == 42 {
            out.count("seed_42");
        }
        out.count(&format!("type_{}", T::NAME));
        out.count(if d == 0 { "d_0" } else if d <= 2 { "d_1_2" } else { "d_3_256" });
    });
}

fn det_and_os<T: El>(out: &mut Out, rng: &mut Sm) {
    let id = out.fresh_id("det");
    let n = rng.range(0, 256) as usize;
    let d = rng.range(0, 256) as usize;
    if !out.selected(&id) {
        return;
    }
    guard_case(out, &id.clone(), "C18:panic", (n * d) as u64, |out| {
        let a: Vec<Vec<T>> = init_det(n, d);
        let b: Vec<Vec<T>> = init_with_seed(n, d, 42);
        out.count("predicate_evaluations");
        if rows_str(&a) != rows_str(&b) {
            out.fail(&id, "C18:init-det-not-42", "init_det differs from init_with_seed(.., 42)", (n * d) as u64, format!("n={n} d={d}"));
        }
        // the model also lays init_det out from the seed-42 stream
        let big: Vec<Vec<T>> = init_with_seed(256, d, 42);
        let stream_str = big.iter().flatten().map(|x| x.hex()).collect::<Vec<_>>().join(" ");
        out.case(format!("c18 {id} {n} {d} ; {stream_str}"), format!("{id} {}", rows_str(&a)));
        // OS-seeded init: shape, finite, fresh on every call
        let o1: Vec<Vec<T>> = init(n, d);
        let o2: Vec<Vec<T>> = init(n, d);
        if o1.len() != n || o1.iter().any(|r| r.len() != d) {
            out.fail(&id, "C18:shape", "init returned a wrong shape", (n * d) as u64, format!("n={n} d={d}"));
        }
        if o1.iter().flatten().any(|x| !x.is_finite()) {
            out.fail(&id, "C18:non-finite", "init returned a non-finite entry", (n * d) as u64, String::new());
        }
        if n * d >= 4 && rows_str(&o1) == rows_str(&o2) {
            out.fail(&id, "C18:init-not-fresh", "two calls of the OS-seeded init returned identical output", (n * d) as u64, String::new());
        }
        if n * d >= 4096 {
            let xs: Vec<f64> = o1.iter().flatten().map(|x| x.to_f64().unwrap()).collect();
            if let Some(why) = not_normal(&xs, d) {
                out.fail(&id, "C18:not-standard-normal", "init: entries are not plausibly independent standard-normal draws", (n * d) as u64, why);
            }
        }
        out.count("init_det_cases");
    });
}

/// tail witnesses: seeds whose standard-normal reference stream contains a draw beyond 4.8 sigma among its first 65 536
/// entries (about one stream in ten). A request that covers such a draw must return it: if the implementation follows the
/// reference stream up to that entry (so it demonstrably draws this way) and then departs from it, extreme draws are
/// being suppressed, clamped or redrawn — "independent standard-normal draws" have unbounded support.
fn tail_witness<T: El>(out: &mut Out, rng: &mut Sm) {
    let id = out.fresh_id("tail");
    let first_seed = rng.below(1 << 20);
    if !out.selected(&id) {
        return;
    }
    guard_case(out, &id.clone(), "C18:panic", 65536, |out| {
        let d = 256usize;
        // the three most extreme draws among 200 reference streams of 65 536 entries (typically 5.2 - 5.8 sigma)
        let mut best: Vec<(f64, u64, usize)> = vec![];
        for seed in first_seed..first_seed + 200 {
            let mut r = SmallRng::seed_from_u64(seed);
            let (mut m, mut at) = (0.0f64, 0usize);
            for k in 0..256 * d {
                let z: f64 = StandardNormal.sample(&mut r);
                if z.abs() > m {
                    m = z.abs();
                    at = k;
                }
            }
            best.push((m, seed, at));
        }
        best.sort_by(|a, b| b.0.partial_cmp(&a.0).unwrap());
        let mut found = 0;
        for (m, seed, idx) in best.into_iter().take(3) {
            let mut r = SmallRng::seed_from_u64(seed);
            let reference: Vec<f64> = (0..256 * d).map(|_| StandardNormal.sample(&mut r)).collect();
            let n = idx / d + 2;
            let rows: Vec<Vec<T>> = init_with_seed(n.min(256), d, seed);
            let flat: Vec<T> = rows.iter().flatten().cloned().collect();
            out.count("predicate_evaluations");
            let same = |k: usize| flat.get(k).map(|x| x.hex()) == T::from_f64(reference[k]).map(|x| x.hex());
            if (0..idx).all(same) {
                if !(idx..flat.len().min(reference.len())).all(same) {
                    out.fail(&id, "C18:tail-draw-altered", "a draw far in the tail of the standard normal is suppressed or altered (the output follows the reference stream up to it and departs from it there)",
                        (n * d) as u64, format!("{} seed {seed}: reference entry {idx} = {} ; returned {:?}", T::NAME, reference[idx], flat.get(idx)));
                }
                out.count("tail_witness_checked");
                if out.notes.len() < 8 {
                    out.notes.push(format!("tail witness {}: seed {seed}, entry {idx}, |z| = {m:.3}", T::NAME));
                }
            } else {
                out.count("tail_witness_skipped_other_drawing_method");
            }
            found += 1;
        }
        if found == 0 {
            out.count("tail_witness_none_found");
        }
    });
}

pub fn run(out: &mut Out) {
    let mut rng = out.rng("c18");
    tail_witness::<f64>(out, &mut rng);
    tail_witness::<f32>(out, &mut rng);
    let n = out.n(60, 1200);
    for i in 0..n {
        if i % 2 == 0 {
            one::<f64>(out, &mut rng, i % 6 == 0, i == 2 || i == 8);
            det_and_os::<f64>(out, &mut rng);
        } else {
            one::<f32>(out, &mut rng, i % 6 == 1, i == 3 || i == 9);
            det_and_os::<f32>(out, &mut rng);
        }
    }
}

//! C01 — one MH step obeys the acceptance rule (and C14's MH part: special values are never accepted).
//!
//! Table-driven `Target`/`Proposal` over a handful of abstract states, filled from a palette that includes
//! ±inf, NaN, ±0, subnormals and huge values, asymmetric in both proposal directions; the candidate is scripted
//! and the acceptance draw is injected exactly through the public `rng` field. Sequences of 1-4 steps so that
//! steps after an acceptance / a rejection occur.
use crate::util::*;
use mini_mcmc::core::MarkovChain;
use mini_mcmc::distributions::{Proposal, Target};
use mini_mcmc::metropolis_hastings::MHMarkovChain;

#[derive(Clone, Debug)]
struct Table<F> {
    lp: Vec<F>,
    q: Vec<Vec<F>>,
    script: Vec<usize>,
    pos: usize,
    /// number of coordinates of every abstract state (states of different lengths: dimension-changing moves)
    dims: Vec<usize>,
}

trait Scalar: num_traits::Float + std::fmt::Debug + Send + 'static {
    const NAME: &'static str;
    const BITS: u32;
    const SHIFT: u32;
    fn hex(self) -> String;
    fn from64(x: f64) -> Self;
}
impl Scalar for f64 {
    const NAME: &'static str = "f64";
    const BITS: u32 = 53;
    const SHIFT: u32 = 11;
    fn hex(self) -> String {
        h64(self)
    }
    fn from64(x: f64) -> Self {
        x
    }
}
impl Scalar for f32 {
    const NAME: &'static str = "f32";
    const BITS: u32 = 24;
    const SHIFT: u32 = 40;
    fn hex(self) -> String {
        h32(self)
    }
    fn from64(x: f64) -> Self {
        x as f32
    }
}

trait StateElem: Clone + PartialEq + std::fmt::Debug + num_traits::Zero + Send + 'static {
    const NAME: &'static str;
    fn enc(k: usize, j: usize) -> Self;
    fn dec(&self) -> usize;
    fn same_bits(a: &Self, b: &Self) -> bool;
}
impl StateElem for i32 {
    const NAME: &'static str = "i32";
    fn enc(k: usize, j: usize) -> Self {
        (k * 10 + j) as i32
    }
    fn dec(&self) -> usize {
        (*self / 10) as usize
    }
    fn same_bits(a: &Self, b: &Self) -> bool {
        a == b
    }
}
impl StateElem for f64 {
    const NAME: &'static str = "f64";
    fn enc(k: usize, j: usize) -> Self {
        k as f64 + j as f64 * 0.001 + if k == 1 { -0.0 } else { 0.0 }
    }
    fn dec(&self) -> usize {
        self.floor() as usize
    }
    fn same_bits(a: &Self, b: &Self) -> bool {
        a.to_bits() == b.to_bits()
    }
}
impl StateElem for f32 {
    const NAME: &'static str = "f32";
    fn enc(k: usize, j: usize) -> Self {
        k as f32 + j as f32 * 0.001
    }
    fn dec(&self) -> usize {
        self.floor() as usize
    }
    fn same_bits(a: &Self, b: &Self) -> bool {
        a.to_bits() == b.to_bits()
    }
}

fn state<S: StateElem>(k: usize, dim: usize) -> Vec<S> {
    (0..dim).map(|j| S::enc(k, j)).collect()
}

impl<S: StateElem, F: Scalar> Target<S, F> for Table<F> {
    fn unnorm_logp(&self, position: &[S]) -> F {
        self.lp[position[0].dec()]
    }
}
impl<S: StateElem, F: Scalar> Proposal<S, F> for Table<F> {
    fn sample(&mut self, _current: &[S]) -> Vec<S> {
        let k = self.script[self.pos % self.script.len()];
        self.pos += 1;
        state::<S>(k, self.dims[k])
    }
    fn logp(&self, from: &[S], to: &[S]) -> F {
        self.q[from[0].dec()][to[0].dec()]
    }
    fn set_seed(self, _seed: u64) -> Self {
        self
    }
}

fn palette<F: Scalar>(rng: &mut Sm, special_rate: f64) -> F {
    if rng.coin(special_rate) {
        let specials = [
            f64::NEG_INFINITY, f64::INFINITY, f64::NAN, 0.0, -0.0, 5e-324, 1e-310, 1e300, -1e300, 3e38, -3e38, 1e-45,
        ];
        F::from64(*rng.pick(&specials))
    } else {
        match rng.below(4) {
            0 => F::from64(rng.normal() * 2.0),
            1 => F::from64((rng.below(9) as f64 - 4.0) * 0.5), // equal values are frequent
            2 => F::from64(-rng.log_uniform(1e-3, 50.0)),
            _ => F::from64(rng.normal() * 30.0),
        }
    }
}

fn one<S: StateElem, F: Scalar>(out: &mut Out, rng: &mut Sm)
where
    rand_distr::StandardUniform: rand_distr::Distribution<F>,
{
    let id = out.fresh_id("mh");
    let n_states = rng.range(2, 4) as usize;
    let dim = rng.range(1, 3) as usize;
    let special_rate = *rng.pick(&[0.0, 0.0, 0.15, 0.4]);
    let lp: Vec<F> = (0..n_states).map(|_| palette::<F>(rng, special_rate)).collect();
    let symmetric = rng.coin(0.15);
    let mut q: Vec<Vec<F>> = (0..n_states).map(|_| (0..n_states).map(|_| palette::<F>(rng, special_rate * 0.7)).collect()).collect();
    if symmetric {
        for a in 0..n_states {
            for b in 0..a {
                q[a][b] = q[b][a];
            }
        }
    }
    // a third of the cases: the abstract states have different numbers of coordinates (trans-dimensional moves)
    let dims: Vec<usize> = if rng.below(3) == 0 { (0..n_states).map(|_| rng.range(1, 4) as usize).collect() } else { vec![dim; n_states] };
    let steps = rng.range(1, 4) as usize;
    // between two steps the caller may move the chain through its public fields: overwrite `current_state` (30 %),
    // give the target other log-densities (20 %)
    let poke_state: Vec<Option<usize>> = (0..steps).map(|_| if rng.coin(0.3) { Some(rng.below(n_states as u64) as usize) } else { None }).collect();
    let poke_target: Vec<Option<Vec<F>>> = (0..steps).map(|_| if rng.coin(0.2) { Some((0..n_states).map(|_| palette::<F>(rng, special_rate)).collect()) } else { None }).collect();
    let script: Vec<usize> = (0..steps).map(|_| rng.below(n_states as u64) as usize).collect();
    let start = rng.below(n_states as u64) as usize;
    // per step: how to choose u
    let modes: Vec<u64> = (0..steps).map(|_| rng.below(8)).collect();
    let rnd: Vec<u64> = (0..steps).map(|_| rng.next()).collect();
    if !out.selected(&id) {
        return;
    }
    guard_case(out, &id.clone(), "C01:panic", steps as u64, |out| {
        let table = Table { lp: lp.clone(), q: q.clone(), script: script.clone(), pos: 0, dims: dims.clone() };
        let mut chain: MHMarkovChain<S, F, Table<F>, Table<F>> = MHMarkovChain::new(table.clone(), table.clone(), state::<S>(start, dims[start]));
        let mut lp = lp.clone();
        if dims.iter().any(|d| *d != dims[0]) {
            out.count("states_of_different_dimension");
        }
        for t in 0..steps {
            if t > 0 {
                if let Some(k) = poke_state[t] {
                    chain.current_state = state::<S>(k, dims[k]);
                    out.count("current_state_overwritten_between_steps");
                }
                if let Some(new_lp) = &poke_target[t] {
                    lp = new_lp.clone();
                    chain.target.lp = new_lp.clone();
                    out.count("target_changed_between_steps");
                }
            }
            let cur_vec = chain.current_state.clone();
            let cur = cur_vec[0].dec();
            // candidate: usually different from the current state
            let mut prop = script[t];
            if prop == cur && rnd[t] % 10 != 0 {
                prop = (cur + 1 + (rnd[t] >> 8) as usize % (n_states - 1)) % n_states;
            }
            chain.proposal.script = vec![prop];
            chain.proposal.pos = 0;
            let (lpx, lpy, qxy, qyx) = (lp[cur], lp[prop], q[cur][prop], q[prop][cur]);
            let r = (lpy + qyx) - (lpx + qxy);
            let maxk = (1u64 << F::BITS) - 1;
            let k: u64 = match modes[t] {
                0 => 0,
                1 => 1,
                2 => maxk,
                3 => 1u64 << (F::BITS - 1),
                4 | 5 => {
                    // the representable neighbours of exp(r)
                    let e = r.exp().to_f64().unwrap();
                    if e.is_finite() && e > 0.0 && e < 1.0 {
                        let base = (e * (1u64 << F::BITS) as f64).floor() as u64;
                        (base + (rnd[t] % 3)).saturating_sub(1).min(maxk)
                    } else {
                        rnd[t] >> (64 - F::BITS)
                    }
                }
                _ => rnd[t] >> (64 - F::BITS),
            };
            // the low bits of the generator word do not enter an F-typed uniform draw: fill them with noise
            let low = if t % 2 == 0 { (1u64 << F::SHIFT) - 1 } else { rnd[t] & ((1u64 << F::SHIFT) - 1) };
            chain.rng = crafted_rng((k << F::SHIFT) | low);
            let u: F = F::from64(k as f64 / (1u64 << F::BITS) as f64);
            let new = chain.step().clone();
            let cid = format!("{id}.{t}");
            let y_vec = state::<S>(prop, dims[prop]);
            let is_x = new.len() == cur_vec.len() && new.iter().zip(cur_vec.iter()).all(|(a, b)| S::same_bits(a, b));
            let is_y = new.len() == y_vec.len() && new.iter().zip(y_vec.iter()).all(|(a, b)| S::same_bits(a, b));
            out.count("predicate_evaluations");
            if prop == cur {
                // candidate equals the current state: nothing to decide, but the state must be intact
                if !is_x {
                    out.fail(&cid, "C01:state-corrupt", "state changed although candidate == current state", steps as u64, format!("{new:?}"));
                }
                out.count("candidate_equals_current");
                continue;
            }
            if !is_x && !is_y {
                out.fail(&cid, "C01:state-corrupt", "state after the step is neither x nor y bit for bit", steps as u64,
                    format!("x={cur_vec:?} y={y_vec:?} got={new:?}"));
                continue;
            }
            // the property's own predicate, evaluated on the implementation
            let should = u.ln() < r;
            if should != is_y {
                let class = if r.is_nan() || lpy.is_nan() || lpy == F::neg_infinity() { "special" } else if k == 0 || k == maxk { "u-extreme" } else { "generic" };
                out.fail(&cid, &format!("C01:rule:{class}"), "accept/reject decision differs from  ln u < [logp y + q(x|y)] - [logp x + q(y|x)]", steps as u64,
                    format!("F={} lp(x)={lpx:?} lp(y)={lpy:?} q(y|x)={qxy:?} q(x|y)={qyx:?} u={u:?} ratio={r:?} moved={is_y}", F::NAME));
            }
            let case = format!("c01 {cid} {} {} {} {} {} {}", F::NAME, lpx.hex(), lpy.hex(), qxy.hex(), qyx.hex(), u.hex());
            out.case(case, format!("{cid} {}", if is_y { "y" } else { "x" }));
            out.count(if is_y { "accepted" } else { "rejected" });
            if t > 0 {
                out.count("steps_after_first");
            }
            if r.is_nan() {
                out.count("ratio_nan");
            }
            if lpy == F::neg_infinity() || lpy.is_nan() {
                out.count("candidate_density_bad");
            }
            if k == 0 {
                out.count("u_exactly_0");
            }
            if k == maxk {
                out.count("u_1_minus_ulp");
            }
            if qxy.to_f64() != qyx.to_f64() {
                out.count("asymmetric_pair");
            }
            out.nontrivial(&format!("{}{}{}{}{}{}", F::NAME, lpx.hex(), lpy.hex(), qxy.hex(), qyx.hex(), u.hex()));
        }
        out.count(&format!("state_{}_scalar_{}", S::NAME, F::NAME));
    });
}

pub fn run(out: &mut Out) {
    let mut rng = out.rng("c01");
    let n = out.n(6000, 400_000);
    for i in 0..n {
        match i % 4 {
            0 => one::<i32, f64>(out, &mut rng),
            1 => one::<f64, f64>(out, &mut rng),
            2 => one::<f32, f32>(out, &mut rng),
            _ => one::<i32, f32>(out, &mut rng),
        }
    }
}

//! C02 — an HMC update is L leapfrog steps plus a Metropolis test on the Hamiltonian; rows are independent;
//! the integrator is reversible.
use crate::targets::*;
use crate::util::*;
use burn::backend::{Autodiff, NdArray};
use burn::tensor::backend::AutodiffBackend;
use burn::tensor::{Tensor, TensorData};
use mini_mcmc::hmc::HMC;
use mini_mcmc::verif_hooks;
use rand_distr::{StandardNormal, StandardUniform};

pub fn parse_hex_list(s: &str) -> Vec<f64> {
    s.split(',').filter(|t| !t.is_empty()).map(|t| f64::from_bits(u64::from_str_radix(t, 16).unwrap())).collect()
}
pub fn event<'a>(ev: &'a [String], key: &str) -> Option<&'a str> {
    ev.iter().find_map(|e| e.strip_prefix(key))
}

fn positions_of<T: Sc, B: AutodiffBackend>(t: &Tensor<B, 2>) -> Vec<Vec<f64>> {
    let dims = t.dims();
    let v: Vec<f64> = t.to_data().convert::<f64>().to_vec().unwrap();
    (0..dims[0]).map(|i| v[i * dims[1]..(i + 1) * dims[1]].to_vec()).collect()
}

fn one<T: Sc, B: AutodiffBackend>(out: &mut Out, rng: &mut Sm, stress: bool)
where
    StandardNormal: rand::distr::Distribution<T>,
    StandardUniform: rand_distr::Distribution<T>,
    T: rand_distr::uniform::SampleUniform + num_traits::FromPrimitive,
{
    let id = out.fresh_id("hmc");
    let family = rng.below(6);
    let dim0 = rng.range(1, 16) as usize;
    let (target, dim) = random_target(rng, family, dim0);
    let n_chains = if rng.coin(0.3) { 1 } else { rng.range(1, 32) as usize };
    let l = match rng.below(5) {
        0 => rng.range(0, 2),
        1 | 2 => rng.range(1, 8),
        3 => rng.range(8, 24),
        _ => rng.range(24, 64),
    } as usize;
    let eps = if stress { rng.log_uniform(0.5, 10.0) } else if rng.coin(0.5) { rng.log_uniform(1e-3, 0.3) } else { rng.log_uniform(0.05, 1.5) };
    let seed = rng.next();
    let init: Vec<Vec<f64>> = (0..n_chains).map(|_| (0..dim).map(|_| rng.normal() * 0.8 + if family == 1 || family == 2 { 0.5 } else { 0.0 }).collect()).collect();
    let n_steps = out.n(4, 8) as usize;
    let which_rows: Vec<usize> = (0..4).map(|_| rng.below(n_chains as u64) as usize).collect();
    if !out.selected(&id) {
        return;
    }
    guard_case(out, &id.clone(), "C02:panic", (n_chains * dim * (l + 1)) as u64, |out| {
        let init_t: Vec<Vec<T>> = init.iter().map(|r| r.iter().map(|x| T::from64(*x)).collect()).collect();
        let mut s = HMC::<T, B, AnyTarget>::new(target.clone(), init_t, T::from64(eps), l).set_seed(seed);
        let spec = target.spec::<T>();
        let hx = |v: &[f64]| v.iter().map(|x| T::from64(*x).hex()).collect::<Vec<_>>().join(" ");
        let size = (n_chains * dim * (l + 1)) as u64;
        let (eps0, l0) = (eps, l);
        let (mut eps, mut l) = (eps0, l0);
        for step in 0..n_steps {
            // every public field is an input: between two steps the caller may retune the step size / trajectory length
            // or move the chains (a quarter of the steps after the first)
            if step > 0 && (seed >> (step % 48)) & 3 == 0 {
                match (seed >> (8 + step % 40)) % 3 {
                    0 => {
                        eps = eps0 * [0.37, 1.9, 0.011][(seed as usize >> 3) % 3];
                        s.step_size = T::from64(eps);
                        out.count("step_size_changed_between_steps");
                    }
                    1 => {
                        l = (l0 + 1 + (seed as usize >> 5) % 4) % 9;
                        s.n_leapfrog = l;
                        out.count("n_leapfrog_changed_between_steps");
                    }
                    _ => {
                        let cur = positions_of::<T, B>(&s.positions);
                        let flat: Vec<T> = cur.iter().flat_map(|r| r.iter().map(|x| T::from64(*x * 0.5 - 0.1))).collect();
                        s.positions = Tensor::<B, 2>::from_data(TensorData::new(flat, [n_chains, dim]), &B::Device::default());
                        out.count("positions_overwritten_between_steps");
                    }
                }
            }
            let before = positions_of::<T, B>(&s.positions);
            // row independence: the same step from a clone in which every *other* row has been moved
            let probe_row = which_rows[0];
            let independent = if step == 0 && n_chains >= 2 {
                let mut other = s.clone();
                let mut flat: Vec<T> = vec![];
                for (i, r) in before.iter().enumerate() {
                    for x in r {
                        flat.push(T::from64(if i == probe_row { *x } else { *x * 0.5 + 0.25 }));
                    }
                }
                other.positions = Tensor::<B, 2>::from_data(TensorData::new(flat, [n_chains, dim]), &B::Device::default());
                other.step();
                Some(positions_of::<T, B>(&other.positions)[probe_row].clone())
            } else {
                None
            };
            verif_hooks::tl_enable();
            s.step();
            let ev = verif_hooks::tl_drain();
            let after = positions_of::<T, B>(&s.positions);
            let (Some(mom), Some(uni), Some(prop), Some(pmom), Some(acc)) = (
                event(&ev, "hmc momentum "),
                event(&ev, "hmc uniform "),
                event(&ev, "hmc proposed_pos "),
                event(&ev, "hmc proposed_mom "),
                event(&ev, "hmc accept "),
            ) else {
                out.fail(&id, "C02:no-trace", "HMC::step produced no hook trace", size, format!("{} events", ev.len()));
                return;
            };
            let mom = parse_hex_list(mom);
            let uni = parse_hex_list(uni);
            let prop = parse_hex_list(prop);
            let pmom = parse_hex_list(pmom);
            let acc: Vec<bool> = acc.split(',').map(|x| x == "1").collect();
            out.count("steps");
            for i in 0..n_chains {
                let old = &before[i];
                let new = &after[i];
                let pr = &prop[i * dim..(i + 1) * dim];
                let same = |a: &[f64], b: &[f64]| a.iter().zip(b.iter()).all(|(x, y)| x.to_bits() == y.to_bits() || (x == y));
                out.count("predicate_evaluations");
                // the row is its old value or the proposal, bit for bit; the mask says which
                if !(same(new, old) || same(new, pr)) {
                    out.fail(&id, "C02:blend", "a row after the step is neither its previous value nor the proposal", size, format!("row {i} step {step}"));
                } else if !same(old, pr) && same(new, pr) != acc[i] {
                    out.fail(&id, "C02:mask", "accept mask and resulting row disagree", size, format!("row {i} step {step}"));
                }
                if same(new, old) && !same(old, pr) {
                    out.count("rows_rejected");
                } else {
                    out.count("rows_accepted");
                }
            }
            // energy error of every row of this step (from the hook's log-densities and momenta)
            let lp0 = event(&ev, "hmc logp_current ").map(parse_hex_list).unwrap_or_default();
            let lp1 = event(&ev, "hmc logp_proposed ").map(parse_hex_list).unwrap_or_default();
            let dh: Vec<f64> = (0..n_chains)
                .map(|i| {
                    let k0: f64 = mom[i * dim..(i + 1) * dim].iter().map(|x| x * x).sum::<f64>() * 0.5;
                    let k1: f64 = pmom[i * dim..(i + 1) * dim].iter().map(|x| x * x).sum::<f64>() * 0.5;
                    (-lp0.get(i).copied().unwrap_or(f64::NAN) + k0) - (-lp1.get(i).copied().unwrap_or(f64::NAN) + k1)
                })
                .collect();
            let gentle = |i: usize| dh[i].is_finite() && dh[i].abs() < 0.05 && (l as f64) * eps <= 2.0 && eps <= 0.3;
            if let Some(ind) = independent {
                let a = &after[probe_row];
                // bit-identity cannot be demanded: the tensor backend's SIMD kernels group neighbouring elements, so the
                // rounding of one element may depend on its lane neighbours (observed: 1 ulp in a gradient). A genuine
                // leak (shared draw, batch mean, …) moves the row by far more than accumulated rounding on a gentle trajectory.
                let tol = if T::NAME == "f32" { 2e-3 } else { 1e-9 };
                let moved_same = a.iter().zip(ind.iter()).all(|(x, y)| (x - y).abs() <= tol * (1.0 + x.abs()));
                let margin_ok = (dh[probe_row] - uni[probe_row].ln()).abs() > 0.01;
                if gentle(probe_row) && margin_ok && !moved_same {
                    out.fail(&id, "C02:row-leak", "a row's update depends on the other rows of the batch", size, format!("target {} L={l} eps={eps} chains={n_chains} row {probe_row}: {a:?} vs {ind:?}", target.name()));
                }
                out.count("row_independence_probes");
            }
            // model cases for a few rows
            let mut rows: Vec<usize> = which_rows.clone();
            rows.sort();
            rows.dedup();
            for i in rows {
                let cid = format!("{id}.{step}.{i}");
                let case = format!(
                    "c02 {cid} {} {l} {} ; {spec} ; {} ; {} ; {}",
                    T::NAME,
                    T::from64(eps).hex(),
                    hx(&before[i]),
                    hx(&mom[i * dim..(i + 1) * dim]),
                    T::from64(uni[i]).hex()
                );
                let moved = !after[i].iter().zip(before[i].iter()).all(|(x, y)| x.to_bits() == y.to_bits());
                let flag = if acc[i] { 1 } else { 0 };
                let _ = moved;
                let tight = target.exact_params();
                out.case(case, format!("{cid} {flag} {}", after[i].iter().map(|x| if tight { T::from64(*x).tok_tight() } else { T::from64(*x).tok() }).collect::<Vec<_>>().join(" ")));
                if tight && T::NAME == "f64" {
                    out.count("rows_compared_at_f64_accuracy");
                }
                out.nontrivial(&format!("{}:{}:{l}:{}:{}", T::NAME, target.name(), T::from64(eps).hex(), T::from64(before[i][0]).hex()));
            }
            // reversibility of the integrator on gentle trajectories: from (x', -p') back to (x, -p)
            if (0..n_chains).all(gentle) && step == 0 {
                let dev = B::Device::default();
                let pp: Vec<T> = prop.iter().map(|x| T::from64(*x)).collect();
                let pm: Vec<T> = pmom.iter().map(|x| T::from64(-*x)).collect();
                let mut probe = s.clone();
                let (bx, bp, _) = probe.verif_leapfrog(
                    Tensor::<B, 2>::from_data(TensorData::new(pp, [n_chains, dim]), &dev),
                    Tensor::<B, 2>::from_data(TensorData::new(pm, [n_chains, dim]), &dev),
                );
                let bx = positions_of::<T, B>(&bx);
                let bp = positions_of::<T, B>(&bp);
                let tol = if T::NAME == "f32" { 2e-3 } else { 1e-8 };
                let mut worst = 0.0f64;
                for i in 0..n_chains {
                    for j in 0..dim {
                        let scale = 1.0 + before[i][j].abs() + mom[i * dim + j].abs();
                        worst = worst.max((bx[i][j] - before[i][j]).abs() / scale).max((bp[i][j] + mom[i * dim + j]).abs() / scale);
                    }
                }
                out.count("predicate_evaluations");
                out.count("reversibility_probes");
                if worst.is_finite() && worst > tol * (1.0 + l as f64) {
                    out.fail(&id, "C02:not-reversible", "integrating back from (x', -p') does not return to (x, -p)", size, format!("worst relative deviation {worst} (L={l}, eps={eps})"));
                }
            }
        }
        out.count(&format!("target_{}", target.name()));
        out.count(&format!("scalar_{}", T::NAME));
        out.count(if l == 0 { "L_0" } else if l <= 2 { "L_1_2" } else { "L_ge_3" });
    });
}

pub fn run(out: &mut Out) {
    let mut rng = out.rng("c02");
    let n = out.n(70, 2500);
    for i in 0..n {
        let stress = i % 7 == 6;
        if i % 2 == 0 {
            one::<f32, Autodiff<NdArray<f32>>>(out, &mut rng, stress);
        } else {
            one::<f64, Autodiff<NdArray<f64>>>(out, &mut rng, stress);
        }
    }
}

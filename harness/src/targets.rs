//! Gradient targets used by the HMC / NUTS harnesses: the library's built-ins and harness-defined ones, behind one
//! type so that the samplers are instantiated once per (scalar, backend). `spec()` prints the target the way the
//! Lean driver's `parseTarget` reads it.
#![allow(dead_code)]
use crate::util::*;
use burn::tensor::backend::AutodiffBackend;
use burn::tensor::{Element, ElementConversion, Tensor, TensorData};
use mini_mcmc::distributions::{BatchedGradientTarget, DiffableGaussian2D, GradientTarget, Rosenbrock2D, RosenbrockND};
use num_traits::Float;

#[derive(Clone, Debug)]
pub enum AnyTarget {
    Gauss2 { mean: [f64; 2], cov: [[f64; 2]; 2] },
    Rosen2 { a: f64, b: f64 },
    RosenN,
    GaussD { mean: Vec<f64>, prec: Vec<f64> },
    Student { nu: f64 },
    Quartic,
    HalfLine { rate: f64 },
    LogBox,
    /// `Σ ln(sqrt(x_i)) - rate·x_i` on x > 0: value *and* autodiff gradient are NaN outside the support
    SqrtGamma { rate: f64 },
    /// standard normal whose log-density drops by `drop` outside the ball of squared radius `r2` (energy errors near the divergence bound)
    Cliff { r2: f64, drop: f64 },
    /// `GaussD` plus a constant: a log-density that is large in absolute value (energy differences are tiny next to it)
    GaussOff { mean: Vec<f64>, prec: Vec<f64>, off: f64 },
}

pub trait Sc: Float + Element + ElementConversion + std::fmt::Debug + num_traits::FloatConst + Send + Sync + 'static {
    const NAME: &'static str;
    fn hex(self) -> String;
    fn tok(self) -> String;
    /// like `tok`, but an f64 value is marked for the tight f64 comparison (`e…`: rel 1e-9) — used where model and
    /// implementation see bit-identical f64 parameters, so only the summation order can differ
    fn tok_tight(self) -> String;
    fn from64(x: f64) -> Self;
    fn to64(self) -> f64;
}
impl Sc for f32 {
    const NAME: &'static str = "f32";
    fn hex(self) -> String {
        h32(self)
    }
    fn tok(self) -> String {
        ts(self)
    }
    fn tok_tight(self) -> String {
        ts(self)
    }
    fn from64(x: f64) -> Self {
        x as f32
    }
    fn to64(self) -> f64 {
        self as f64
    }
}
impl Sc for f64 {
    const NAME: &'static str = "f64";
    fn hex(self) -> String {
        h64(self)
    }
    fn tok(self) -> String {
        td(self)
    }
    fn tok_tight(self) -> String {
        format!("e{:016x}", self.to_bits())
    }
    fn from64(x: f64) -> Self {
        x
    }
    fn to64(self) -> f64 {
        self
    }
}

impl AnyTarget {
    /// the parameters as the scalar type `T` stores them (so that model and implementation use identical values)
    pub fn spec<T: Sc>(&self) -> String {
        let h = |x: f64| T::from64(x).hex();
        match self {
            AnyTarget::Gauss2 { mean, cov } => format!("gauss2 {} {} {} {} {} {}", h(mean[0]), h(mean[1]), h(cov[0][0]), h(cov[0][1]), h(cov[1][0]), h(cov[1][1])),
            AnyTarget::Rosen2 { a, b } => format!("rosen2 {} {}", h(*a), h(*b)),
            AnyTarget::RosenN => "rosenN".into(),
            AnyTarget::GaussD { mean, prec } => format!("gaussd {} {} {}", mean.len(), mean.iter().map(|x| h(*x)).collect::<Vec<_>>().join(" "), prec.iter().map(|x| h(*x)).collect::<Vec<_>>().join(" ")),
            AnyTarget::Student { nu } => format!("student {}", h(*nu)),
            AnyTarget::Quartic => "quartic".into(),
            AnyTarget::HalfLine { rate } => format!("halfline {}", h(*rate)),
            AnyTarget::LogBox => "logbox".into(),
            AnyTarget::SqrtGamma { rate } => format!("sqrtgamma {}", h(*rate)),
            AnyTarget::Cliff { r2, drop } => format!("cliff {} {}", h(*r2), h(*drop)),
            AnyTarget::GaussOff { mean, prec, off } => format!("gaussoff {} {} {} {}", mean.len(), mean.iter().map(|x| h(*x)).collect::<Vec<_>>().join(" "), prec.iter().map(|x| h(*x)).collect::<Vec<_>>().join(" "), h(*off)),
        }
    }
    pub fn name(&self) -> &'static str {
        match self {
            AnyTarget::Gauss2 { .. } => "gauss2",
            AnyTarget::Rosen2 { .. } => "rosen2",
            AnyTarget::RosenN => "rosenN",
            AnyTarget::GaussD { .. } => "gaussd",
            AnyTarget::Student { .. } => "student",
            AnyTarget::Quartic => "quartic",
            AnyTarget::HalfLine { .. } => "halfline",
            AnyTarget::LogBox => "logbox",
            AnyTarget::SqrtGamma { .. } => "sqrtgamma",
            AnyTarget::Cliff { .. } => "cliff",
            AnyTarget::GaussOff { .. } => "gaussoff",
        }
    }
    /// f64 reference log-density (the harness's own copy of the target, used to judge visited states)
    pub fn logp64(&self, x: &[f64]) -> f64 {
        match self {
            AnyTarget::Gauss2 { mean, cov } => {
                let det = cov[0][0] * cov[1][1] - cov[0][1] * cov[1][0];
                let (d0, d1) = (x[0] - mean[0], x[1] - mean[1]);
                let q = (cov[1][1] * d0 * d0 - (cov[0][1] + cov[1][0]) * d0 * d1 + cov[0][0] * d1 * d1) / det;
                -0.5 * q - (2.0 * std::f64::consts::PI).ln() - 0.5 * det.ln()
            }
            AnyTarget::Rosen2 { a, b } => -((a - x[0]).powi(2) + b * (x[1] - x[0] * x[0]).powi(2)),
            AnyTarget::RosenN => -(0..x.len() - 1).map(|i| 100.0 * (x[i + 1] - x[i] * x[i]).powi(2) + (1.0 - x[i]).powi(2)).sum::<f64>(),
            AnyTarget::GaussD { mean, prec } => {
                let d = mean.len();
                let dx: Vec<f64> = (0..d).map(|i| x[i] - mean[i]).collect();
                -0.5 * (0..d).map(|i| dx[i] * (0..d).map(|j| prec[i * d + j] * dx[j]).sum::<f64>()).sum::<f64>()
            }
            AnyTarget::Student { nu } => -(nu + 1.0) / 2.0 * x.iter().map(|t| (1.0 + t * t / nu).ln()).sum::<f64>(),
            AnyTarget::Quartic => -x.iter().map(|t| t.powi(4) / 4.0).sum::<f64>(),
            AnyTarget::HalfLine { rate } => {
                if x[0] > 0.0 {
                    -rate * x[0] - 0.5 * x[1..].iter().map(|t| t * t).sum::<f64>()
                } else {
                    f64::NEG_INFINITY
                }
            }
            AnyTarget::LogBox => x.iter().map(|t| t.ln() + (1.0 - t).ln()).sum::<f64>(),
            AnyTarget::SqrtGamma { rate } => x.iter().map(|t| t.sqrt().ln() - rate * t).sum::<f64>(),
            AnyTarget::Cliff { r2, drop } => {
                let q = x.iter().map(|t| t * t).sum::<f64>();
                -0.5 * q - if q > *r2 { *drop } else { 0.0 }
            }
            AnyTarget::GaussOff { mean, prec, off } => {
                let d = mean.len();
                let dx: Vec<f64> = (0..d).map(|i| x[i] - mean[i]).collect();
                -0.5 * (0..d).map(|i| dx[i] * (0..d).map(|j| prec[i * d + j] * dx[j]).sum::<f64>()).sum::<f64>() + off
            }
        }
    }
    /// true if the implementation evaluates this target (and its autodiff gradient) at full f64 accuracy with exactly the
    /// parameters the model is given. Not so for the built-in `DiffableGaussian2D` (rounds its parameters to f32 even on
    /// an f64 backend) and for the harness's Student-t target (burn's autodiff of `div_scalar`/`log` on the f64 ndarray
    /// backend is only f32-accurate: observed 1e-9..1e-6 relative deviations from the closed-form gradient — a property
    /// of the tensor library, outside the repository).
    pub fn exact_params(&self) -> bool {
        !matches!(self, AnyTarget::Gauss2 { .. } | AnyTarget::Student { .. })
    }
    /// targets on which every leapfrog trajectory turns around after a bounded number of steps at an ordinary step size
    /// (light tails / bounded support), so that a transition that runs for a minute is a hang and not a long excursion
    pub fn bounded_periods(&self) -> bool {
        matches!(self, AnyTarget::Gauss2 { .. } | AnyTarget::GaussD { .. } | AnyTarget::GaussOff { .. } | AnyTarget::LogBox | AnyTarget::SqrtGamma { .. } | AnyTarget::Cliff { .. } | AnyTarget::HalfLine { .. })
    }
    pub fn dim_fixed(&self) -> Option<usize> {
        match self {
            AnyTarget::Gauss2 { .. } | AnyTarget::Rosen2 { .. } => Some(2),
            AnyTarget::GaussD { mean, .. } | AnyTarget::GaussOff { mean, .. } => Some(mean.len()),
            _ => None,
        }
    }
}

fn vec_tensor<B: AutodiffBackend, T: Sc>(v: &[f64], shape: [usize; 2]) -> Tensor<B, 2> {
    let data: Vec<T> = v.iter().map(|x| T::from64(*x)).collect();
    Tensor::<B, 2>::from_data(TensorData::new(data, shape), &B::Device::default())
}

impl<T: Sc, B: AutodiffBackend> BatchedGradientTarget<T, B> for AnyTarget {
    fn unnorm_logp_batch(&self, positions: Tensor<B, 2>) -> Tensor<B, 1> {
        let (n, d) = (positions.dims()[0], positions.dims()[1]);
        match self {
            AnyTarget::Gauss2 { mean, cov } => {
                let t = DiffableGaussian2D::<T>::new([T::from64(mean[0]), T::from64(mean[1])], [[T::from64(cov[0][0]), T::from64(cov[0][1])], [T::from64(cov[1][0]), T::from64(cov[1][1])]]);
                <DiffableGaussian2D<T> as BatchedGradientTarget<T, B>>::unnorm_logp_batch(&t, positions)
            }
            AnyTarget::Rosen2 { a, b } => {
                let t = Rosenbrock2D::<T> { a: T::from64(*a), b: T::from64(*b) };
                <Rosenbrock2D<T> as BatchedGradientTarget<T, B>>::unnorm_logp_batch(&t, positions)
            }
            AnyTarget::RosenN => <RosenbrockND as BatchedGradientTarget<T, B>>::unnorm_logp_batch(&RosenbrockND {}, positions),
            AnyTarget::GaussD { mean, prec } => {
                let m = vec_tensor::<B, T>(mean, [1, d]).expand([n, d]);
                let p = vec_tensor::<B, T>(prec, [d, d]);
                let delta = positions - m;
                let z = delta.clone().matmul(p);
                (z * delta).sum_dim(1).squeeze::<1>(1).mul_scalar(T::from64(-0.5))
            }
            AnyTarget::Student { nu } => {
                let x2 = positions.clone() * positions;
                x2.div_scalar(T::from64(*nu)).add_scalar(T::from64(1.0)).log().sum_dim(1).squeeze::<1>(1).mul_scalar(T::from64(-(nu + 1.0) / 2.0))
            }
            AnyTarget::Quartic => {
                let x2 = positions.clone() * positions;
                (x2.clone() * x2).sum_dim(1).squeeze::<1>(1).mul_scalar(T::from64(-0.25))
            }
            AnyTarget::HalfLine { rate } => {
                let x0 = positions.clone().slice([0..n, 0..1]);
                let sq = (positions.clone() * positions).sum_dim(1) - x0.clone() * x0.clone();
                let base = x0.clone().mul_scalar(T::from64(-*rate)) - sq.mul_scalar(T::from64(0.5));
                let outside = x0.lower_equal_elem(T::from64(0.0));
                base.mask_fill(outside, T::from64(f64::NEG_INFINITY)).squeeze::<1>(1)
            }
            AnyTarget::LogBox => {
                let one_minus = positions.clone().neg().add_scalar(T::from64(1.0));
                (positions.log() + one_minus.log()).sum_dim(1).squeeze::<1>(1)
            }
            AnyTarget::SqrtGamma { rate } => (positions.clone().sqrt().log() - positions.mul_scalar(T::from64(*rate))).sum_dim(1).squeeze::<1>(1),
            AnyTarget::GaussOff { mean, prec, off } => {
                let m = vec_tensor::<B, T>(mean, [1, d]).expand([n, d]);
                let p = vec_tensor::<B, T>(prec, [d, d]);
                let delta = positions - m;
                let z = delta.clone().matmul(p);
                (z * delta).sum_dim(1).squeeze::<1>(1).mul_scalar(T::from64(-0.5)).add_scalar(T::from64(*off))
            }
            AnyTarget::Cliff { r2, drop } => {
                let q = (positions.clone() * positions).sum_dim(1);
                let outside = q.clone().greater_elem(T::from64(*r2));
                let base = q.mul_scalar(T::from64(-0.5));
                let dropped = base.clone().sub_scalar(T::from64(*drop));
                base.mask_where(outside, dropped).squeeze::<1>(1)
            }
        }
    }
}

impl<T: Sc, B: AutodiffBackend> GradientTarget<T, B> for AnyTarget {
    fn unnorm_logp(&self, position: Tensor<B, 1>) -> Tensor<B, 1> {
        match self {
            AnyTarget::Gauss2 { mean, cov } => {
                let t = DiffableGaussian2D::<T>::new([T::from64(mean[0]), T::from64(mean[1])], [[T::from64(cov[0][0]), T::from64(cov[0][1])], [T::from64(cov[1][0]), T::from64(cov[1][1])]]);
                <DiffableGaussian2D<T> as GradientTarget<T, B>>::unnorm_logp(&t, position)
            }
            AnyTarget::Rosen2 { a, b } => {
                let t = Rosenbrock2D::<T> { a: T::from64(*a), b: T::from64(*b) };
                <Rosenbrock2D<T> as GradientTarget<T, B>>::unnorm_logp(&t, position)
            }
            _ => {
                let d = position.dims()[0];
                let batch: Tensor<B, 2> = position.reshape([1, d]);
                <AnyTarget as BatchedGradientTarget<T, B>>::unnorm_logp_batch(self, batch)
            }
        }
    }
}

/// random target of a given family
pub fn random_target(rng: &mut Sm, family: u64, dim: usize) -> (AnyTarget, usize) {
    match family {
        0 => {
            let th = rng.uniform(0.0, 3.14);
            let (l1, l2) = (rng.log_uniform(0.3, 5.0), rng.log_uniform(0.3, 5.0));
            let (c, s) = (th.cos(), th.sin());
            let cov = [[c * c * l1 + s * s * l2, c * s * (l1 - l2)], [c * s * (l1 - l2), s * s * l1 + c * c * l2]];
            (AnyTarget::Gauss2 { mean: [rng.normal(), rng.normal()], cov }, 2)
        }
        1 => (AnyTarget::Rosen2 { a: rng.uniform(0.5, 1.5), b: rng.log_uniform(1.0, 100.0) }, 2),
        2 => (AnyTarget::RosenN, dim.max(2)),
        3 => {
            // random SPD precision: A Aᵀ + I
            let d = dim;
            let a: Vec<f64> = (0..d * d).map(|_| rng.normal() * 0.6).collect();
            let mut p = vec![0.0; d * d];
            for i in 0..d {
                for j in 0..d {
                    p[i * d + j] = (0..d).map(|k| a[i * d + k] * a[j * d + k]).sum::<f64>() + if i == j { 0.5 } else { 0.0 };
                }
            }
            (AnyTarget::GaussD { mean: (0..d).map(|_| rng.normal()).collect(), prec: p }, d)
        }
        4 => (AnyTarget::Student { nu: rng.uniform(1.0, 8.0) }, dim),
        5 => (AnyTarget::Quartic, dim),
        6 => (AnyTarget::HalfLine { rate: rng.uniform(0.5, 3.0) }, dim),
        9 => (AnyTarget::SqrtGamma { rate: rng.uniform(0.5, 3.0) }, dim),
        10 => {
            let (t, d) = random_target(rng, 3, dim);
            let AnyTarget::GaussD { mean, prec } = t else { unreachable!() };
            // the constant is chosen by the caller's scalar type through `off_scale` below: here a placeholder of 1.0 x sign
            (AnyTarget::GaussOff { mean, prec, off: if rng.coin(0.5) { -1.0 } else { 1.0 } }, d)
        }
        8 => (AnyTarget::Cliff { r2: rng.uniform(1.0, 9.0), drop: 1000.0 + rng.uniform(0.02, 2.5) }, dim),
        _ => (AnyTarget::LogBox, dim),
    }
}

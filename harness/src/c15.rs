//! C15 — built-in densities, gradients and the proposal density match their definitions.
use crate::util::*;
use burn::backend::{Autodiff, NdArray};
use burn::tensor::{Tensor, TensorData};
use mini_mcmc::distributions::{
    BatchedGradientTarget, DiffableGaussian2D, Gaussian2D, GradientTarget, IsotropicGaussian, Normalized, Proposal, Rosenbrock2D,
    RosenbrockND, Target,
};
use ndarray::{arr1, arr2};
use rand::rngs::SmallRng;
use rand::SeedableRng;
use rand_distr::{Distribution, StandardNormal};

type B32 = Autodiff<NdArray<f32>>;
type B64 = Autodiff<NdArray<f64>>;

/// random SPD 2x2 covariance with condition number up to `cond`
fn spd(rng: &mut Sm, cond: f64) -> [[f64; 2]; 2] {
    let th = rng.uniform(0.0, std::f64::consts::PI);
    let l1 = rng.log_uniform(0.05, 20.0);
    let l2 = l1 / rng.log_uniform(1.0, cond);
    let (c, s) = (th.cos(), th.sin());
    let a = c * c * l1 + s * s * l2;
    let b = c * s * (l1 - l2);
    let d = s * s * l1 + c * c * l2;
    [[a, b], [b, d]]
}

macro_rules! float_cases {
    ($out:ident, $rng:ident, $T:ty, $B:ty, $tyname:expr, $hex:ident, $tok:ident) => {{
        // ---------- Gaussian2D: normalised and unnormalised
        {
            let id = $out.fresh_id("g2");
            let cov = spd(&mut $rng, 1e4);
            let (m0, m1) = ($rng.normal() * 3.0, $rng.normal() * 3.0);
            let (x0, x1) = (m0 + $rng.normal() * 4.0, m1 + $rng.normal() * 4.0);
            if $out.selected(&id) {
                guard_case($out, &id.clone(), "C15:panic", 1, |out| {
                    let g = Gaussian2D::<$T> { mean: arr1(&[m0 as $T, m1 as $T]), cov: arr2(&[[cov[0][0] as $T, cov[0][1] as $T], [cov[1][0] as $T, cov[1][1] as $T]]) };
                    let x = [x0 as $T, x1 as $T];
                    let lp: $T = Normalized::logp(&g, &x);
                    let un: $T = Target::unnorm_logp(&g, &x);
                    let toks = [m0 as $T, m1 as $T, cov[0][0] as $T, cov[0][1] as $T, cov[1][0] as $T, cov[1][1] as $T, x0 as $T, x1 as $T];
                    out.case(format!("c15g2 {id} {} {}", $tyname, toks.iter().map(|v| $hex(*v)).collect::<Vec<_>>().join(" ")), format!("{id} {} {}", $tok(lp), $tok(un)));
                    // implementation-only predicate: normalised - unnormalised is the same constant at another point
                    let y = [x0 as $T + 1.5, x1 as $T - 0.75];
                    let c1 = lp - un;
                    let c2: $T = Normalized::logp(&g, &y) - Target::unnorm_logp(&g, &y);
                    out.count("predicate_evaluations");
                    if ((c1 - c2) as f64).abs() > 2e-3 * (1.0 + (c1 as f64).abs()) + 1e-3 * (lp as f64).abs().max((un as f64).abs()) * (<$T>::EPSILON as f64) * 1e4 {
                        out.fail(&id, "C15:gauss2d-const", "normalised minus unnormalised log-density is not constant", 1, format!("{c1} vs {c2}"));
                    }
                    out.count(&format!("gaussian2d_{}", $tyname));
                    out.nontrivial(&format!("g2:{}:{}", $tyname, $hex(x0 as $T)));
                });
            }
        }
        // ---------- DiffableGaussian2D: batched, single, autodiff gradients (the ones HMC / NUTS use)
        {
            let id = $out.fresh_id("dg");
            // a third of the cases: a well-conditioned covariance of small overall scale (determinant far below the
            // scalar type's epsilon), everything else scaled along with it
            let sc = if $rng.below(3) == 0 { $rng.log_uniform((<$T>::EPSILON as f64).powf(0.9), 1e-2) } else { 1.0 };
            let cov = { let c = spd(&mut $rng, if sc < 1.0 { 10.0 } else { 1e4 }); [[c[0][0] * sc, c[0][1] * sc], [c[1][0] * sc, c[1][1] * sc]] };
            let (m0, m1) = ($rng.normal() * 2.0 * sc.sqrt(), $rng.normal() * 2.0 * sc.sqrt());
            let n = $rng.range(1, 64) as usize;
            let pts: Vec<$T> = (0..2 * n).map(|i| ((if i % 2 == 0 { m0 } else { m1 }) + $rng.normal() * 3.0 * sc.sqrt()) as $T).collect();
            if $out.selected(&id) {
                guard_case($out, &id.clone(), "C15:panic", n as u64, |out| {
                    let t = DiffableGaussian2D::<$T>::new([m0 as $T, m1 as $T], [[cov[0][0] as $T, cov[0][1] as $T], [cov[1][0] as $T, cov[1][1] as $T]]);
                    let dev = Default::default();
                    let pos = Tensor::<$B, 2>::from_data(TensorData::new(pts.clone(), [n, 2]), &dev).require_grad();
                    let lp = <DiffableGaussian2D<$T> as BatchedGradientTarget<$T, $B>>::unnorm_logp_batch(&t, pos.clone());
                    let grads = pos.grad(&lp.backward()).unwrap();
                    let lpv: Vec<$T> = lp.to_data().to_vec().unwrap();
                    let gv: Vec<$T> = grads.to_data().to_vec().unwrap();
                    let mut toks = vec![];
                    for k in 0..n {
                        let p1 = Tensor::<$B, 1>::from_data(TensorData::new(pts[2 * k..2 * k + 2].to_vec(), [2]), &dev);
                        let (sl, sg) = <DiffableGaussian2D<$T> as GradientTarget<$T, $B>>::unnorm_logp_and_grad(&t, p1);
                        let sl: Vec<$T> = sl.to_data().to_vec().unwrap();
                        let sg: Vec<$T> = sg.to_data().to_vec().unwrap();
                        toks.push(format!("{} {} {} {}", $tok(lpv[k]), $tok(sl[0]), $tok(sg[0]), $tok(sg[1])));
                        // batched gradient (HMC) and single-point gradient (NUTS) of the same density must agree
                        out.count("predicate_evaluations");
                        for j in 0..2 {
                            let (a, b) = (gv[2 * k + j] as f64, sg[j] as f64);
                            if (a - b).abs() > 2e-3 * a.abs().max(b.abs()) + 1e-4 {
                                out.fail(&id, "C15:batch-vs-single-grad", "batched and single-point gradients disagree", n as u64, format!("{a} vs {b}"));
                            }
                        }
                    }
                    let par = [m0 as $T, m1 as $T, cov[0][0] as $T, cov[0][1] as $T, cov[1][0] as $T, cov[1][1] as $T];
                    out.case(
                        format!("c15dg {id} {} {} ; {}", $tyname, par.iter().map(|v| $hex(*v)).collect::<Vec<_>>().join(" "), pts.iter().map(|v| $hex(*v)).collect::<Vec<_>>().join(" ")),
                        format!("{id} {}", toks.join(" ")),
                    );
                    out.count(&format!("diffable_gaussian_{}", $tyname));
                    if sc < 1.0 {
                        out.count("diffable_gaussian_small_scale");
                    }
                    out.nontrivial(&format!("dg:{}:{n}:{}", $tyname, $hex(pts[0])));
                });
            }
        }
        // ---------- IsotropicGaussian proposal: logp both ways, unnormalised, sample = from + std * z, set_seed
        {
            let id = $out.fresh_id("iso");
            let std = $rng.log_uniform(1e-3, 1e3);
            let d = $rng.range(1, 32) as usize;
            let from: Vec<$T> = (0..d).map(|_| ($rng.normal() * 5.0) as $T).collect();
            let to: Vec<$T> = from.iter().map(|f| (*f as f64 + std * $rng.normal()) as $T).collect();
            let seed = $rng.next();
            if $out.selected(&id) {
                guard_case($out, &id.clone(), "C15:panic", d as u64, |out| {
                    // half of the time the proposal is built with another width and `std` is then set through the public
                    // field (adaptive tuning): logp / sample must follow the current value
                    let retuned = seed % 2 == 0;
                    let mut p = IsotropicGaussian::<$T>::new(if retuned { (std * 7.5) as $T } else { std as $T });
                    p.std = std as $T;
                    if retuned {
                        out.count("isotropic_std_changed_after_construction");
                    }
                    let l1: $T = Proposal::logp(&p, &from, &to);
                    let l2: $T = Proposal::logp(&p, &to, &from);
                    let un: $T = Target::unnorm_logp(&p, &to);
                    out.case(
                        format!("c15iso {id} {} {} ; {} ; {}", $tyname, $hex(std as $T), from.iter().map(|v| $hex(*v)).collect::<Vec<_>>().join(" "), to.iter().map(|v| $hex(*v)).collect::<Vec<_>>().join(" ")),
                        format!("{id} {} {} {}", $tok(l1), $tok(l2), $tok(un)),
                    );
                    out.count("predicate_evaluations");
                    if l1.to_bits() != l2.to_bits() && ((l1 - l2) as f64).abs() > 1e-5 * (l1 as f64).abs() {
                        out.fail(&id, "C15:iso-asymmetric", "IsotropicGaussian::logp is not symmetric in its arguments", d as u64, format!("{l1} vs {l2}"));
                    }
                    // sample: reproducible under set_seed, and equal to from + std * z for the reference normal stream
                    let mut a = IsotropicGaussian::<$T>::new(if retuned { (std * 0.1) as $T } else { std as $T }).set_seed(seed);
                    a.std = std as $T;
                    let mut b = IsotropicGaussian::<$T>::new(std as $T).set_seed(seed);
                    let sa = a.sample(&from);
                    let sb = b.sample(&from);
                    if sa.iter().map(|x| x.to_bits()).collect::<Vec<_>>() != sb.iter().map(|x| x.to_bits()).collect::<Vec<_>>() {
                        out.fail(&id, "C15:iso-seed", "set_seed does not make the proposal's draws reproducible", d as u64, format!("seed={seed}"));
                    }
                    let mut r = SmallRng::seed_from_u64(seed);
                    let zs: Vec<$T> = (0..d).map(|_| StandardNormal.sample(&mut r)).collect();
                    let exact = sa.iter().zip(zs.iter()).zip(from.iter()).all(|((s, z), f)| s.to_bits() == ((0.0 as $T + (std as $T) * *z) + *f).to_bits());
                    if exact {
                        out.count("iso_sample_matches_reference_stream");
                    } else {
                        // a different but valid way of drawing: moments of (sample - from)/std over many draws
                        let mut c = IsotropicGaussian::<$T>::new(std as $T).set_seed(seed);
                        let zero: Vec<$T> = vec![0.0; 64];
                        let mut xs = vec![];
                        for _ in 0..256 {
                            xs.extend(c.sample(&zero).iter().map(|v| *v as f64 / std));
                        }
                        let n = xs.len() as f64;
                        let mean = xs.iter().sum::<f64>() / n;
                        let var = xs.iter().map(|x| (x - mean) * (x - mean)).sum::<f64>() / n;
                        if mean.abs() > 6.0 / n.sqrt() || (var - 1.0).abs() > 6.0 * (2.0 / n).sqrt() {
                            out.fail(&id, "C15:iso-sample-law", "sample() does not draw from mean `from`, standard deviation `std`", d as u64, format!("standardised mean {mean}, variance {var}"));
                        }
                        out.count("iso_sample_checked_statistically");
                    }
                    out.count(&format!("isotropic_{}", $tyname));
                    out.nontrivial(&format!("iso:{}:{d}:{}", $tyname, $hex(std as $T)));
                });
            }
        }
        // ---------- Rosenbrock2D: batched + single, autodiff gradient
        {
            let id = $out.fresh_id("r2");
            let (a, b) = ($rng.uniform(0.5, 2.0), $rng.log_uniform(1.0, 200.0));
            let n = $rng.range(1, 32) as usize;
            let pts: Vec<$T> = (0..2 * n).map(|_| ($rng.normal() * 1.5) as $T).collect();
            if $out.selected(&id) {
                guard_case($out, &id.clone(), "C15:panic", n as u64, |out| {
                    let t = Rosenbrock2D::<$T> { a: a as $T, b: b as $T };
                    let dev = Default::default();
                    let pos = Tensor::<$B, 2>::from_data(TensorData::new(pts.clone(), [n, 2]), &dev).require_grad();
                    let lp = <Rosenbrock2D<$T> as BatchedGradientTarget<$T, $B>>::unnorm_logp_batch(&t, pos.clone());
                    let grads = pos.grad(&lp.backward()).unwrap();
                    let lpv: Vec<$T> = lp.to_data().to_vec().unwrap();
                    let gv: Vec<$T> = grads.to_data().to_vec().unwrap();
                    let mut toks = vec![];
                    for k in 0..n {
                        toks.push(format!("{} {} {}", $tok(lpv[k]), $tok(gv[2 * k]), $tok(gv[2 * k + 1])));
                        let p1 = Tensor::<$B, 1>::from_data(TensorData::new(pts[2 * k..2 * k + 2].to_vec(), [2]), &dev);
                        let (sl, sg) = <Rosenbrock2D<$T> as GradientTarget<$T, $B>>::unnorm_logp_and_grad(&t, p1);
                        let sl: Vec<$T> = sl.to_data().to_vec().unwrap();
                        let sg: Vec<$T> = sg.to_data().to_vec().unwrap();
                        out.count("predicate_evaluations");
                        let close = |x: f64, y: f64| (x - y).abs() <= 2e-3 * x.abs().max(y.abs()) + 1e-4;
                        if !close(sl[0] as f64, lpv[k] as f64) || !close(sg[0] as f64, gv[2 * k] as f64) || !close(sg[1] as f64, gv[2 * k + 1] as f64) {
                            out.fail(&id, "C15:rosen2d-batch-vs-single", "Rosenbrock2D batched and single-point evaluations disagree", n as u64, format!("{sl:?} {sg:?}"));
                        }
                    }
                    out.case(
                        format!("c15r2 {id} {} {} {} ; {}", $tyname, $hex(a as $T), $hex(b as $T), pts.iter().map(|v| $hex(*v)).collect::<Vec<_>>().join(" ")),
                        format!("{id} {}", toks.join(" ")),
                    );
                    out.count(&format!("rosenbrock2d_{}", $tyname));
                    out.nontrivial(&format!("r2:{}:{n}:{}", $tyname, $hex(pts[0])));
                });
            }
        }
        // ---------- RosenbrockND: batched, autodiff gradient
        {
            let id = $out.fresh_id("rn");
            let dim = $rng.range(2, 32) as usize;
            let n = $rng.range(1, 16) as usize;
            let pts: Vec<$T> = (0..dim * n).map(|_| ($rng.normal() * 1.2) as $T).collect();
            if $out.selected(&id) {
                guard_case($out, &id.clone(), "C15:panic", (n * dim) as u64, |out| {
                    let t = RosenbrockND {};
                    let dev = Default::default();
                    let pos = Tensor::<$B, 2>::from_data(TensorData::new(pts.clone(), [n, dim]), &dev).require_grad();
                    let lp = <RosenbrockND as BatchedGradientTarget<$T, $B>>::unnorm_logp_batch(&t, pos.clone());
                    let grads = pos.grad(&lp.backward()).unwrap();
                    let lpv: Vec<$T> = lp.to_data().to_vec().unwrap();
                    let gv: Vec<$T> = grads.to_data().to_vec().unwrap();
                    let toks: Vec<String> = (0..n)
                        .map(|k| format!("{} {}", $tok(lpv[k]), gv[k * dim..(k + 1) * dim].iter().map(|v| $tok(*v)).collect::<Vec<_>>().join(" ")))
                        .collect();
                    out.case(
                        format!("c15rn {id} {} {dim} ; {}", $tyname, pts.iter().map(|v| $hex(*v)).collect::<Vec<_>>().join(" ")),
                        format!("{id} {}", toks.join(" ")),
                    );
                    out.count(&format!("rosenbrocknd_{}", $tyname));
                    out.nontrivial(&format!("rn:{}:{dim}:{n}:{}", $tyname, $hex(pts[0])));
                });
            }
        }
    }};
}

pub fn run(out: &mut Out) {
    let mut rng = out.rng("c15");
    let n = out.n(60, 1500);
    for i in 0..n {
        if i % 2 == 0 {
            float_cases!(out, rng, f64, B64, "f64", h64, td);
        } else {
            float_cases!(out, rng, f32, B32, "f32", h32, ts);
        }
    }
}

//! C10 — progress mode: same draws, always terminates, any precision.
use crate::c07::{run_kind, Kind, KINDS};
use crate::util::*;
use burn::backend::{Autodiff, NdArray};
use mini_mcmc::core::{run_chain, run_chain_progress, ChainRunner, HasChains, MarkovChain};
use mini_mcmc::distributions::{DiffableGaussian2D, Rosenbrock2D};
use mini_mcmc::hmc::HMC;
use mini_mcmc::nuts::NUTS;
use mini_mcmc::stats::{ChainStats, RunStats};
use mini_mcmc::verif_hooks;
use std::sync::mpsc;
use std::time::Duration;

/// a chain whose state counts its transitions and whose speed is scripted
#[derive(Clone, Debug)]
struct SleepChain {
    state: Vec<f64>,
    micros: u64,
}
impl MarkovChain<f64> for SleepChain {
    fn step(&mut self) -> &Vec<f64> {
        if self.micros > 0 {
            std::thread::sleep(Duration::from_micros(self.micros));
        }
        self.state[1] += 1.0;
        &self.state
    }
    fn current_state(&self) -> &Vec<f64> {
        &self.state
    }
}
struct SleepSampler {
    chains: Vec<SleepChain>,
}
impl HasChains<f64> for SleepSampler {
    type Chain = SleepChain;
    fn chains_mut(&mut self) -> &mut Vec<SleepChain> {
        &mut self.chains
    }
}

/// run `f` on its own thread; None if it does not finish within `secs`
fn watchdog<R: Send + 'static>(secs: u64, f: impl FnOnce() -> R + Send + 'static) -> Option<Result<R, String>> {
    let (tx, rx) = mpsc::channel();
    std::thread::spawn(move || {
        let r = std::panic::catch_unwind(std::panic::AssertUnwindSafe(f)).map_err(|e| {
            if let Some(s) = e.downcast_ref::<&str>() {
                s.to_string()
            } else if let Some(s) = e.downcast_ref::<String>() {
                s.clone()
            } else {
                "panic".into()
            }
        });
        let _ = tx.send(r);
    });
    rx.recv_timeout(Duration::from_secs(secs)).ok()
}

/// parse the hook lines `reporter total=T mr=[Some(3), None] active=[0, 1] next=2 fin=0`
fn parse_trace(events: &[String]) -> Option<(u64, Vec<String>, Vec<String>)> {
    let mut total = 0;
    let mut mrs = vec![];
    let mut states = vec![];
    for e in events.iter().filter(|e| e.starts_with("reporter ")) {
        let get = |key: &str| -> Option<String> {
            let i = e.find(key)? + key.len();
            let rest = &e[i..];
            if rest.starts_with('[') {
                let j = rest.find(']')?;
                Some(rest[1..j].to_string())
            } else {
                Some(rest.split(' ').next()?.to_string())
            }
        };
        total = get("total=")?.parse().ok()?;
        let mr: Vec<String> = get("mr=")?
            .split(", ")
            .filter(|s| !s.is_empty())
            .map(|s| if s == "None" { "-".to_string() } else { s.trim_start_matches("Some(").trim_end_matches(')').to_string() })
            .collect();
        let active: Vec<String> = get("active=")?.split(", ").filter(|s| !s.is_empty()).map(|s| s.to_string()).collect();
        let next = get("next=")?;
        let fin = get("fin=")?;
        mrs.push(mr.join(" "));
        states.push(format!("a={} n={next} f={fin}", active.join(",")));
    }
    Some((total, mrs, states))
}

fn emit_trace(out: &mut Out, id: &str, n_chains: usize, events: &[String]) {
    match parse_trace(events) {
        Some((total, mrs, states)) if !mrs.is_empty() => {
            // the loop breaks right after the last recorded iteration
            let k = states.len();
            let line = states.iter().enumerate().map(|(i, s)| format!("{s} x={}", if i + 1 == k { 1 } else { 0 })).collect::<Vec<_>>().join(" | ");
            out.case(format!("c10 {id} {total} {n_chains} ; {}", mrs.join(" | ")), format!("{id} {line}"));
            out.count_n("reporter_iterations", k as u64);
            if n_chains > 5 {
                out.count("more_chains_than_bars");
            }
        }
        _ => out.fail(id, "C10:no-trace", "reporter trace missing or unparsable", n_chains as u64, format!("{} events", events.len())),
    }
}

pub fn run(out: &mut Out) {
    let mut rng = out.rng("c10");
    // (A) reporter bookkeeping under scripted completion orders
    let counts: Vec<usize> = if out.thorough() { (1..=48).collect() } else { vec![1, 2, 5, 6, 7, 11, 16, 33, 48] };
    for (k, n_chains) in counts.iter().enumerate() {
        let id = out.fresh_id("rep");
        let n_chains = *n_chains;
        let c = rng.range(4, 12) as usize;
        let d = rng.range(0, 6) as usize;
        let profile = k % 4;
        let jitter: Vec<u64> = (0..n_chains).map(|_| rng.below(400)).collect();
        if !out.selected(&id) {
            continue;
        }
        let total = (c + d) as u64;
        let chains: Vec<SleepChain> = (0..n_chains)
            .map(|i| {
                // per-step sleep so that a chain's whole run takes 0..~400 ms in the chosen order
                let budget_us = match profile {
                    0 => 0,                                                   // all instantly
                    1 => (i as u64 * 400_000) / n_chains as u64,              // in index order
                    2 => ((n_chains - 1 - i) as u64 * 400_000) / n_chains as u64, // reverse order: the last chain finishes first
                    _ => jitter[i] * 1000,                                     // random order
                };
                SleepChain { state: vec![i as f64, 0.0], micros: budget_us / total }
            })
            .collect();
        verif_hooks::global_enable();
        let res = watchdog(40, move || {
            let mut s = SleepSampler { chains };
            let (a, stats) = s.run_progress(c, d).map_err(|e| e.to_string())?;
            Ok::<_, String>((a, format!("{stats:?}"), s.chains.iter().map(|c| c.state[1]).collect::<Vec<_>>()))
        });
        let events = verif_hooks::global_drain();
        out.count("predicate_evaluations");
        match res {
            None => out.fail(&id, "C10:hang", "run_progress did not terminate (watchdog)", n_chains as u64, format!("chains={n_chains} c={c} d={d} profile={profile}")),
            Some(Err(p)) => out.fail(&id, "C10:panic", "run_progress panicked", n_chains as u64, p),
            Some(Ok(Err(e))) => out.fail(&id, "C10:error", "run_progress returned an error", n_chains as u64, e),
            Some(Ok(Ok((a, stats_dbg, counts)))) => {
                emit_trace(out, &id, n_chains, &events);
                // same draws as run(): row k of chain i is (i, d + k + 1); exactly c + d transitions
                let mut ok = a.shape() == [n_chains, c, 2];
                if ok {
                    for i in 0..n_chains {
                        for kk in 0..c {
                            ok &= a[[i, kk, 0]] == i as f64 && a[[i, kk, 1]] == (d + kk + 1) as f64;
                        }
                        ok &= counts[i] == (c + d) as f64;
                    }
                }
                if !ok {
                    out.fail(&id, "C10:draws-differ", "run_progress does not return the draws run() returns", n_chains as u64, format!("chains={n_chains} c={c} d={d}"));
                }
                let expect = format!("{:?}", RunStats::from(a.view()));
                if expect != stats_dbg {
                    out.fail(&id, "C10:diagnostics-differ", "diagnostics returned by run_progress differ from those of the returned draws", n_chains as u64, format!("{stats_dbg} vs {expect}"));
                }
                out.count(&format!("completion_profile_{profile}"));
                out.nontrivial(&format!("rep:{n_chains}:{c}:{d}:{profile}"));
            }
        }
    }
    // (A') the NUTS copy of the reporter
    for n_chains in if out.thorough() { vec![1usize, 2, 3, 5, 6, 7, 9, 12] } else { vec![1usize, 6] } {
        let id = out.fresh_id("nrep");
        let c = rng.range(4, 8) as usize;
        let d = rng.range(0, 4) as usize;
        let seed = rng.next();
        if !out.selected(&id) {
            continue;
        }
        verif_hooks::global_enable();
        let res = watchdog(120, move || run_kind(Kind::Nuts, n_chains, seed, c, d, true));
        let events = verif_hooks::global_drain();
        out.count("predicate_evaluations");
        match res {
            None => out.fail(&id, "C10:hang", "NUTS::run_progress did not terminate (watchdog)", n_chains as u64, format!("chains={n_chains} c={c} d={d}")),
            Some(Err(p)) => out.fail(&id, "C10:panic", "NUTS::run_progress panicked", n_chains as u64, p),
            Some(Ok(_)) => {
                emit_trace(out, &id, n_chains, &events);
                out.count("nuts_reporter_runs");
            }
        }
    }
    // (B) every sampler: progress draws == run draws from the same seed (NUTS: shifted by one draw), diagnostics of the draws
    for (k, kind) in KINDS.iter().enumerate() {
        let id = out.fresh_id("same");
        let n = rng.range(1, 7) as usize;
        let c = rng.range(4, 10) as usize;
        let d = rng.range(1, 5) as usize;
        let seed = rng.next();
        let kind = *kind;
        if !out.selected(&id) {
            continue;
        }
        let res = watchdog(120, move || (run_kind(kind, n, seed, c, d, true), run_kind(kind, n, seed, if kind == Kind::Nuts { c + 1 } else { c }, d, false)));
        out.count("predicate_evaluations");
        match res {
            None => out.fail(&id, "C10:hang", "run_progress did not terminate (watchdog)", n as u64, format!("{kind:?}")),
            Some(Err(p)) => out.fail(&id, &format!("C10:panic:{kind:?}"), "run_progress panicked", n as u64, p),
            Some(Ok((p, r))) => {
                let same = if kind == Kind::Nuts {
                    (0..n).all(|ch| (0..c).all(|kk| (0..2).all(|j| p[(ch * c + kk) * 2 + j] == r[(ch * (c + 1) + kk + 1) * 2 + j])))
                } else {
                    p == r
                };
                if !same {
                    out.fail(&id, &format!("C10:draws-differ:{kind:?}"), "run_progress does not return the draws run() returns from the same sampler state", n as u64, format!("{kind:?} seed={seed} chains={n} c={c} d={d}"));
                }
                out.count(&format!("same_draws_{kind:?}"));
            }
        }
        let _ = k;
    }
    // (B') precision: HMC and NUTS on f64 backends (and f32 scalars on an f64 backend), diagnostics = RunStats of the draws
    type B64 = Autodiff<NdArray<f64>>;
    type B32 = Autodiff<NdArray<f32>>;
    let precision_cases: Vec<(&str, Box<dyn FnOnce() -> Result<(String, String), String> + Send>)> = vec![
        ("hmc-f64-on-f64", Box::new(|| {
            let mut s = HMC::<f64, B64, _>::new(DiffableGaussian2D::new([0.0f64, 1.0], [[4.0, 2.0], [2.0, 3.0]]), vec![vec![0.1, 0.2]; 3], 0.2, 3).set_seed(5);
            let (t, st) = s.run_progress(8, 3).map_err(|e| e.to_string())?;
            let v: Vec<f64> = t.to_data().to_vec().unwrap();
            let mut r = HMC::<f64, B64, _>::new(DiffableGaussian2D::new([0.0f64, 1.0], [[4.0, 2.0], [2.0, 3.0]]), vec![vec![0.1, 0.2]; 3], 0.2, 3).set_seed(5);
            let w: Vec<f64> = r.run(8, 3).to_data().to_vec().unwrap();
            if v.iter().map(|x| x.to_bits()).collect::<Vec<_>>() != w.iter().map(|x| x.to_bits()).collect::<Vec<_>>() {
                return Err("draws differ from run() on the f64 backend".into());
            }
            let a = ndarray::Array3::from_shape_vec((3, 8, 2), v).unwrap();
            Ok((format!("{st:?}"), format!("{:?}", RunStats::from(a.view()))))
        })),
        ("hmc-f32-on-f32", Box::new(|| {
            let mut s = HMC::<f32, B32, _>::new(DiffableGaussian2D::new([0.0f32, 1.0], [[4.0, 2.0], [2.0, 3.0]]), vec![vec![0.1, 0.2]; 3], 0.2, 3).set_seed(5);
            let (t, st) = s.run_progress(8, 3).map_err(|e| e.to_string())?;
            let v: Vec<f32> = t.to_data().to_vec().unwrap();
            let a = ndarray::Array3::from_shape_vec((3, 8, 2), v).unwrap();
            Ok((format!("{st:?}"), format!("{:?}", RunStats::from(a.view()))))
        })),
        ("nuts-f64-on-f64", Box::new(|| {
            let mut s = NUTS::<f64, B64, _>::new(Rosenbrock2D { a: 1.0f64, b: 100.0 }, vec![vec![0.1, 0.2]; 2], 0.8).set_seed(7);
            let (t, st) = s.run_progress(6, 3).map_err(|e| e.to_string())?;
            let v: Vec<f64> = t.to_data().to_vec().unwrap();
            // the draws must be the full-precision trajectory run() returns (shifted by NUTS's one-draw offset)
            let mut r = NUTS::<f64, B64, _>::new(Rosenbrock2D { a: 1.0f64, b: 100.0 }, vec![vec![0.1, 0.2]; 2], 0.8).set_seed(7);
            let w: Vec<f64> = r.run(7, 3).to_data().to_vec().unwrap();
            for ch in 0..2 {
                for k in 0..6 {
                    for j in 0..2 {
                        if v[(ch * 6 + k) * 2 + j].to_bits() != w[(ch * 7 + k + 1) * 2 + j].to_bits() {
                            return Err(format!("draws differ from run() on the f64 backend: chain {ch} draw {k}: {} vs {}", v[(ch * 6 + k) * 2 + j], w[(ch * 7 + k + 1) * 2 + j]));
                        }
                    }
                }
            }
            let a = ndarray::Array3::from_shape_vec((2, 6, 2), v).unwrap();
            Ok((format!("{st:?}"), format!("{:?}", RunStats::from(a.view()))))
        })),
        ("nuts-f32-on-f32", Box::new(|| {
            let mut s = NUTS::<f32, B32, _>::new(Rosenbrock2D { a: 1.0f32, b: 100.0 }, vec![vec![0.1, 0.2]; 2], 0.8).set_seed(7);
            let (t, st) = s.run_progress(6, 3).map_err(|e| e.to_string())?;
            let v: Vec<f32> = t.to_data().to_vec().unwrap();
            let a = ndarray::Array3::from_shape_vec((2, 6, 2), v).unwrap();
            Ok((format!("{st:?}"), format!("{:?}", RunStats::from(a.view()))))
        })),
    ];
    for (name, f) in precision_cases {
        let id = out.fresh_id("prec");
        if !out.selected(&id) {
            continue;
        }
        out.count("predicate_evaluations");
        match watchdog(120, f) {
            None => out.fail(&id, &format!("C10:hang:{name}"), "run_progress did not terminate", 1, name.into()),
            Some(Err(p)) => out.fail(&id, &format!("C10:precision-panic:{name}"), "run_progress panicked on this element type / backend", 1, p),
            Some(Ok(Err(e))) => out.fail(&id, &format!("C10:precision-error:{name}"), "run_progress failed on this element type / backend", 1, e),
            Some(Ok(Ok((got, expect)))) => {
                if got != expect {
                    out.fail(&id, &format!("C10:diagnostics-differ:{name}"), "diagnostics differ from those computed from the returned draws", 1, format!("{got} vs {expect}"));
                }
                out.count(&format!("precision_{name}"));
            }
        }
    }
    // (C) a reporter that stops listening changes neither the draws nor termination of the worker
    for k in 0..out.n(9, 90) {
        let id = out.fresh_id("drop");
        let c = rng.range(1, 15) as usize;
        let d = rng.range(0, 8) as usize;
        let mode = k % 3;
        if !out.selected(&id) {
            continue;
        }
        let res = watchdog(30, move || {
            let mut chain = SleepChain { state: vec![7.0, 0.0], micros: if mode == 1 { 2000 } else { 0 } };
            let mut clone = chain.clone();
            clone.micros = 0;
            let (tx, rx) = mpsc::channel::<ChainStats>();
            let mut msgs = vec![];
            let got = match mode {
                0 => {
                    drop(rx); // before
                    run_chain_progress(&mut chain, c, d, tx)
                }
                1 => {
                    // during: the receiver goes away while the worker runs
                    let h = std::thread::spawn(move || {
                        std::thread::sleep(Duration::from_millis(3));
                        drop(rx);
                    });
                    let r = run_chain_progress(&mut chain, c, d, tx);
                    let _ = h.join();
                    r
                }
                _ => {
                    let r = run_chain_progress(&mut chain, c, d, tx);
                    while let Ok(m) = rx.try_recv() {
                        msgs.push(m.n);
                    }
                    drop(rx); // after
                    r
                }
            };
            let want = run_chain(&mut clone, c, d);
            (got.map(|a| a == want), msgs, chain.state[1])
        });
        out.count("predicate_evaluations");
        match res {
            None => out.fail(&id, "C10:worker-hang", "chain worker did not terminate after its receiver was dropped", (c + d) as u64, format!("mode={mode} c={c} d={d}")),
            Some(Err(p)) => out.fail(&id, "C10:worker-panic", "chain worker panicked after its receiver was dropped", (c + d) as u64, p),
            Some(Ok((Err(e), _, _))) => out.fail(&id, "C10:worker-error", "chain worker failed after its receiver was dropped", (c + d) as u64, e),
            Some(Ok((Ok(same), msgs, steps))) => {
                if !same || steps != (c + d) as f64 {
                    out.fail(&id, "C10:worker-draws-differ", "dropping the receiver changed the draws of the worker", (c + d) as u64, format!("mode={mode} c={c} d={d} steps={steps}"));
                }
                if mode == 2 {
                    // the messages of an undisturbed, fast worker: exactly the final one (the 1 s clock never fires)
                    out.case(format!("c10w {id} {c} {d}"), format!("{id} {} # {}", msgs.iter().map(|m| m.to_string()).collect::<Vec<_>>().join(" "), (d + 1..=d + c).map(|x| x.to_string()).collect::<Vec<_>>().join(" ")));
                }
                out.count(&format!("receiver_dropped_mode_{mode}"));
            }
        }
    }
}

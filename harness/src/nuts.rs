//! C03 (a NUTS transition is Algorithm 6) and C04 (dual-averaging step size, frozen after warm-up).
use crate::c02::parse_hex_list;
use crate::targets::*;
use crate::util::*;
use burn::backend::{Autodiff, NdArray};
use burn::tensor::backend::AutodiffBackend;
use burn::tensor::{Tensor, TensorData};
use mini_mcmc::distributions::GradientTarget;
use mini_mcmc::nuts::verif::{verif_build_tree, verif_find_reasonable_epsilon};
use mini_mcmc::nuts::NUTSChain;
use mini_mcmc::verif_hooks;
use rand::rngs::SmallRng;
use rand::{Rng, SeedableRng};
use rand_distr::{Exp1, StandardNormal, StandardUniform};

fn field<'a>(e: &'a str, key: &str) -> Option<&'a str> {
    let i = e.find(key)? + key.len();
    Some(e[i..].split(' ').next().unwrap_or(""))
}
fn fhex(e: &str, key: &str) -> f64 {
    f64::from_bits(u64::from_str_radix(field(e, key).unwrap_or("0"), 16).unwrap_or(0))
}
fn vec1<T: Sc, B: AutodiffBackend>(t: &Tensor<B, 1>) -> Vec<f64> {
    t.to_data().convert::<f64>().to_vec().unwrap()
}
fn t1<T: Sc, B: AutodiffBackend>(v: &[f64]) -> Tensor<B, 1> {
    let d: Vec<T> = v.iter().map(|x| T::from64(*x)).collect();
    Tensor::<B, 1>::from_data(TensorData::new(d, [v.len()]), &B::Device::default())
}

pub struct StepTrace {
    pub m: usize,
    pub eps: f64,
    pub pos0: Vec<f64>,
    pub mom: Vec<f64>,
    pub exp1: f64,
    pub logu: f64,
    pub leaves: Vec<(Vec<f64>, f64)>,
    pub sel: Vec<f64>,
    pub doublings: Vec<(f64, i32, usize, bool, f64, usize, bool, Vec<f64>)>,
    pub alpha: f64,
    pub n_alpha: usize,
    pub depth: usize,
    pub pos1: Vec<f64>,
}

pub fn parse_step(ev: &[String]) -> Option<StepTrace> {
    let start = ev.iter().find(|e| e.starts_with("nuts start "))?;
    let end = ev.iter().find(|e| e.starts_with("nuts end "))?;
    let mut tr = StepTrace {
        m: field(start, "m=")?.parse().ok()?,
        eps: fhex(start, "eps="),
        pos0: parse_hex_list(field(start, "pos=")?),
        mom: parse_hex_list(field(start, "mom=")?),
        exp1: fhex(start, "exp1="),
        logu: fhex(start, "logu="),
        leaves: vec![],
        sel: vec![],
        doublings: vec![],
        alpha: fhex(end, "alpha="),
        n_alpha: field(end, "n_alpha=")?.parse().ok()?,
        depth: field(end, "depth=")?.parse().ok()?,
        pos1: parse_hex_list(field(end, "pos=")?),
    };
    for e in ev {
        if e.starts_with("nuts leaf ") {
            tr.leaves.push((parse_hex_list(field(e, "pos=")?), fhex(e, "joint=")));
        } else if e.starts_with("nuts merge ") {
            tr.sel.push(fhex(e, "u="));
        } else if e.starts_with("nuts doubling ") {
            tr.doublings.push((
                fhex(e, "u1="),
                field(e, "v=")?.parse().ok()?,
                field(e, "n_prime=")?.parse().ok()?,
                field(e, "s_prime=")? == "true",
                fhex(e, "u2="),
                field(e, "n=")?.parse().ok()?,
                field(e, "s=")? == "true",
                parse_hex_list(field(e, "pos=")?),
            ));
        }
    }
    Some(tr)
}

fn same_bits(a: &[f64], b: &[f64]) -> bool {
    a.len() == b.len() && a.iter().zip(b.iter()).all(|(x, y)| x.to_bits() == y.to_bits())
}

/// emit the model case of one traced transition and evaluate the implementation-only predicates
pub fn emit_step<T: Sc>(out: &mut Out, cid: &str, prop: &str, target: &AnyTarget, tr: &StepTrace, size: u64) {
    let hx = |v: &[f64]| v.iter().map(|x| T::from64(*x).hex()).collect::<Vec<_>>().join(" ");
    let dirs: Vec<f64> = tr.doublings.iter().map(|d| d.0).collect();
    let acc: Vec<f64> = tr.doublings.iter().map(|d| d.4).collect();
    // the acceptance statistic is compared except for the HalfLine target (its autodiff gradient through `mask_fill`
    // differs from the closed-form continuation outside the support, which turns a NaN joint into -inf or back)
    // and for the NaN-region targets at step sizes the f64 model can follow (an injected 1e38 overflows f32 only)
    let with_stat = prop == "C03" || prop == "C04" || (matches!(target, AnyTarget::LogBox | AnyTarget::SqrtGamma { .. }) && tr.eps < 50.0);
    let case = format!(
        "{} {cid} {} {} ; {} ; {} ; {} ; {} ; {} ; {} ; {}",
        if with_stat { "c03" } else { "c03x" },
        T::NAME,
        T::from64(tr.eps).hex(),
        target.spec::<T>(),
        hx(&tr.pos0),
        hx(&tr.mom),
        T::from64(tr.exp1).hex(),
        hx(&dirs),
        tr.sel.iter().map(|x| h64(*x)).collect::<Vec<_>>().join(" "),
        hx(&acc)
    );
    let mut prev = tr.pos0.clone();
    let mut parts = vec![];
    for d in &tr.doublings {
        let adopted = !same_bits(&d.7, &prev);
        parts.push(format!("{} {} {} {}", d.1, d.2, if d.3 { "T" } else { "F" }, if adopted { "A" } else { "K" }));
        prev = d.7.clone();
    }
    let n_final = tr.doublings.last().map(|d| d.5).unwrap_or(1);
    let stat = tr.alpha / tr.n_alpha as f64;
    let line = format!(
        "{cid} {} {} {} | {} # {}{}",
        tr.depth,
        n_final,
        tr.n_alpha,
        parts.join(" | "),
        if with_stat { format!("{} ", T::from64(stat).tok()) } else { String::new() },
        tr.pos1.iter().map(|x| if target.exact_params() { T::from64(*x).tok_tight() } else { T::from64(*x).tok() }).collect::<Vec<_>>().join(" ")
    );
    out.case(case, line);
    out.count("transitions");
    out.count(&format!("depth_{}", tr.depth.min(8)));
    if tr.doublings.iter().any(|d| !d.3) {
        out.count("transitions_with_stopped_subtree");
    }
    // implementation-only: the new state is the old one or a slice-admissible leaf the tree builder visited
    out.count("predicate_evaluations");
    if !same_bits(&tr.pos1, &tr.pos0) {
        match tr.leaves.iter().find(|l| same_bits(&l.0, &tr.pos1)) {
            None => out.fail(cid, &format!("{prop}:not-a-trajectory-point"), "next state is neither the previous state nor a leapfrog point of this transition", size, format!("{:?}", tr.pos1)),
            Some(l) => {
                if !(tr.logu < l.1) {
                    out.fail(cid, &format!("{prop}:inadmissible-state"), "next state is not slice-admissible (joint log-density does not exceed the slice level)", size, format!("joint {} logu {}", l.1, tr.logu));
                }
            }
        }
        out.count("moved");
    } else {
        out.count("stayed");
    }
    if !(stat >= 0.0 && stat <= 1.0) && !stat.is_nan() {
        out.fail(cid, &format!("{prop}:statistic-range"), "acceptance statistic outside [0,1]", size, format!("{stat}"));
    }
    let lh = target.logp64(&tr.pos1);
    let _ = lh;
}

/// one `NUTSChain::step` on a thread of its own: `None` if it has not returned after `secs` seconds (the library has no
/// tree-depth cap, so a transition that cannot terminate would otherwise block the whole run until the check's timeout)
pub fn step_wd<T: Sc, B: AutodiffBackend>(mut c: NUTSChain<T, B, AnyTarget>, secs: u64) -> Option<(NUTSChain<T, B, AnyTarget>, Vec<String>)>
where
    StandardNormal: rand::distr::Distribution<T>,
    StandardUniform: rand_distr::Distribution<T>,
    Exp1: rand_distr::Distribution<T>,
    T: rand_distr::uniform::SampleUniform + num_traits::FromPrimitive,
    NUTSChain<T, B, AnyTarget>: Send + 'static,
{
    let (tx, rx) = std::sync::mpsc::channel();
    std::thread::spawn(move || {
        verif_hooks::tl_enable();
        c.step();
        let ev = verif_hooks::tl_drain();
        let _ = tx.send((c, ev));
    });
    rx.recv_timeout(std::time::Duration::from_secs(secs)).ok()
}

fn transitions<T: Sc, B: AutodiffBackend>(out: &mut Out, rng: &mut Sm)
where
    StandardNormal: rand::distr::Distribution<T>,
    StandardUniform: rand_distr::Distribution<T>,
    Exp1: rand_distr::Distribution<T>,
    T: rand_distr::uniform::SampleUniform + num_traits::FromPrimitive,
{
    let id = out.fresh_id("nt");
    // families 7 / 9: NaN outside the support (log / sqrt of a negative argument); 10: a huge additive constant
    let family = *rng.pick(&[0u64, 0, 1, 2, 3, 3, 3, 4, 5, 8, 8, 7, 9, 9, 10, 10]);
    let dim0 = if matches!(family, 7 | 8 | 9) { rng.range(1, 3) as usize } else { rng.range(1, 8) as usize };
    let (mut target, dim) = random_target(rng, family, dim0);
    if let AnyTarget::GaussOff { off, .. } = &mut target {
        *off *= if T::NAME == "f32" { rng.log_uniform(10.0, 200.0) } else { rng.log_uniform(1e4, 1e7) };
    }
    let start: Vec<f64> = (0..dim)
        .map(|_| match family {
            7 => rng.uniform(0.1, 0.9),
            9 => rng.log_uniform(0.1, 2.0),
            _ => rng.normal() * 0.8 + if family == 1 || family == 2 { 0.6 } else { 0.0 },
        })
        .collect();
    let delta = rng.uniform(0.55, 0.95);
    let seed = rng.next();
    let warm = rng.range(0, 12) as usize;
    let n_steps = out.n(10, 24) as usize;
    let extreme = match rng.below(6) {
        0 => Some(rng.log_uniform(2.0, 50.0)),   // immediate U-turn / divergence
        1 => Some(rng.log_uniform(1e-3, 1e-2)),  // deep trees
        _ => None,
    };
    if !out.selected(&id) {
        return;
    }
    guard_case(out, &id.clone(), "C03:panic", (dim * n_steps) as u64, |out| {
        let p: Vec<T> = start.iter().map(|x| T::from64(*x)).collect();
        let mut c = NUTSChain::<T, B, AnyTarget>::new(target.clone(), p, T::from64(delta)).set_seed(seed);
        c.verif_init_chain(n_steps, warm);
        let t_start = std::time::Instant::now();
        for k in 0..n_steps {
            if t_start.elapsed().as_secs_f64() > 4.0 {
                out.count("history_truncated_time_cap");
                break;
            }
            if c.verif_adapt_state().2.to64() < 2e-3 && extreme.is_none() {
                out.count("history_cut_step_size_collapsed");
                break;
            }
            if let (Some(e), true) = (extreme, k == n_steps / 2) {
                c.verif_set_epsilon(T::from64(e));
                out.count("extreme_step_size_injected");
            }
            // the public `position` field is an input: now and then the caller moves the chain between two transitions
            if k > 0 && (seed >> (k % 50)) & 7 == 0 {
                let cur = vec1::<T, B>(&c.position);
                let moved: Vec<f64> = cur.iter().map(|x| x * 0.6 + 0.15).collect();
                c.position = t1::<T, B>(&moved);
                out.count("position_overwritten_between_transitions");
            }
            static HANGS: std::sync::atomic::AtomicUsize = std::sync::atomic::AtomicUsize::new(0);
            if HANGS.load(std::sync::atomic::Ordering::SeqCst) >= 2 {
                out.count("transitions_skipped_after_hangs");
                return;
            }
            let eps_now = c.verif_adapt_state().2.to64();
            let Some((c2, ev)) = step_wd::<T, B>(c, 60) else {
                HANGS.fetch_add(1, std::sync::atomic::Ordering::SeqCst);
                // the library has no tree-depth cap: with a *tiny injected* step size a legitimate transition on a
                // heavy-tailed or flat target can need 2^25 and more leapfrogs — that is this harness's own stress input,
                // not a hang of the library; only a transition at an ordinary step size counts
                if (extreme.is_some() && eps_now < 0.05) || !target.bounded_periods() {
                    out.count("transition_cut_long_with_injected_small_step_or_heavy_tails");
                    return;
                }
                out.fail(&format!("{id}.{k}"), "C03:transition-hang", "a NUTS transition did not finish within 60 s", (dim * n_steps) as u64,
                    format!("{} {} dim {dim} seed {seed} step {k}", T::NAME, target.spec::<T>()));
                return;
            };
            c = c2;
            match parse_step(&ev) {
                Some(tr) if tr.depth <= 11 => emit_step::<T>(out, &format!("{id}.{k}"), "C03", &target, &tr, (dim * (1usize << tr.depth.min(12))) as u64),
                Some(_) => out.count("transitions_too_deep_to_replay"),
                None => out.fail(&id, "C03:no-trace", "NUTS step produced no hook trace", 1, format!("{} events", ev.len())),
            }
        }
        out.count(&format!("target_{}", target.name()));
        out.count(&format!("scalar_{}", T::NAME));
        out.nontrivial(&format!("nt:{}:{}:{dim}:{seed}", T::NAME, target.name()));
    });
}

fn trees<T: Sc, B: AutodiffBackend>(out: &mut Out, rng: &mut Sm)
where
    T: num_traits::FromPrimitive,
{
    let id = out.fresh_id("tree");
    let family = *rng.pick(&[0u64, 1, 3, 3, 4, 5]);
    let dim0 = rng.range(1, 8) as usize;
    let (target, dim) = random_target(rng, family, dim0);
    let pos: Vec<f64> = (0..dim).map(|_| rng.normal() * 0.8 + if family == 1 { 0.6 } else { 0.0 }).collect();
    let mom: Vec<f64> = (0..dim).map(|_| rng.normal()).collect();
    let j = match rng.below(4) {
        0 => rng.range(0, 1),
        1 | 2 => rng.range(1, 4),
        _ => rng.range(4, if out.thorough() { 10 } else { 7 }),
    } as usize;
    let v: i8 = if rng.coin(0.5) { 1 } else { -1 };
    let eps = match rng.below(4) {
        0 => rng.log_uniform(1.0, 30.0),
        _ => rng.log_uniform(0.01, 0.6),
    };
    let slack = match rng.below(4) {
        0 => 999.0 + rng.unit() * 2.0, // energy drops of about 1000 relative to the start
        1 => -rng.unit() * 0.3,         // slice level above the start: first leaves inadmissible
        _ => rng.unit() * 3.0,
    };
    // a third of the cases: slice level placed so that one *actual* leaf sits at the divergence bound
    // (logu - 1000 within ±{0.05, 0.5} of that leaf's joint), found by a preliminary call
    let at_bound = if rng.below(3) == 0 { Some((rng.below(1 << 10), if rng.coin(0.5) { 0.05 } else { 0.5 } * if rng.coin(0.5) { 1.0 } else { -1.0 })) } else { None };
    let seed = rng.next();
    if !out.selected(&id) {
        return;
    }
    guard_case(out, &id.clone(), "C03:panic", (dim << j) as u64, |out| {
        let (lp, grad) = <AnyTarget as GradientTarget<T, B>>::unnorm_logp_and_grad(&target, t1::<T, B>(&pos));
        let lp0 = vec1::<T, B>(&lp)[0];
        let momt: Vec<f64> = mom.iter().map(|x| T::from64(*x).to64()).collect();
        let joint0 = T::from64(lp0 - 0.5 * momt.iter().map(|x| x * x).sum::<f64>());
        let mut logu = T::from64(joint0.to64() - slack);
        if let Some((pick, delta)) = at_bound {
            let mut r0 = SmallRng::seed_from_u64(seed);
            verif_hooks::tl_enable();
            let _ = verif_build_tree::<B, T, AnyTarget>(t1::<T, B>(&pos), t1::<T, B>(&mom), grad.clone(), T::from64(-1e30), v, j, T::from64(eps), &target, joint0, &mut r0);
            let ev0 = verif_hooks::tl_drain();
            let joints: Vec<f64> = ev0.iter().filter(|e| e.starts_with("nuts leaf ")).map(|e| fhex(e, "joint=")).filter(|x| x.is_finite()).collect();
            if !joints.is_empty() {
                let jk = joints[(pick as usize) % joints.len()];
                logu = T::from64(jk + 1000.0 + delta * (1.0 + jk.abs() * 1e-3));
                out.count("tree_leaf_at_divergence_bound");
            }
        }
        let mut r = SmallRng::seed_from_u64(seed);
        let sel: Vec<f64> = {
            let mut c = r.clone();
            (0..(1usize << j)).map(|_| c.random::<f64>()).collect()
        };
        verif_hooks::tl_enable();
        let res = verif_build_tree::<B, T, AnyTarget>(t1::<T, B>(&pos), t1::<T, B>(&mom), grad, logu, v, j, T::from64(eps), &target, joint0, &mut r);
        let ev = verif_hooks::tl_drain();
        let (minus, plus, prime, n_prime, s_prime, alpha, n_alpha) = (vec1::<T, B>(&res.0), vec1::<T, B>(&res.3), vec1::<T, B>(&res.6), res.9, res.10, res.11, res.12);
        let hx = |v: &[f64]| v.iter().map(|x| T::from64(*x).hex()).collect::<Vec<_>>().join(" ");
        let tk = |v: &[f64]| v.iter().map(|x| if target.exact_params() { T::from64(*x).tok_tight() } else { T::from64(*x).tok() }).collect::<Vec<_>>().join(" ");
        out.case(
            format!("c03t {id} {} {} {v} {j} ; {} ; {} ; {} ; {} {} ; {}", T::NAME, T::from64(eps).hex(), target.spec::<T>(), hx(&pos), hx(&mom), logu.hex(), joint0.hex(),
                sel.iter().map(|x| h64(*x)).collect::<Vec<_>>().join(" ")),
            format!("{id} {n_prime} {} {n_alpha} # {} {} {} {}", if s_prime { "T" } else { "F" }, alpha.tok(), tk(&prime), tk(&minus), tk(&plus)),
        );
        // implementation-only: counts against the leaves the hook saw
        let leaves: Vec<f64> = ev.iter().filter(|e| e.starts_with("nuts leaf ")).map(|e| fhex(e, "joint=")).collect();
        let admissible = leaves.iter().filter(|jt| logu.to64() < **jt).count();
        out.count("predicate_evaluations");
        if n_alpha != leaves.len() {
            out.fail(&id, "C03:n-alpha", "n_alpha is not the number of leapfrog points of the subtree", (dim << j) as u64, format!("{n_alpha} vs {}", leaves.len()));
        }
        if n_prime != admissible {
            out.fail(&id, "C03:n-prime", "n' is not the number of slice-admissible points of the subtree", (dim << j) as u64, format!("{n_prime} vs {admissible}"));
        }
        out.count(&format!("tree_depth_{j}"));
        out.count(if s_prime { "tree_complete" } else { "tree_stopped" });
        if n_prime == 0 {
            out.count("tree_no_admissible_point");
        }
        out.nontrivial(&format!("tree:{}:{}:{j}:{v}:{seed}", T::NAME, target.name()));
    });
}

/// transitions that need 11-13 doublings at an ordinary step size: a wide 1-D Gaussian (sd 300-2500) with step size 1
/// (no depth cap in Algorithm 6: the trajectory is doubled until it turns)
fn deep_transitions<T: Sc, B: AutodiffBackend>(out: &mut Out, rng: &mut Sm)
where
    StandardNormal: rand::distr::Distribution<T>,
    StandardUniform: rand_distr::Distribution<T>,
    Exp1: rand_distr::Distribution<T>,
    T: rand_distr::uniform::SampleUniform + num_traits::FromPrimitive,
{
    let id = out.fresh_id("deep");
    let sd = rng.log_uniform(300.0, 2500.0);
    let target = AnyTarget::GaussD { mean: vec![rng.normal() * 10.0], prec: vec![1.0 / (sd * sd)] };
    let start = vec![rng.normal() * sd * 0.5];
    let seed = rng.next();
    if !out.selected(&id) {
        return;
    }
    guard_case(out, &id.clone(), "C03:panic", 4096, |out| {
        let p: Vec<T> = start.iter().map(|x| T::from64(*x)).collect();
        let mut c = NUTSChain::<T, B, AnyTarget>::new(target.clone(), p, T::from64(0.8)).set_seed(seed);
        c.verif_init_chain(3, 0);
        for k in 0..3 {
            c.verif_set_epsilon(T::from64(1.0));
            let Some((c2, ev)) = step_wd::<T, B>(c, 60) else {
                out.fail(&format!("{id}.{k}"), "C03:transition-hang", "a NUTS transition did not finish within 60 s", 4096, format!("{} {} seed {seed}", T::NAME, target.spec::<T>()));
                return;
            };
            c = c2;
            match parse_step(&ev) {
                Some(tr) if tr.depth <= 14 => {
                    if tr.depth >= 11 {
                        out.count("transitions_with_11_or_more_doublings");
                    }
                    emit_step::<T>(out, &format!("{id}.{k}"), "C03", &target, &tr, 1u64 << tr.depth.min(14));
                }
                Some(_) => out.count("transitions_too_deep_to_replay"),
                None => out.fail(&id, "C03:no-trace", "NUTS step produced no hook trace", 1, format!("{} events", ev.len())),
            }
        }
    });
}

/// a Gaussian whose log-density carries a constant of +-1e5..1e7 on the f64 backend: energy differences of order one are
/// 1e-6 of the values compared, so anything that narrows a joint log-density to 24 bits shows
fn offset_transitions(out: &mut Out, rng: &mut Sm) {
    type T = f64;
    type B = Autodiff<NdArray<f64>>;
    let id = out.fresh_id("off");
    let dim0 = rng.range(1, 3) as usize;
    let (t, dim) = random_target(rng, 3, dim0);
    let AnyTarget::GaussD { mean, prec } = t else { return };
    let target = AnyTarget::GaussOff { mean, prec, off: rng.log_uniform(1e5, 1e7) * if rng.coin(0.5) { 1.0 } else { -1.0 } };
    let start: Vec<f64> = (0..dim).map(|_| rng.normal() * 0.8).collect();
    let seed = rng.next();
    if !out.selected(&id) {
        return;
    }
    guard_case(out, &id.clone(), "C03:panic", 64, |out| {
        let mut c = NUTSChain::<T, B, AnyTarget>::new(target.clone(), start.clone(), 0.8).set_seed(seed);
        c.verif_init_chain(8, 3);
        for k in 0..8 {
            let Some((c2, ev)) = step_wd::<T, B>(c, 60) else {
                out.fail(&format!("{id}.{k}"), "C03:transition-hang", "a NUTS transition did not finish within 60 s", 64, format!("f64 {} seed {seed}", target.spec::<T>()));
                return;
            };
            c = c2;
            if let Some(tr) = parse_step(&ev) {
                if tr.depth <= 9 {
                    emit_step::<T>(out, &format!("{id}.{k}"), "C03", &target, &tr, 1u64 << tr.depth);
                    out.count("transitions_with_large_constant_in_logp");
                }
            }
        }
    });
}

pub fn run_c03(out: &mut Out) {
    let mut rng = out.rng("c03");
    for _ in 0..out.n(3, 40) {
        offset_transitions(out, &mut rng);
    }
    for i in 0..out.n(2, 30) {
        if i % 2 == 0 {
            deep_transitions::<f64, Autodiff<NdArray<f64>>>(out, &mut rng);
        } else {
            deep_transitions::<f32, Autodiff<NdArray<f32>>>(out, &mut rng);
        }
    }
    let n = out.n(30, 1200);
    for i in 0..n {
        if i % 2 == 0 {
            transitions::<f32, Autodiff<NdArray<f32>>>(out, &mut rng);
            trees::<f64, Autodiff<NdArray<f64>>>(out, &mut rng);
        } else {
            transitions::<f64, Autodiff<NdArray<f64>>>(out, &mut rng);
            trees::<f32, Autodiff<NdArray<f32>>>(out, &mut rng);
        }
        for _ in 0..8 {
            if i % 2 == 0 {
                trees::<f64, Autodiff<NdArray<f64>>>(out, &mut rng);
            } else {
                trees::<f32, Autodiff<NdArray<f32>>>(out, &mut rng);
            }
        }
    }
}

// ------------------------------------------------------------------ C04

fn adaptation<T: Sc, B: AutodiffBackend>(out: &mut Out, rng: &mut Sm)
where
    StandardNormal: rand::distr::Distribution<T>,
    StandardUniform: rand_distr::Distribution<T>,
    Exp1: rand_distr::Distribution<T>,
    T: rand_distr::uniform::SampleUniform + num_traits::FromPrimitive,
{
    let id = out.fresh_id("da");
    // families 7 / 9: targets that are NaN outside their support (a NaN leaf must enter the statistic as 1, not as NaN)
    let family = *rng.pick(&[0u64, 0, 0, 3, 3, 3, 4, 1, 7, 9]);
    let dim0 = if matches!(family, 7 | 9) { rng.range(1, 2) as usize } else { rng.range(1, 6) as usize };
    let (target, dim) = random_target(rng, family, dim0);
    let start: Vec<f64> = (0..dim)
        .map(|_| match family {
            7 => rng.uniform(0.15, 0.85),
            9 => rng.log_uniform(0.2, 2.0),
            _ => rng.normal() * 0.8 + if family == 1 { 0.6 } else { 0.0 },
        })
        .collect();
    let delta = rng.uniform(0.5, 0.99);
    let seed = rng.next();
    let n_runs = rng.range(1, 3) as usize;
    let runs: Vec<(usize, usize)> = (0..n_runs)
        .map(|_| {
            let d = match rng.below(4) {
                0 => 0,
                1 => rng.range(1, 5),
                _ => rng.range(5, if out.thorough() { 400 } else { 60 }),
            } as usize;
            (rng.range(2, 25) as usize, d)
        })
        .collect();
    if !out.selected(&id) {
        return;
    }
    guard_case(out, &id.clone(), "C04:panic", runs.iter().map(|r| r.0 + r.1).sum::<usize>() as u64, |out| {
        let p: Vec<T> = start.iter().map(|x| T::from64(*x)).collect();
        if std::env::var("VERIF_TRACE").is_ok() {
            eprintln!("  target {:?} start {:?} delta {delta} runs {:?} ty {}", target, start, runs, T::NAME);
        }
        let mut c = NUTSChain::<T, B, AnyTarget>::new(target.clone(), p, T::from64(delta)).set_seed(seed);
        let tk = |x: T| x.tok();
        for (ri, (cc, d)) in runs.iter().enumerate() {
            let cid = format!("{id}.{ri}");
            let (m0, _nd0, e0, eb0, hb0, mu0) = c.verif_adapt_state();
            let first_use = e0 == -T::from64(1.0);
            c.verif_init_chain(*cc, *d);
            let (m1, nd1, e1, eb1, hb1, mu1) = c.verif_adapt_state();
            let mut states = vec![format!("{m1} {} {} {} {}", tk(e1), tk(eb1), tk(hb1), tk(mu1))];
            let mut stats: Vec<f64> = vec![];
            let mut emitted = 0;
            let mut frozen: Option<u64> = None;
            let size = (cc + d) as u64;
            if nd1 != *d || m1 != m0 {
                out.fail(&cid, "C04:init-chain", "init_chain changed the transition counter or stored a wrong warm-up length", size, format!("m {m0}->{m1}, n_discard {nd1} vs {d}"));
            }
            let t_start = std::time::Instant::now();
            for _k in 1..(cc + d) {
                if t_start.elapsed().as_secs_f64() > 4.0 {
                    // very deep trees (tiny adapted step size): stop feeding this history, keep what was observed
                    out.count("history_truncated_time_cap");
                    break;
                }
                if std::env::var("VERIF_TRACE").is_ok() {
                    eprintln!("  step {_k} state {:?}", c.verif_adapt_state());
                }
                // a collapsed step size (e.g. dual averaging resumed after a run that froze a far too large one) makes the
                // tree astronomically deep — the library has no depth cap; the history is cut there (counted, see DESIGN.md)
                if c.verif_adapt_state().2.to64() < 2e-3 {
                    out.count("history_cut_step_size_collapsed");
                    break;
                }
                let Some((c2, ev)) = step_wd::<T, B>(c, 60) else {
                    // no depth cap in the library: on a heavy-tailed target (Student-t with nu near 1) a chain far out in the
                    // tail legitimately needs an astronomical number of leapfrogs — not a hang; elsewhere it is one
                    if target.bounded_periods() {
                        out.fail(&cid, "C04:transition-hang", "a NUTS transition did not finish within 60 s (step size usable?)", size, format!("{} {} seed {seed}", T::NAME, target.spec::<T>()));
                    } else {
                        out.count("history_cut_long_transition_heavy_tails");
                    }
                    return;
                };
                c = c2;
                let Some(tr) = parse_step(&ev) else {
                    out.fail(&cid, "C04:no-trace", "NUTS step produced no hook trace", size, String::new());
                    return;
                };
                stats.push(tr.alpha / tr.n_alpha as f64);
                let (m, nd, e, eb, hb, mu) = c.verif_adapt_state();
                states.push(format!("{m} {} {} {} {}", tk(e), tk(eb), tk(hb), tk(mu)));
                out.count("predicate_evaluations");
                // the statistic that drives the adaptation is the mean of min(1, exp(energy change)) over the last
                // doubling: a number in [0,1], also when leaves had NaN density — and so H-bar stays finite
                let a = tr.alpha / tr.n_alpha as f64;
                if !(a >= 0.0 && a <= 1.0) || !hb.to64().is_finite() {
                    out.fail(&cid, "C04:statistic-not-in-unit-interval", "the acceptance statistic fed to dual averaging is not a number in [0,1] (or H-bar is not finite)", size,
                        format!("m={m} alpha/n_alpha={a} h_bar={} target {}", hb.to64(), target.name()));
                }
                // the first transitions of every run are also replayed against the transition model (statistic included)
                // (f64 rows of targets evaluated with bit-identical parameters only: C04's tolerances are tighter than C03's)
                if emitted < 3 && tr.depth <= 8 && T::NAME == "f64" && target.exact_params() {
                    emit_step::<T>(out, &format!("{cid}.t{m}"), "C04", &target, &tr, size);
                    emitted += 1;
                }
                let ef = e.to64();
                if !(ef.is_finite() && ef > 0.0) {
                    out.fail(&cid, "C04:step-size-not-positive-finite", "step size is not positive and finite", size, format!("m={m} eps={ef}"));
                }
                if m > nd {
                    // after warm-up: equal to the averaged iterate and never changing again
                    if e.to64().to_bits() != eb.to64().to_bits() {
                        out.fail(&cid, "C04:not-averaged-iterate", "after warm-up the step size is not the averaged iterate", size, format!("m={m} n_discard={nd} eps={ef} eps_bar={}", eb.to64()));
                    }
                    match frozen {
                        None => frozen = Some(ef.to_bits()),
                        Some(b) => {
                            if b != ef.to_bits() {
                                out.fail(&cid, "C04:not-frozen", "the step size changed after warm-up", size, format!("m={m} n_discard={nd} eps={ef} was {}", f64::from_bits(b)));
                            }
                        }
                    }
                    out.count("post_warmup_steps");
                } else {
                    out.count("warmup_steps");
                }
            }
            let hx = |x: f64| T::from64(x).hex();
            out.case(
                format!("c04 {cid} {} {} ; {m0} {d} {} ; {} {} {} {} {} ; {}", T::NAME, hx(delta), if first_use { 1 } else { 0 },
                    e0.hex(), eb0.hex(), hb0.hex(), mu0.hex(), e1.hex(), stats.iter().map(|x| hx(*x)).collect::<Vec<_>>().join(" ")),
                format!("{cid} {}", states.join(" | ")),
            );
            out.count(if ri == 0 { "first_run" } else { "repeated_run" });
            out.nontrivial(&format!("da:{}:{}:{cc}:{d}:{ri}:{seed}", T::NAME, target.name()));
        }
        // find_reasonable_epsilon at the start point with a fresh momentum
        let mom: Vec<f64> = (0..dim).map(|i| ((seed >> (i % 32)) as f64 % 7.0 - 3.0) * 0.37).collect();
        let fid = format!("{id}.f");
        let e = verif_find_reasonable_epsilon::<B, T, AnyTarget>(t1::<T, B>(&start), t1::<T, B>(&mom), &target);
        let hxv = |v: &[f64]| v.iter().map(|x| T::from64(*x).hex()).collect::<Vec<_>>().join(" ");
        out.case(format!("c04f {fid} {} ; {} ; {} ; {}", T::NAME, target.spec::<T>(), hxv(&start), hxv(&mom)), format!("{fid} {}", e.tok()));
        out.count("find_reasonable_epsilon_calls");
        out.count(&format!("target_{}", target.name()));
    });
}

/// one transition from an injected dual-averaging state (states that only very long or pathological histories reach:
/// huge transition counters, `h_bar` at its extremes, averaged iterates at the edge of `T`'s range)
fn injected<T: Sc, B: AutodiffBackend>(out: &mut Out, rng: &mut Sm)
where
    T: rand_distr::uniform::SampleUniform + num_traits::FromPrimitive,
    StandardNormal: rand::distr::Distribution<T>,
    StandardUniform: rand_distr::Distribution<T>,
    Exp1: rand_distr::Distribution<T>,
{
    let id = out.fresh_id("dj");
    let (target, dim) = random_target(rng, 0, 2);
    let start: Vec<f64> = (0..dim).map(|_| rng.normal() * 0.5).collect();
    let delta = rng.uniform(0.5, 0.99);
    let seed = rng.next();
    let m0 = match rng.below(3) {
        0 => rng.range(0, 60),
        1 => rng.range(60, 3000),
        _ => rng.range(3000, 2_000_000),
    } as usize;
    let d = if rng.coin(0.7) { m0 + rng.range(1, 50) as usize } else { (m0 as u64).saturating_sub(rng.below(5)) as usize };
    let eps = rng.log_uniform(0.05, 2.0);
    let (tiny, huge) = (T::min_positive_value().to64(), T::max_value().to64());
    let eps_bar = match rng.below(5) {
        0 => tiny * rng.log_uniform(1.0, 1e3),
        1 => huge / rng.log_uniform(1.0, 1e3),
        _ => rng.log_uniform(1e-6, 1e3),
    };
    let h_bar = match rng.below(4) {
        0 => rng.uniform(0.5, 1.0),
        1 => rng.uniform(-0.6, -0.2),
        _ => rng.uniform(-0.2, 0.5),
    };
    if !out.selected(&id) {
        return;
    }
    guard_case(out, &id.clone(), "C04:panic", 1, |out| {
        let p: Vec<T> = start.iter().map(|x| T::from64(*x)).collect();
        let mut c = NUTSChain::<T, B, AnyTarget>::new(target.clone(), p, T::from64(delta)).set_seed(seed);
        c.verif_set_adapt_state((m0, 0, T::from64(eps), T::from64(eps_bar), T::from64(h_bar), T::from64(0.0)));
        let (_, _, e0, eb0, hb0, mu0) = c.verif_adapt_state();
        c.verif_init_chain(2, d);
        let (m1, _nd1, e1, eb1, hb1, mu1) = c.verif_adapt_state();
        let tk = |x: T| x.tok();
        let mut states = vec![format!("{m1} {} {} {} {}", tk(e1), tk(eb1), tk(hb1), tk(mu1))];
        verif_hooks::tl_enable();
        c.step();
        let ev = verif_hooks::tl_drain();
        let Some(tr) = parse_step(&ev) else {
            out.fail(&id, "C04:no-trace", "NUTS step produced no hook trace", 1, String::new());
            return;
        };
        let stat = tr.alpha / tr.n_alpha as f64;
        let (m, nd, e, eb, hb, mu) = c.verif_adapt_state();
        states.push(format!("{m} {} {} {} {}", tk(e), tk(eb), tk(hb), tk(mu)));
        out.count("predicate_evaluations");
        let (ef, ebf) = (e.to64(), eb.to64());
        if !(ef.is_finite() && ef > 0.0 && ebf.is_finite() && ebf > 0.0) {
            out.fail(&id, "C04:step-size-not-positive-finite", "step size is not positive and finite", 1, format!("injected m={m} n_discard={nd} eps={ef} eps_bar={ebf} h_bar={}", hb.to64()));
        }
        if m > nd {
            if ef.to_bits() != eb0.to64().to_bits() || ebf.to_bits() != eb0.to64().to_bits() {
                out.fail(&id, "C04:not-averaged-iterate", "after warm-up the step size is not the averaged iterate", 1, format!("injected m={m} n_discard={nd} eps={ef} eps_bar={ebf} was {}", eb0.to64()));
            }
            if hb.to64().to_bits() != hb0.to64().to_bits() {
                out.fail(&id, "C04:statistic-moved-after-warmup", "the dual-averaging statistic changed after warm-up (a resumed adaptation would start from it)", 1,
                    format!("injected m={m} n_discard={nd} h_bar {} -> {}", hb0.to64(), hb.to64()));
            }
            out.count("injected_post_warmup");
        } else {
            out.count("injected_warmup");
            if ef == tiny || ef == huge || ebf == tiny || ebf == huge {
                out.count("injected_clamped");
            }
        }
        let hx = |x: f64| T::from64(x).hex();
        out.case(
            format!("c04 {id} {} {} ; {m0} {d} 0 ; {} {} {} {} {} ; {}", T::NAME, hx(delta), e0.hex(), eb0.hex(), hb0.hex(), mu0.hex(), e1.hex(), hx(stat)),
            format!("{id} {}", states.join(" | ")),
        );
        out.nontrivial(&format!("dj:{}:{m0}:{d}:{seed}", T::NAME));
    });
}

/// `find_reasonable_epsilon` started next to a support boundary with the momentum pointing out of the support, so that
/// the first unit leapfrog lands where the log-density (and, for `SqrtGamma`, the gradient too) is not finite: the
/// halving loop, its `&&` guard and the un-refreshed `grad_prime` are exercised; under a watchdog because a wrong
/// guard loops forever.
pub fn fre_boundary<T: Sc, B: AutodiffBackend>(out: &mut Out, rng: &mut Sm, prop: &str) {
    let id = out.fresh_id("fb");
    let dim = rng.range(1, 3) as usize;
    let kind = rng.below(4);
    let (target, start): (AnyTarget, Vec<f64>) = match kind {
        0 | 1 => (AnyTarget::SqrtGamma { rate: rng.uniform(2.0, 12.0) }, (0..dim).map(|_| rng.log_uniform(0.05, 2.0)).collect()),
        2 => (AnyTarget::LogBox, (0..dim).map(|_| rng.uniform(0.02, 0.98)).collect()),
        _ => {
            let mut x: Vec<f64> = (0..dim).map(|_| rng.normal() * 0.5).collect();
            x[0] = rng.log_uniform(0.01, 1.0);
            (AnyTarget::HalfLine { rate: rng.uniform(0.5, 3.0) }, x)
        }
    };
    // momentum: mostly outward (negative, several times the distance to the boundary), sometimes mild
    let mom: Vec<f64> = start.iter().map(|x| if rng.coin(0.8) { -(x + 0.3) * rng.log_uniform(1.0, 20.0) } else { rng.normal() }).collect();
    if !out.selected(&id) {
        return;
    }
    // a hung call keeps spinning in its thread: after two hangs the remaining cases are skipped (counted)
    static HANGS: std::sync::atomic::AtomicUsize = std::sync::atomic::AtomicUsize::new(0);
    if HANGS.load(std::sync::atomic::Ordering::SeqCst) >= 2 {
        out.count("fre_boundary_skipped_after_hangs");
        return;
    }
    let (tg, st, mo) = (target.clone(), start.clone(), mom.clone());
    let r = crate::c14::watchdog(20, move || verif_find_reasonable_epsilon::<B, T, AnyTarget>(t1::<T, B>(&st), t1::<T, B>(&mo), &tg).to64());
    out.count("predicate_evaluations");
    out.count(&format!("fre_boundary_{}", target.name()));
    let hxv = |v: &[f64]| v.iter().map(|x| T::from64(*x).hex()).collect::<Vec<_>>().join(" ");
    match r {
        None => {
            HANGS.fetch_add(1, std::sync::atomic::Ordering::SeqCst);
            out.fail(&id, &format!("{prop}:fre-hang"), "find_reasonable_epsilon did not return within 20 s on a bounded-support target", dim as u64,
                format!("{} {} start {start:?} momentum {mom:?}", T::NAME, target.spec::<T>()));
        }
        Some(Err(e)) => out.fail(&id, &format!("{prop}:fre-panic"), "find_reasonable_epsilon panicked on a bounded-support target", dim as u64, e),
        Some(Ok(e)) => {
            if !(e > 0.0 && e.is_finite()) {
                out.fail(&id, &format!("{prop}:fre-eps"), "find_reasonable_epsilon returned a step size that is not positive and finite", dim as u64,
                    format!("{e} for {} {} start {start:?} momentum {mom:?}", T::NAME, target.spec::<T>()));
            }
            if e < 0.5 {
                out.count("fre_halving_or_crossing_down");
            }
            out.case(format!("c04f {id} {} ; {} ; {} ; {}", T::NAME, target.spec::<T>(), hxv(&start), hxv(&mom)), format!("{id} {}", T::from64(e).tok()));
            out.nontrivial(&format!("fb:{}:{}:{dim}:{:?}", T::NAME, target.name(), start));
        }
    }
}

pub fn run_c04(out: &mut Out) {
    let mut rng = out.rng("c04");
    let n = out.n(40, 800);
    for i in 0..n {
        if i % 2 == 0 {
            adaptation::<f64, Autodiff<NdArray<f64>>>(out, &mut rng);
        } else {
            adaptation::<f32, Autodiff<NdArray<f32>>>(out, &mut rng);
        }
    }
    for i in 0..out.n(120, 3000) {
        if i % 2 == 0 {
            injected::<f64, Autodiff<NdArray<f64>>>(out, &mut rng);
        } else {
            injected::<f32, Autodiff<NdArray<f32>>>(out, &mut rng);
        }
    }
    for i in 0..out.n(60, 1500) {
        if i % 2 == 0 {
            fre_boundary::<f64, Autodiff<NdArray<f64>>>(out, &mut rng, "C04");
        } else {
            fre_boundary::<f32, Autodiff<NdArray<f32>>>(out, &mut rng, "C04");
        }
    }
}

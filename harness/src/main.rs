//! Correspondence harness: runs the real mini-mcmc code in-process on generated cases and writes
//! `cases.txt` (input for the Lean driver), `impl.out` (what the implementation produced, one line per case),
//! `fails.jsonl` (property predicates evaluated on the implementation alone) and `stats.json`.
mod util;
mod c09;
mod c05;
mod c16;
mod c01;
mod c18;
mod c17;
mod stats;
mod c07;
mod c10;
mod c15;
mod targets;
mod c02;
mod nuts;
mod c14;
mod c06;

use util::Out;

fn main() {
    let args: Vec<String> = std::env::args().collect();
    if args.len() < 3 {
        eprintln!("usage: harness <property> <outdir>");
        std::process::exit(2);
    }
    let prop = args[1].as_str();
    let dir = args[2].as_str();
    // keep library panics (caught per case) from flooding stderr
    std::panic::set_hook(Box::new(|_| {}));
    let mut out = Out::new(prop);
    match prop {
        "C09" => c09::run(&mut out),
        "C05" => c05::run(&mut out),
        "C16" => c16::run(&mut out),
        "C01" => c01::run(&mut out),
        "C18" => c18::run(&mut out),
        "C17" => c17::run(&mut out),
        "C11" => stats::run_c11(&mut out),
        "C12" => stats::run_c12(&mut out),
        "C13" => stats::run_c13(&mut out),
        "C07" => c07::run_c07(&mut out),
        "C08" => c07::run_c08(&mut out),
        "C10" => c10::run(&mut out),
        "C15" => c15::run(&mut out),
        "C02" => c02::run(&mut out),
        "C03" => nuts::run_c03(&mut out),
        "C04" => nuts::run_c04(&mut out),
        "C14" => c14::run(&mut out),
        "C06" => c06::run(&mut out),
        _ => {
            eprintln!("unknown property {prop}");
            std::process::exit(2);
        }
    }
    out.write(dir);
}

//! C09 — run(): shape, chain order, burn-in discard and continuation.
//!
//! For every sampler a clone is stepped by hand to obtain the trace of states t0, t1, t2, … (bit patterns);
//! the real `run` is called on the original for a history of (n_collect, n_discard) pairs. The Lean model of the
//! `run` loop is executed on a pointer into that trace and must reproduce the returned rows and the number of
//! transitions made.
use crate::util::*;
use burn::backend::{Autodiff, NdArray};
use burn::tensor::Tensor;
use mini_mcmc::core::{ChainRunner, HasChains, MarkovChain};
use mini_mcmc::distributions::{Conditional, DiffableGaussian2D, IsotropicGaussian, Proposal, Target};
use mini_mcmc::gibbs::GibbsSampler;
use mini_mcmc::hmc::HMC;
use mini_mcmc::metropolis_hastings::MetropolisHastings;
use mini_mcmc::nuts::{NUTSChain, NUTS};
use ndarray::Array3;

// ---------- (a) user-defined counting chain under the blanket ChainRunner ----------

#[derive(Clone, Debug, PartialEq)]
struct CountChain {
    state: Vec<i64>,
}
impl CountChain {
    fn new(id: i64, dim: usize) -> Self {
        let mut state = vec![0i64; dim];
        state[0] = id;
        if dim > 1 {
            state[1] = 0;
        }
        let mut c = CountChain { state };
        c.fill(0);
        c
    }
    fn fill(&mut self, count: i64) {
        let id = self.state[0] / 1_000_000;
        let dim = self.state.len();
        self.state[0] = id * 1_000_000 + count;
        for k in 1..dim {
            self.state[k] = id * 7919 + count * 31 + k as i64;
        }
    }
    fn count(&self) -> i64 {
        self.state[0] % 1_000_000
    }
}
impl MarkovChain<i64> for CountChain {
    fn step(&mut self) -> &Vec<i64> {
        let c = self.count() + 1;
        self.fill(c);
        &self.state
    }
    fn current_state(&self) -> &Vec<i64> {
        &self.state
    }
}
struct CountSampler {
    chains: Vec<CountChain>,
}
impl HasChains<i64> for CountSampler {
    type Chain = CountChain;
    fn chains_mut(&mut self) -> &mut Vec<CountChain> {
        &mut self.chains
    }
}

fn tok_i64(v: &[i64]) -> String {
    v.iter().map(|x| x.to_string()).collect::<Vec<_>>().join(",")
}
fn tok_f64(v: &[f64]) -> String {
    v.iter().map(|x| h64(*x)).collect::<Vec<_>>().join(",")
}
fn tok_f32(v: &[f32]) -> String {
    v.iter().map(|x| h32(*x)).collect::<Vec<_>>().join(",")
}

fn history(rng: &mut Sm, max_runs: u64, max_c: u64, max_d: u64, min_c: u64) -> Vec<(usize, usize)> {
    let n = rng.range(1, max_runs);
    (0..n)
        .map(|_| {
            // boundary values are favoured
            let c = if rng.coin(0.3) { *rng.pick(&[min_c, 1, 2]) } else { rng.range(min_c, max_c) };
            let d = if rng.coin(0.3) { *rng.pick(&[0, 1, 2]) } else { rng.range(0, max_d) };
            (c.max(min_c) as usize, d as usize)
        })
        .collect()
}

fn hist_str(h: &[(usize, usize)]) -> String {
    h.iter().map(|(c, d)| format!("{c} {d}")).collect::<Vec<_>>().join(" ")
}

/// emit one model case for one chain
fn emit(
    out: &mut Out,
    id: &str,
    kind: &str,
    hist: &[(usize, usize)],
    trace: &[String],
    rows_per_run: &[Vec<String>],
    final_ptr: String,
) {
    let case = format!("c09 {id} {kind} {} ; {}", hist_str(hist), trace.join(" "));
    let impl_line = format!(
        "{id} {} # {final_ptr}",
        rows_per_run.iter().map(|r| r.join(" ")).collect::<Vec<_>>().join(" | ")
    );
    out.case(case, impl_line);
    out.nontrivial(&format!("{kind}:{}", hist_str(hist)));
    for (c, d) in hist {
        if *d == 0 {
            out.count("runs_d0");
        }
        if *c == 0 {
            out.count("runs_c0");
        }
    }
    out.count(&format!("kind_{kind}"));
    out.count(&format!("history_len_{}", hist.len()));
}

fn total_steps(hist: &[(usize, usize)]) -> usize {
    hist.iter().map(|(c, d)| c + d).sum()
}

fn rows_of(a: &Array3<i64>, ch: usize) -> Vec<String> {
    (0..a.shape()[1])
        .map(|k| tok_i64(&a.slice(ndarray::s![ch, k, ..]).to_vec()))
        .collect()
}

fn counting(out: &mut Out) {
    let mut rng = out.rng("c09-count");
    let n = out.n(120, 500);
    for _ in 0..n {
        let id = out.fresh_id("cnt");
        let n_chains = if rng.coin(0.2) { 1 } else { rng.range(1, 32) } as usize;
        let dim = rng.range(1, 16) as usize;
        let hist = history(&mut rng, 4, 40, 40, 0);
        if !out.selected(&id) {
            continue;
        }
        let size = total_steps(&hist) as u64;
        guard_case(out, &id.clone(), "C09:panic", size, |out| {
        let chains: Vec<CountChain> = (0..n_chains).map(|i| CountChain::new((i as i64 + 1) * 1_000_000, dim)).collect();
        // manual traces
        let total = total_steps(&hist);
        let traces: Vec<Vec<String>> = chains
            .iter()
            .map(|c| {
                let mut c = c.clone();
                let mut t = vec![tok_i64(c.current_state())];
                for _ in 0..total + 2 {
                    t.push(tok_i64(c.step()));
                }
                t
            })
            .collect();
        let mut s = CountSampler { chains };
        let mut per_chain_rows: Vec<Vec<Vec<String>>> = vec![vec![]; n_chains];
        let mut shape_ok = true;
        for (c, d) in &hist {
            let a = s.run(*c, *d).expect("stack");
            if a.shape() != [n_chains, *c, dim] {
                shape_ok = false;
                out.fail(&id, "C09:shape", "run() returned a wrong shape", (n_chains * (c + d)) as u64,
                    format!("expected [{n_chains},{c},{dim}] got {:?}", a.shape()));
                break;
            }
            for ch in 0..n_chains {
                per_chain_rows[ch].push(rows_of(&a, ch));
            }
        }
        if !shape_ok {
            return;
        }
        for ch in 0..n_chains {
            let cid = format!("{id}.{ch}");
            let fin = s.chains[ch].count().to_string();
            emit(out, &cid, "core", &hist, &traces[ch], &per_chain_rows[ch], fin);
        }
        });
    }
}

// ---------- (b) Metropolis–Hastings ----------

#[derive(Clone, Debug, PartialEq)]
struct QuadTarget {
    scale: f64,
}
impl Target<f64, f64> for QuadTarget {
    fn unnorm_logp(&self, x: &[f64]) -> f64 {
        -0.5 * self.scale * x.iter().map(|v| v * v).sum::<f64>()
    }
}

fn mh(out: &mut Out) {
    let mut rng = out.rng("c09-mh");
    let n = out.n(40, 250);
    for _ in 0..n {
        let id = out.fresh_id("mh");
        let n_chains = rng.range(1, 8) as usize;
        let dim = rng.range(1, 6) as usize;
        let hist = history(&mut rng, 3, 25, 25, 0);
        let seed = rng.next();
        let init: Vec<Vec<f64>> = (0..n_chains).map(|_| (0..dim).map(|_| rng.normal()).collect()).collect();
        let pseed = rng.next();
        if !out.selected(&id) {
            continue;
        }
        let size = total_steps(&hist) as u64;
        guard_case(out, &id.clone(), "C09:panic", size, |out| {
        let proposal = IsotropicGaussian::<f64>::new(0.8).set_seed(pseed);
        let mut s = MetropolisHastings::new(QuadTarget { scale: 1.3 }, proposal, init).seed(seed);
        // MH chains share a cloned proposal generator unless the library re-seeds them; either way a clone is exact
        let reference = s.clone();
        let total = total_steps(&hist);
        let mut snapshots: Vec<Vec<_>> = vec![];
        let traces: Vec<Vec<String>> = reference
            .chains
            .iter()
            .map(|c| {
                let mut c = c.clone();
                let mut snaps = vec![c.clone()];
                let mut t = vec![tok_f64(c.current_state())];
                for _ in 0..total + 2 {
                    t.push(tok_f64(c.step()));
                    snaps.push(c.clone());
                }
                snapshots.push(snaps);
                t
            })
            .collect();
        let mut per_chain_rows: Vec<Vec<Vec<String>>> = vec![vec![]; n_chains];
        for (c, d) in &hist {
            let a = s.run(*c, *d).expect("stack");
            for ch in 0..n_chains {
                per_chain_rows[ch].push((0..a.shape()[1]).map(|k| tok_f64(&a.slice(ndarray::s![ch, k, ..]).to_vec())).collect());
            }
        }
        for ch in 0..n_chains {
            let fin = snapshots[ch]
                .iter()
                .position(|x| *x == s.chains[ch])
                .map(|p| p.to_string())
                .unwrap_or("none".into());
            emit(out, &format!("{id}.{ch}"), "core", &hist, &traces[ch], &per_chain_rows[ch], fin);
        }
        });
    }
}

// ---------- (c) Gibbs ----------

#[derive(Clone, Debug, PartialEq)]
struct CounterCond {
    calls: u64,
}
impl Conditional<f64> for CounterCond {
    fn sample(&mut self, i: usize, given: &[f64]) -> f64 {
        self.calls += 1;
        let s: f64 = given.iter().enumerate().map(|(k, v)| v * (k as f64 + 1.0)).sum();
        (s * 0.37 + i as f64 + self.calls as f64 * 0.001).sin()
    }
}

fn gibbs(out: &mut Out) {
    let mut rng = out.rng("c09-gibbs");
    let n = out.n(40, 250);
    for _ in 0..n {
        let id = out.fresh_id("gb");
        let n_chains = rng.range(1, 8) as usize;
        let dim = rng.range(1, 8) as usize;
        let hist = history(&mut rng, 3, 25, 25, 0);
        let init: Vec<Vec<f64>> = (0..n_chains).map(|_| (0..dim).map(|_| rng.normal()).collect()).collect();
        if !out.selected(&id) {
            continue;
        }
        let size = total_steps(&hist) as u64;
        guard_case(out, &id.clone(), "C09:panic", size, |out| {
        let mut s = GibbsSampler::new(CounterCond { calls: 0 }, init).set_seed(7);
        let total = total_steps(&hist);
        let mut snapshots = vec![];
        let traces: Vec<Vec<String>> = s
            .chains
            .iter()
            .map(|c| {
                let mut c = c.clone();
                let mut snaps = vec![c.clone()];
                let mut t = vec![tok_f64(c.current_state())];
                for _ in 0..total + 2 {
                    t.push(tok_f64(c.step()));
                    snaps.push(c.clone());
                }
                snapshots.push(snaps);
                t
            })
            .collect();
        let mut per_chain_rows: Vec<Vec<Vec<String>>> = vec![vec![]; n_chains];
        for (c, d) in &hist {
            let a = s.run(*c, *d).expect("stack");
            for ch in 0..n_chains {
                per_chain_rows[ch].push((0..a.shape()[1]).map(|k| tok_f64(&a.slice(ndarray::s![ch, k, ..]).to_vec())).collect());
            }
        }
        for ch in 0..n_chains {
            let fin = snapshots[ch]
                .iter()
                .position(|x| *x == s.chains[ch])
                .map(|p| p.to_string())
                .unwrap_or("none".into());
            emit(out, &format!("{id}.{ch}"), "core", &hist, &traces[ch], &per_chain_rows[ch], fin);
        }
        });
    }
}

// ---------- (d) HMC ----------

type B32 = Autodiff<NdArray<f32>>;

fn hmc_rows(t: &Tensor<B32, 3>) -> Vec<Vec<String>> {
    let dims = t.dims();
    let v: Vec<f32> = t.to_data().to_vec().unwrap();
    (0..dims[0])
        .map(|ch| {
            (0..dims[1])
                .map(|k| tok_f32(&v[(ch * dims[1] + k) * dims[2]..(ch * dims[1] + k + 1) * dims[2]]))
                .collect()
        })
        .collect()
}
fn hmc_pos(h: &HMC<f32, B32, DiffableGaussian2D<f32>>) -> Vec<Vec<f32>> {
    let dims = h.positions.dims();
    let v: Vec<f32> = h.positions.to_data().to_vec().unwrap();
    (0..dims[0]).map(|ch| v[ch * dims[1]..(ch + 1) * dims[1]].to_vec()).collect()
}

fn hmc(out: &mut Out) {
    let mut rng = out.rng("c09-hmc");
    let n = out.n(25, 150);
    for _ in 0..n {
        let id = out.fresh_id("hmc");
        let n_chains = rng.range(1, 6) as usize;
        let hist = history(&mut rng, 3, 12, 12, 0);
        let seed = rng.next();
        let init: Vec<Vec<f32>> = (0..n_chains).map(|_| (0..2).map(|_| rng.normal() as f32).collect()).collect();
        let eps = rng.uniform(0.05, 0.4) as f32;
        let l = rng.range(1, 5) as usize;
        if !out.selected(&id) {
            continue;
        }
        let size = total_steps(&hist) as u64;
        guard_case(out, &id.clone(), "C09:panic", size, |out| {
        let target = DiffableGaussian2D::new([0.0f32, 1.0], [[4.0, 2.0], [2.0, 3.0]]);
        let mut s = HMC::<f32, B32, _>::new(target, init, eps, l).set_seed(seed);
        let total = total_steps(&hist);
        // determinism premise (C07): two clones stepped once must agree, otherwise this sub-check is undecidable
        {
            let (mut a, mut b) = (s.clone(), s.clone());
            a.step();
            b.step();
            if hmc_pos(&a) != hmc_pos(&b) {
                out.count("hmc_nondeterministic_skipped");
                return;
            }
        }
        let mut r = s.clone();
        let mut snaps = vec![(hmc_pos(&r), r.rng.clone())];
        for _ in 0..total + 2 {
            r.step();
            snaps.push((hmc_pos(&r), r.rng.clone()));
        }
        let mut per_chain_rows: Vec<Vec<Vec<String>>> = vec![vec![]; n_chains];
        let mut ok = true;
        for (c, d) in &hist {
            let t = s.run(*c, *d);
            if t.dims() != [n_chains, *c, 2] {
                out.fail(&id, "C09:shape", "HMC::run returned a wrong shape", (c + d) as u64,
                    format!("expected [{n_chains},{c},2] got {:?}", t.dims()));
                ok = false;
                break;
            }
            let rows = hmc_rows(&t);
            for ch in 0..n_chains {
                per_chain_rows[ch].push(rows[ch].clone());
            }
        }
        if !ok {
            return;
        }
        let cur = (hmc_pos(&s), s.rng.clone());
        let fin = snaps.iter().position(|x| *x == cur).map(|p| p.to_string()).unwrap_or("none".into());
        for ch in 0..n_chains {
            let trace: Vec<String> = snaps.iter().map(|(p, _)| tok_f32(&p[ch])).collect();
            emit(out, &format!("{id}.{ch}"), "hmc", &hist, &trace, &per_chain_rows[ch], fin.clone());
        }
        });
    }
}

// ---------- (e) NUTS ----------

type B64 = Autodiff<NdArray<f64>>;
type NChain = NUTSChain<f64, B64, DiffableGaussian2D<f64>>;

fn nuts_pos(c: &NChain) -> Vec<f64> {
    c.position.to_data().to_vec().unwrap()
}
fn nuts_key(c: &NChain) -> (Vec<u64>, rand::rngs::SmallRng, (usize, usize, u64, u64, u64, u64)) {
    let (m, nd, e, eb, hb, mu) = c.verif_adapt_state();
    (
        nuts_pos(c).iter().map(|x| x.to_bits()).collect(),
        c.verif_rng(),
        (m, nd, e.to_bits(), eb.to_bits(), hb.to_bits(), mu.to_bits()),
    )
}

fn nuts(out: &mut Out) {
    let mut rng = out.rng("c09-nuts");
    let n = out.n(20, 80);
    for _ in 0..n {
        let id = out.fresh_id("nuts");
        let n_chains = rng.range(1, 4) as usize;
        let hist = history(&mut rng, 3, 10, 8, 1);
        let seed = rng.next();
        let init: Vec<Vec<f64>> = (0..n_chains).map(|_| (0..2).map(|_| rng.normal()).collect()).collect();
        if !out.selected(&id) {
            continue;
        }
        let size = total_steps(&hist) as u64;
        guard_case(out, &id.clone(), "C09:panic", size, |out| {
        let target = DiffableGaussian2D::new([0.0f64, 1.0], [[4.0, 2.0], [2.0, 3.0]]);
        let mut s = NUTS::<f64, B64, _>::new(target.clone(), init.clone(), 0.8).set_seed(seed);
        // reference: every chain on its own, stepped by hand with init_chain + step (the pieces `run` is made of)
        let mut traces: Vec<Vec<String>> = vec![];
        let mut keys: Vec<Vec<_>> = vec![];
        let mut indiv_rows: Vec<Vec<Vec<String>>> = vec![];
        for ch in 0..n_chains {
            let mut c: NChain = s.verif_chains()[ch].clone();
            let mut indiv: NChain = s.verif_chains()[ch].clone();
            let mut t = vec![tok_f64(&nuts_pos(&c))];
            let mut ks = vec![];
            let mut ir = vec![];
            for (cc, d) in &hist {
                c.verif_init_chain(*cc, *d);
                for _ in 1..(cc + d) {
                    c.step();
                    t.push(tok_f64(&nuts_pos(&c)));
                }
                ks.push(nuts_key(&c));
                // the chain's own public run
                let r = indiv.run(*cc, *d);
                let v: Vec<f64> = r.to_data().to_vec().unwrap();
                ir.push((0..*cc).map(|k| tok_f64(&v[k * 2..k * 2 + 2])).collect::<Vec<_>>());
            }
            // the pointer model: NUTS makes c+d-1 transitions per run, so the trace of a history is the concatenation
            traces.push(t);
            keys.push(ks);
            indiv_rows.push(ir);
        }
        let mut per_chain_rows: Vec<Vec<Vec<String>>> = vec![vec![]; n_chains];
        let mut fins: Vec<bool> = vec![true; n_chains];
        for (ri, (c, d)) in hist.iter().enumerate() {
            let t = s.run(*c, *d);
            let dims = t.dims();
            if dims != [n_chains, *c, 2] {
                out.fail(&id, "C09:shape", "NUTS::run returned a wrong shape", (c + d) as u64, format!("{dims:?}"));
                return;
            }
            let v: Vec<f64> = t.to_data().to_vec().unwrap();
            for ch in 0..n_chains {
                per_chain_rows[ch].push((0..*c).map(|k| tok_f64(&v[(ch * c + k) * 2..(ch * c + k) * 2 + 2])).collect());
                if nuts_key(&s.verif_chains()[ch]) != keys[ch][ri] {
                    fins[ch] = false;
                }
            }
        }
        for ch in 0..n_chains {
            // implementation-only predicate: multi-chain runner == chains run individually
            if per_chain_rows[ch] != indiv_rows[ch] {
                out.fail(&format!("{id}.{ch}"), "C09:nuts-runner-vs-chain",
                    "NUTS::run block differs from NUTSChain::run of the same chain", total_steps(&hist) as u64,
                    format!("hist={:?} chain={ch}", hist));
            }
            // NUTS histories: each run makes c+d-1 transitions; the model is run per call on the suffix of the trace
            let total: usize = hist.iter().map(|(c, d)| c + d - 1).sum();
            let fin = if fins[ch] { total.to_string() } else { "none".into() };
            emit_nuts(out, &format!("{id}.{ch}"), &hist, &traces[ch], &per_chain_rows[ch], fin);
        }
        });
    }
}

fn emit_nuts(out: &mut Out, id: &str, hist: &[(usize, usize)], trace: &[String], rows: &[Vec<String>], fin: String) {
    emit(out, id, "nuts", hist, trace, rows, fin)
}

pub fn run(out: &mut Out) {
    counting(out);
    mh(out);
    gibbs(out);
    hmc(out);
    nuts(out);
}

//! C17 — CSV / Arrow / Parquet export round-trips every value with correct labels.
//!
//! The real writers are called on random arrays / tensors (shapes 0-6 x 0-40 x 0-8, special float values), the files
//! are read back with the csv / arrow-ipc / parquet readers and canonicalised to `label label value…` rows, which
//! the Lean row/offset model must reproduce from the flat input buffer.
use crate::util::*;
use arrow::array::{Array, Float64Array, UInt32Array};
use arrow::ipc::reader::FileReader;
use arrow::record_batch::RecordBatch;
use burn::backend::NdArray;
use burn::tensor::{Tensor, TensorData};
use mini_mcmc::io::arrow::save_arrow;
use mini_mcmc::io::csv::{save_csv, save_csv_tensor};
use mini_mcmc::io::parquet::{save_parquet, save_parquet_tensor};
use ndarray::{s, Array3, Axis, ShapeBuilder};
use parquet::arrow::arrow_reader::ParquetRecordBatchReaderBuilder;
use std::fs::File;

fn tmp(out: &Out, name: &str) -> String {
    let d = format!("/verif/work/C17/tmp-{}", out.seed);
    std::fs::create_dir_all(&d).unwrap();
    format!("{d}/{name}")
}

fn f64tok(x: f64) -> String {
    if x.is_nan() {
        "nan".into()
    } else {
        h64(x)
    }
}
fn f32tok(x: f32) -> String {
    if x.is_nan() {
        "nan".into()
    } else {
        h32(x)
    }
}

fn special64(rng: &mut Sm) -> f64 {
    let s = [
        0.0, -0.0, f64::NAN, f64::INFINITY, f64::NEG_INFINITY, f64::MAX, f64::MIN, f64::MIN_POSITIVE, 5e-324, -5e-324, 1e-310,
        0.1, 1.0 / 3.0, 1e21, 1e-7, 123456789.123456789, -2.5e-300, 9007199254740993.0,
    ];
    *rng.pick(&s)
}
fn special32(rng: &mut Sm) -> f32 {
    let s = [
        0.0f32, -0.0, f32::NAN, f32::INFINITY, f32::NEG_INFINITY, f32::MAX, f32::MIN, f32::MIN_POSITIVE, 1e-45, -1e-45, 1e-40, 0.1,
        1.0 / 3.0, 1e21, 1e-7, 16777217.0, 3.4e38,
    ];
    *rng.pick(&s)
}
fn gen64(rng: &mut Sm, n: usize, p_special: f64) -> Vec<f64> {
    (0..n).map(|_| if rng.coin(p_special) { special64(rng) } else { rng.normal() * rng.log_uniform(1e-6, 1e6) }).collect()
}
fn gen32(rng: &mut Sm, n: usize, p_special: f64) -> Vec<f32> {
    (0..n).map(|_| if rng.coin(p_special) { special32(rng) } else { (rng.normal() * rng.log_uniform(1e-6, 1e6)) as f32 }).collect()
}
fn shape(rng: &mut Sm) -> (usize, usize, usize) {
    let z = rng.coin(0.15);
    let mut s = (rng.range(1, 6) as usize, rng.range(1, 40) as usize, rng.range(1, 8) as usize);
    if rng.coin(0.3) {
        s = (rng.range(1, 3) as usize, rng.range(1, 3) as usize, rng.range(1, 3) as usize);
    }
    if z {
        match rng.below(4) {
            0 => s.0 = 0,
            1 => s.1 = 0,
            2 => s.2 = 0,
            _ => s = (0, 0, 0),
        }
    }
    s
}

/// the same logical array in a different memory layout: 0 standard (C order), 1 Fortran order, 2 permuted axes of a
/// `[obs, chain, dim]` buffer, 3 every second row of a larger buffer (strided), 4 inverted observation axis (negative stride)
fn relayout<T: Clone + Default>(a: &Array3<T>, layout: u64) -> Array3<T> {
    let (c, n, k) = a.dim();
    match layout {
        1 => Array3::from_shape_fn((c, n, k).f(), |(i, j, l)| a[[i, j, l]].clone()),
        2 => Array3::from_shape_fn((n, c, k), |(j, i, l)| a[[i, j, l]].clone()).permuted_axes([1, 0, 2]),
        3 => Array3::from_shape_fn((c, 2 * n, k), |(i, j, l)| if j % 2 == 0 { a[[i, j / 2, l]].clone() } else { T::default() }).slice_move(s![.., ..;2, ..]),
        4 => {
            let mut b = Array3::from_shape_fn((c, n, k), |(i, j, l)| a[[i, n - 1 - j, l]].clone());
            b.invert_axis(Axis(1));
            b
        }
        _ => a.clone(),
    }
}

/// read a CSV file back: header line + rows `chain observation values…` (values re-parsed with `parse`)
fn read_csv(path: &str, parse: &dyn Fn(&str) -> String) -> Result<String, String> {
    let mut rdr = csv::ReaderBuilder::new().has_headers(true).from_path(path).map_err(|e| e.to_string())?;
    let hdr: Vec<String> = rdr.headers().map_err(|e| e.to_string())?.iter().map(|s| s.to_string()).collect();
    let mut parts = vec![hdr.join(" ")];
    for rec in rdr.records() {
        let rec = rec.map_err(|e| e.to_string())?;
        let f: Vec<&str> = rec.iter().collect();
        if f.len() < 2 {
            return Err("short row".into());
        }
        let mut row = vec![f[0].to_string(), f[1].to_string()];
        row.extend(f[2..].iter().map(|s| parse(s)));
        parts.push(row.join(" "));
    }
    Ok(parts.join(" | "))
}

fn batches_to_line(schema: Vec<String>, batches: Vec<RecordBatch>) -> Result<String, String> {
    let mut parts = vec![schema.join(" ")];
    for b in batches {
        let l1 = b.column(0).as_any().downcast_ref::<UInt32Array>().ok_or("label column 0 is not UInt32")?;
        let l2 = b.column(1).as_any().downcast_ref::<UInt32Array>().ok_or("label column 1 is not UInt32")?;
        let dims: Vec<&Float64Array> = (2..b.num_columns())
            .map(|c| b.column(c).as_any().downcast_ref::<Float64Array>().ok_or("dim column is not Float64"))
            .collect::<Result<_, _>>()?;
        for r in 0..b.num_rows() {
            let mut row = vec![l1.value(r).to_string(), l2.value(r).to_string()];
            for d in &dims {
                if d.is_null(r) {
                    return Err("null value".into());
                }
                row.push(f64tok(d.value(r)));
            }
            parts.push(row.join(" "));
        }
    }
    Ok(parts.join(" | "))
}

fn read_arrow(path: &str) -> Result<String, String> {
    let f = File::open(path).map_err(|e| e.to_string())?;
    let reader = FileReader::try_new(f, None).map_err(|e| e.to_string())?;
    let schema: Vec<String> = reader.schema().fields().iter().map(|f| f.name().clone()).collect();
    let batches: Vec<RecordBatch> = reader.collect::<Result<_, _>>().map_err(|e| e.to_string())?;
    batches_to_line(schema, batches)
}
fn read_parquet(path: &str) -> Result<String, String> {
    let f = File::open(path).map_err(|e| e.to_string())?;
    let builder = ParquetRecordBatchReaderBuilder::try_new(f).map_err(|e| e.to_string())?;
    let schema: Vec<String> = builder.schema().fields().iter().map(|f| f.name().clone()).collect();
    let reader = builder.build().map_err(|e| e.to_string())?;
    let batches: Vec<RecordBatch> = reader.collect::<Result<_, _>>().map_err(|e| e.to_string())?;
    batches_to_line(schema, batches)
}

fn emit(out: &mut Out, id: &str, layout: &str, a: usize, b: usize, k: usize, elem: &str, flat: Vec<String>, back: Result<String, String>, what: &str) {
    match back {
        Ok(line) => {
            out.case(format!("c17 {id} {layout} {a} {b} {k} {elem} ; {}", flat.join(" ")), format!("{id} {line}"));
            out.nontrivial(&format!("{what}:{a}:{b}:{k}:{elem}"));
            out.count(&format!("writer_{what}"));
            if a * b * k == 0 {
                out.count("empty_arrays");
            }
        }
        Err(e) => out.fail(id, &format!("C17:unreadable:{what}"), "file written successfully cannot be read back", (a * b * k) as u64, e),
    }
}

fn bad_path(out: &mut Out, rng: &mut Sm) {
    let id = out.fresh_id("err");
    if !out.selected(&id) {
        return;
    }
    let _ = rng.next();
    let p = "/verif/work/C17/no-such-dir/sub/file.out";
    let a3 = Array3::<f64>::zeros((2, 3, 2));
    let t = Tensor::<NdArray<f32>, 3>::from_data(TensorData::new(vec![0.5f32; 12], [2, 3, 2]), &Default::default());
    let results: Vec<(&str, Result<bool, String>)> = vec![
        ("save_csv", guarded(|| save_csv(&a3, p).is_err())),
        ("save_csv_tensor", guarded(|| save_csv_tensor(t.clone(), p).is_err())),
        ("save_arrow", guarded(|| save_arrow(&a3, p).is_err())),
        ("save_parquet", guarded(|| save_parquet(&a3, p).is_err())),
        ("save_parquet_tensor", guarded(|| save_parquet_tensor::<NdArray<f32>, _, f32>(&t, p).is_err())),
    ];
    for (name, r) in results {
        out.count("predicate_evaluations");
        match r {
            Ok(true) => out.count("unwritable_path_err"),
            Ok(false) => out.fail(&id, &format!("C17:bad-path-ok:{name}"), "unwritable path reported success", 1, name.into()),
            Err(m) => out.fail(&id, &format!("C17:bad-path-panic:{name}"), "unwritable path caused a panic", 1, m),
        }
    }
    // destinations that can be opened but not written: a device that is always full (every write fails with ENOSPC,
    // also the one deferred to the final flush), for outputs below and above the writers' buffer sizes; and a directory
    if std::path::Path::new("/dev/full").exists() {
        for (c, n, k) in [(1usize, 1usize, 1usize), (2, 3, 2), (4, 40, 8), (6, 400, 8)] {
            let a3 = Array3::<f64>::from_shape_fn((c, n, k), |(i, j, l)| (i * 1000 + j * 10 + l) as f64 + 0.25);
            let v: Vec<f32> = a3.iter().map(|x| *x as f32).collect();
            let t = Tensor::<NdArray<f32>, 3>::from_data(TensorData::new(v, [c, n, k]), &Default::default());
            let p = "/dev/full";
            let results: Vec<(&str, Result<bool, String>)> = vec![
                ("save_csv", guarded(|| save_csv(&a3, p).is_err())),
                ("save_csv_tensor", guarded(|| save_csv_tensor(t.clone(), p).is_err())),
                ("save_arrow", guarded(|| save_arrow(&a3, p).is_err())),
                ("save_parquet", guarded(|| save_parquet(&a3, p).is_err())),
                ("save_parquet_tensor", guarded(|| save_parquet_tensor::<NdArray<f32>, _, f32>(&t, p).is_err())),
            ];
            for (name, r) in results {
                out.count("predicate_evaluations");
                match r {
                    Ok(true) => out.count("full_device_err"),
                    Ok(false) => out.fail(&id, &format!("C17:full-device-ok:{name}"), "a destination on which every write fails (/dev/full) reported success", (c * n * k) as u64, format!("{name} shape {c}x{n}x{k}")),
                    Err(m) => out.fail(&id, &format!("C17:full-device-panic:{name}"), "a destination on which every write fails caused a panic", (c * n * k) as u64, m),
                }
            }
        }
    } else {
        out.count("dev_full_not_available");
    }
    let dirp = "/verif/work/C17";
    let results: Vec<(&str, Result<bool, String>)> = vec![
        ("save_csv", guarded(|| save_csv(&a3, dirp).is_err())),
        ("save_arrow", guarded(|| save_arrow(&a3, dirp).is_err())),
        ("save_parquet", guarded(|| save_parquet(&a3, dirp).is_err())),
    ];
    for (name, r) in results {
        out.count("predicate_evaluations");
        match r {
            Ok(true) => out.count("directory_path_err"),
            Ok(false) => out.fail(&id, &format!("C17:dir-path-ok:{name}"), "a directory given as destination reported success", 1, name.into()),
            Err(m) => out.fail(&id, &format!("C17:dir-path-panic:{name}"), "a directory given as destination caused a panic", 1, m),
        }
    }
}

pub fn run(out: &mut Out) {
    let mut rng = out.rng("c17");
    let n = out.n(50, 600);
    bad_path(out, &mut rng);
    for i in 0..n {
        let id = out.fresh_id("io");
        let (c, nobs, k) = shape(&mut rng);
        let p_special = *rng.pick(&[0.0, 0.05, 0.3]);
        let layout = if rng.coin(0.4) { 0 } else { rng.range(1, 4) };
        let v64 = gen64(&mut rng, c * nobs * k, p_special);
        let v32 = gen32(&mut rng, c * nobs * k, p_special);
        let vi: Vec<i32> = (0..c * nobs * k).map(|_| if rng.coin(0.1) { *rng.pick(&[i32::MIN, i32::MAX, 0, -1]) } else { rng.next() as i32 >> rng.below(31) }).collect();
        let vu: Vec<usize> = (0..c * nobs * k).map(|_| if rng.coin(0.1) { usize::MAX } else { (rng.next() >> rng.below(63)) as usize }).collect();
        if !out.selected(&id) {
            continue;
        }
        let size = (c * nobs * k) as u64;
        guard_case(out, &id.clone(), "C17:panic", size, |out| {
            let p = tmp(out, &format!("f{i}"));
            let a64 = relayout(&Array3::from_shape_vec((c, nobs, k), v64.clone()).unwrap(), layout);
            let a32 = relayout(&Array3::from_shape_vec((c, nobs, k), v32.clone()).unwrap(), layout);
            let ai = relayout(&Array3::from_shape_vec((c, nobs, k), vi.clone()).unwrap(), layout);
            let au = relayout(&Array3::from_shape_vec((c, nobs, k), vu.clone()).unwrap(), layout);
            out.count(&format!("array_layout_{}{}", layout, if a64.is_standard_layout() { "_standard" } else { "_nonstandard" }));
            let t64: Vec<String> = v64.iter().map(|x| h64(*x)).collect();
            let t32: Vec<String> = v32.iter().map(|x| h32(*x)).collect();
            let ti: Vec<String> = vi.iter().map(|x| x.to_string()).collect();
            let tu: Vec<String> = vu.iter().map(|x| x.to_string()).collect();
            let must = |out: &mut Out, what: &str, r: Result<(), Box<dyn std::error::Error>>| -> bool {
                if let Err(e) = r {
                    out.fail(&id, &format!("C17:write-failed:{what}"), "writer returned an error on a writable path", size, e.to_string());
                    false
                } else {
                    true
                }
            };
            // --- CSV, array entry point
            if must(out, "save_csv_f64", save_csv(&a64, &p)) {
                emit(out, &format!("{id}.csv64"), "a3", c, nobs, k, "f64", t64.clone(), read_csv(&p, &|s| s.parse::<f64>().map(f64tok).unwrap_or(format!("unparsable:{s}"))), "save_csv_f64");
            }
            if must(out, "save_csv_f32", save_csv(&a32, &p)) {
                emit(out, &format!("{id}.csv32"), "a3", c, nobs, k, "f32", t32.clone(), read_csv(&p, &|s| s.parse::<f32>().map(f32tok).unwrap_or(format!("unparsable:{s}"))), "save_csv_f32");
            }
            if must(out, "save_csv_i32", save_csv(&ai, &p)) {
                emit(out, &format!("{id}.csvi"), "a3", c, nobs, k, "raw", ti.clone(), read_csv(&p, &|s| s.parse::<i32>().map(|x| x.to_string()).unwrap_or(format!("unparsable:{s}"))), "save_csv_i32");
            }
            if must(out, "save_csv_usize", save_csv(&au, &p)) {
                emit(out, &format!("{id}.csvu"), "a3", c, nobs, k, "raw", tu.clone(), read_csv(&p, &|s| s.parse::<usize>().map(|x| x.to_string()).unwrap_or(format!("unparsable:{s}"))), "save_csv_usize");
            }
            // --- Arrow / Parquet, array entry points (values widened to f64)
            if must(out, "save_arrow_f64", save_arrow(&a64, &p)) {
                emit(out, &format!("{id}.ar64"), "a3", c, nobs, k, "f64", t64.clone(), read_arrow(&p), "save_arrow_f64");
            }
            if must(out, "save_arrow_f32", save_arrow(&a32, &p)) {
                emit(out, &format!("{id}.ar32"), "a3", c, nobs, k, "f32w", t32.clone(), read_arrow(&p), "save_arrow_f32");
            }
            if must(out, "save_arrow_i32", save_arrow(&ai, &p)) {
                emit(out, &format!("{id}.ari"), "a3", c, nobs, k, "i32w", ti.clone(), read_arrow(&p), "save_arrow_i32");
            }
            if must(out, "save_parquet_f64", save_parquet(&a64, &p)) {
                emit(out, &format!("{id}.pq64"), "a3", c, nobs, k, "f64", t64.clone(), read_parquet(&p), "save_parquet_f64");
            }
            if must(out, "save_parquet_f32", save_parquet(&a32, &p)) {
                emit(out, &format!("{id}.pq32"), "a3", c, nobs, k, "f32w", t32.clone(), read_parquet(&p), "save_parquet_f32");
            }
            if must(out, "save_parquet_i32", save_parquet(&ai, &p)) {
                emit(out, &format!("{id}.pqi"), "a3", c, nobs, k, "i32w", ti.clone(), read_parquet(&p), "save_parquet_i32");
            }
            // --- tensor entry points (f32 backend); zero-sized tensors only if burn can build them
            let tensor = guarded(|| Tensor::<NdArray<f32>, 3>::from_data(TensorData::new(v32.clone(), [c, nobs, k]), &Default::default()));
            match tensor {
                Err(_) => out.count("tensor_not_constructible"),
                Ok(t) => {
                    // csv tensor: [chain, obs, dim]
                    if must(out, "save_csv_tensor", save_csv_tensor(t.clone(), &p)) {
                        emit(out, &format!("{id}.csvt"), "cm", c, nobs, k, "f32", t32.clone(), read_csv(&p, &|s| s.parse::<f32>().map(f32tok).unwrap_or(format!("unparsable:{s}"))), "save_csv_tensor");
                    }
                    // parquet tensor: the same buffer read as [observation = c, chain = nobs, dim]
                    if must(out, "save_parquet_tensor", save_parquet_tensor::<NdArray<f32>, _, f32>(&t, &p)) {
                        emit(out, &format!("{id}.pqt"), "om", c, nobs, k, "f32w", t32.clone(), read_parquet(&p), "save_parquet_tensor");
                    }
                }
            }
            let _ = std::fs::remove_file(&p);
        });
    }
    let _ = std::fs::remove_dir_all(format!("/verif/work/C17/tmp-{}", out.seed));
}

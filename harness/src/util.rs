//! Shared helpers: deterministic PRNG for generators, float formatting, crafted generators, output files.
#![allow(dead_code)]

use rand::rngs::SmallRng;
use rand::SeedableRng;
use serde_json::json;
use std::collections::{BTreeMap, BTreeSet};
use std::io::Write;

/// splitmix64 — every random choice of a generator derives from one of these, seeded from VERIF_SEED.
#[derive(Clone, Debug)]
pub struct Sm(pub u64);

impl Sm {
    pub fn new(seed: u64, stream: &str) -> Self {
        let mut h: u64 = 0xcbf29ce484222325;
        for b in stream.bytes() {
            h ^= b as u64;
            h = h.wrapping_mul(0x100000001b3);
        }
        let mut s = Sm(seed ^ h);
        s.next();
        s
    }
    pub fn next(&mut self) -> u64 {
        self.0 = self.0.wrapping_add(0x9e3779b97f4a7c15);
        let mut z = self.0;
        z = (z ^ (z >> 30)).wrapping_mul(0xbf58476d1ce4e5b9);
        z = (z ^ (z >> 27)).wrapping_mul(0x94d049bb133111eb);
        z ^ (z >> 31)
    }
    /// uniform in 0..n (n ≥ 1)
    pub fn below(&mut self, n: u64) -> u64 {
        self.next() % n
    }
    /// uniform in lo..=hi
    pub fn range(&mut self, lo: u64, hi: u64) -> u64 {
        lo + self.below(hi - lo + 1)
    }
    pub fn unit(&mut self) -> f64 {
        (self.next() >> 11) as f64 / (1u64 << 53) as f64
    }
    pub fn uniform(&mut self, lo: f64, hi: f64) -> f64 {
        lo + (hi - lo) * self.unit()
    }
    pub fn log_uniform(&mut self, lo: f64, hi: f64) -> f64 {
        (lo.ln() + (hi.ln() - lo.ln()) * self.unit()).exp()
    }
    /// standard normal by Box–Muller (generator-side only)
    pub fn normal(&mut self) -> f64 {
        let u1 = 1.0 - self.unit();
        let u2 = self.unit();
        (-2.0 * u1.ln()).sqrt() * (2.0 * std::f64::consts::PI * u2).cos()
    }
    pub fn coin(&mut self, p: f64) -> bool {
        self.unit() < p
    }
    pub fn pick<'a, T>(&mut self, xs: &'a [T]) -> &'a T {
        &xs[self.below(xs.len() as u64) as usize]
    }
    /// a dyadic rational k / 2^q with |k| < 2^bits — exactly representable in f32 for bits ≤ 24
    pub fn dyadic(&mut self, bits: u32, q: u32) -> f64 {
        let k = self.below(1 << bits) as i64 - (1i64 << (bits - 1));
        k as f64 / (1u64 << q) as f64
    }
}

pub fn h64(x: f64) -> String {
    format!("{:016x}", x.to_bits())
}
pub fn h32(x: f32) -> String {
    format!("{:08x}", x.to_bits())
}
/// tolerant-compare tokens
pub fn td(x: f64) -> String {
    format!("d{:016x}", x.to_bits())
}
pub fn ts(x: f32) -> String {
    format!("s{:08x}", x.to_bits())
}

/// A `SmallRng` (xoshiro256++) whose next `next_u64()` is exactly `w`:
/// result = rotl(s0 + s3, 23) + s0 with s0 = 0, so s3 = rotr(w, 23).
/// `random::<f64>()` is then `(w >> 11) * 2^-53`, `random::<f32>()` is `(w >> 40) * 2^-24`.
pub fn crafted_rng(w: u64) -> SmallRng {
    let mut seed = [0u8; 32];
    seed[8..16].copy_from_slice(&1u64.to_le_bytes());
    seed[16..24].copy_from_slice(&2u64.to_le_bytes());
    seed[24..32].copy_from_slice(&w.rotate_right(23).to_le_bytes());
    SmallRng::from_seed(seed)
}
/// word that makes `random::<f64>()` return `u` (u = k·2^-53)
pub fn word_for_f64(u: f64) -> u64 {
    let k = (u * (1u64 << 53) as f64) as u64;
    k << 11
}
/// word that makes `random::<f32>()` return `u` (u = k·2^-24)
pub fn word_for_f32(u: f32) -> u64 {
    let k = (u as f64 * (1u64 << 24) as f64) as u64;
    k << 40
}

#[derive(Clone, Debug)]
pub struct Fail {
    pub case_id: String,
    /// stable key identifying the class of failing input / call site (matched against known findings)
    pub key: String,
    pub what: String,
    /// smaller = simpler case (the smallest failing case is reported as the replay)
    pub size: u64,
    pub detail: String,
}

pub struct Out {
    pub prop: String,
    pub seed: u64,
    pub tier: String,
    pub only: Option<String>,
    pub cases: Vec<String>,
    pub impl_out: Vec<String>,
    pub fails: Vec<Fail>,
    pub counters: BTreeMap<String, u64>,
    pub samples: Vec<String>,
    pub distinct: BTreeSet<u64>,
    pub notes: Vec<String>,
    next_id: u64,
    started: std::time::Instant,
    budget_s: f64,
}

impl Out {
    pub fn new(prop: &str) -> Self {
        let seed = std::env::var("VERIF_SEED")
            .ok()
            .and_then(|s| s.parse::<u64>().ok())
            .unwrap_or(20260929);
        let tier = std::env::var("VERIF_TIER").unwrap_or_else(|_| "quick".to_string());
        let only = std::env::var("VERIF_ONLY").ok().filter(|s| !s.is_empty());
        Out {
            prop: prop.to_string(),
            seed,
            tier,
            only,
            cases: vec![],
            impl_out: vec![],
            fails: vec![],
            counters: BTreeMap::new(),
            samples: vec![],
            distinct: BTreeSet::new(),
            notes: vec![],
            next_id: 0,
            started: std::time::Instant::now(),
            budget_s: std::env::var("VERIF_BUDGET_S").ok().and_then(|s| s.parse::<f64>().ok()).unwrap_or(if std::env::var("VERIF_TIER").map(|t| t == "thorough").unwrap_or(false) { 1500.0 } else { 200.0 }),
        }
    }
    pub fn thorough(&self) -> bool {
        self.tier == "thorough"
    }
    /// pick n by tier
    pub fn n(&self, quick: u64, thorough: u64) -> u64 {
        if self.thorough() {
            thorough
        } else {
            quick
        }
    }
    pub fn rng(&self, stream: &str) -> Sm {
        Sm::new(self.seed, stream)
    }
    pub fn fresh_id(&mut self, prefix: &str) -> String {
        self.next_id += 1;
        format!("{}{}", prefix, self.next_id)
    }
    /// is this case selected (replay mode restricts to one id)?
    pub fn selected(&self, id: &str) -> bool {
        if std::env::var("VERIF_TRACE").is_ok() {
            eprintln!("case {id}");
        }
        match &self.only {
            None => self.started.elapsed().as_secs_f64() <= self.budget_s,
            Some(o) => o == id,
        }
    }
    /// wall-clock budget of one harness run (case generation stops once it is used up; the number of cases actually
    /// run is in the counters, so a slow machine shortens the exploration instead of running into the check's timeout)
    pub fn over_budget(&self) -> bool {
        self.only.is_none() && self.started.elapsed().as_secs_f64() > self.budget_s
    }
    pub fn count(&mut self, key: &str) {
        *self.counters.entry(key.to_string()).or_insert(0) += 1;
    }
    pub fn count_n(&mut self, key: &str, n: u64) {
        *self.counters.entry(key.to_string()).or_insert(0) += n;
    }
    /// register a model-vs-implementation case: `case` goes to the Lean driver, `impl_line` is what the real code produced
    pub fn case(&mut self, case: String, impl_line: String) {
        if self.samples.len() < 3 {
            self.samples.push(format!("{}  =>  {}", trunc(&case, 400), trunc(&impl_line, 400)));
        }
        self.cases.push(case);
        self.impl_out.push(impl_line);
        self.count("cases");
    }
    /// register a signature of a non-trivial case for distinct counting
    pub fn nontrivial(&mut self, sig: &str) {
        let mut h: u64 = 0xcbf29ce484222325;
        for b in sig.bytes() {
            h ^= b as u64;
            h = h.wrapping_mul(0x100000001b3);
        }
        self.distinct.insert(h);
    }
    pub fn fail(&mut self, case_id: &str, key: &str, what: &str, size: u64, detail: String) {
        self.count("impl_vs_property_failures");
        self.fails.push(Fail {
            case_id: case_id.to_string(),
            key: key.to_string(),
            what: what.to_string(),
            size,
            detail,
        });
    }
    pub fn write(&self, dir: &str) {
        std::fs::create_dir_all(dir).unwrap();
        let mut f = std::fs::File::create(format!("{dir}/cases.txt")).unwrap();
        for c in &self.cases {
            writeln!(f, "{}", c).unwrap();
        }
        let mut f = std::fs::File::create(format!("{dir}/impl.out")).unwrap();
        for c in &self.impl_out {
            writeln!(f, "{}", c).unwrap();
        }
        let mut f = std::fs::File::create(format!("{dir}/fails.jsonl")).unwrap();
        for x in &self.fails {
            writeln!(
                f,
                "{}",
                json!({"case_id": x.case_id, "key": x.key, "what": x.what, "size": x.size, "detail": x.detail})
            )
            .unwrap();
        }
        let mut counters = self.counters.clone();
        if self.over_budget() {
            counters.insert("time_budget_reached_s".to_string(), self.budget_s as u64);
        }
        let mut f = std::fs::File::create(format!("{dir}/stats.json")).unwrap();
        writeln!(
            f,
            "{}",
            json!({
                "property": self.prop, "seed": self.seed, "tier": self.tier,
                "counters": counters, "samples": self.samples,
                "distinct_nontrivial": self.distinct.len(), "notes": self.notes,
            })
        )
        .unwrap();
    }
}

pub fn trunc(s: &str, n: usize) -> String {
    if s.len() <= n {
        s.to_string()
    } else {
        let mut k = n;
        while !s.is_char_boundary(k) {
            k -= 1;
        }
        format!("{}…[{} bytes]", &s[..k], s.len())
    }
}

/// run the body of one case; a panic inside the library becomes a property-predicate failure on that case
pub fn guard_case(out: &mut Out, id: &str, key: &str, size: u64, f: impl FnOnce(&mut Out)) {
    let r = std::panic::catch_unwind(std::panic::AssertUnwindSafe(|| f(out)));
    if let Err(e) = r {
        let msg = if let Some(s) = e.downcast_ref::<&str>() {
            s.to_string()
        } else if let Some(s) = e.downcast_ref::<String>() {
            s.clone()
        } else {
            "panic".to_string()
        };
        out.fail(id, key, "the library panicked on this case", size, trunc(&msg, 600));
    }
}

/// run a closure, turning a panic into Err(message)
pub fn guarded<R>(f: impl FnOnce() -> R) -> Result<R, String> {
    match std::panic::catch_unwind(std::panic::AssertUnwindSafe(f)) {
        Ok(r) => Ok(r),
        Err(e) => {
            let msg = if let Some(s) = e.downcast_ref::<&str>() {
                s.to_string()
            } else if let Some(s) = e.downcast_ref::<String>() {
                s.clone()
            } else {
                "panic".to_string()
            };
            Err(msg)
        }
    }
}

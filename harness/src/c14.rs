//! C14 — no sampler ever moves to a zero-density, NaN-density or non-finite state; no panic, no hang.
use crate::c02::{event, parse_hex_list};
use crate::nuts::{emit_step, parse_step};
use crate::targets::*;
use crate::util::*;
use burn::backend::{Autodiff, NdArray};
use burn::tensor::backend::AutodiffBackend;
use mini_mcmc::core::MarkovChain;
use mini_mcmc::distributions::{IsotropicGaussian, Proposal, Target};
use mini_mcmc::hmc::HMC;
use mini_mcmc::metropolis_hastings::MHMarkovChain;
use mini_mcmc::nuts::{NUTSChain, NUTS};
use mini_mcmc::verif_hooks;
use rand_distr::{Exp1, StandardNormal, StandardUniform};
use std::sync::mpsc;
use std::time::Duration;

/// the IEEE law table the special-value theorems assume, evaluated on native floats
fn law_table(out: &mut Out) {
    macro_rules! laws {
        ($t:ty, $name:expr) => {{
            let nan = <$t>::NAN;
            let ninf = <$t>::NEG_INFINITY;
            let pinf = <$t>::INFINITY;
            let vals: Vec<$t> = vec![nan, ninf, pinf, 0.0, -0.0, 1.0, -1.5, <$t>::MAX, <$t>::MIN, <$t>::MIN_POSITIVE, 1e30, -1e30];
            let bad = |x: $t| x.is_nan() || x == ninf;
            let badpos = |x: $t| x.is_nan() || x == pinf;
            let mut ok = true;
            for &a in &vals {
                for &b in &vals {
                    if bad(a) {
                        ok &= bad(a + b) && bad(a - b) && !(b < a);
                        ok &= badpos(-a);
                        if b <= a {
                            ok &= b == ninf;
                        }
                    }
                    if bad(b) {
                        ok &= bad(a + b);
                    }
                    if badpos(a) {
                        ok &= badpos(a + b);
                    }
                    if badpos(b) {
                        ok &= bad(a - b);
                    }
                    if a.is_nan() {
                        ok &= (a + b).is_nan() && (b + a).is_nan() && (a - b).is_nan() && (b - a).is_nan() && !(b < a) && !(a < b);
                    }
                    // r < x + 0 -> r < x (C16)
                    if a < b + 0.0 {
                        ok &= a < b;
                    }
                }
            }
            // the three uniform laws of `UnifLaws` (Props/C14Nuts.lean): for u in [0,1) and n >= 1,
            // not (u < 0/n), u < n/n, not (u < min(1, 0/n)); n is cast the way the code casts counts (T::from(usize))
            let one: $t = 1.0;
            let us: Vec<$t> = vec![0.0, <$t>::MIN_POSITIVE, <$t>::EPSILON, 0.25, 0.5, 1.0 - <$t>::EPSILON / 2.0, 1.0 - <$t>::EPSILON];
            let mut n: u64 = 1;
            while n < (1u64 << 62) {
                for m in [n, n + 1, 3 * n] {
                    let nf = m as $t;
                    let z = (0 as $t) / nf;
                    let minone = if z < one { z } else { one };
                    for &u in &us {
                        ok &= !(u < z) && (u < nf / nf) && !(u < minone);
                    }
                }
                n *= 2;
            }
            out.count("predicate_evaluations");
            if !ok {
                out.fail("laws", "C14:ieee-laws", "the IEEE special-value laws assumed by the theorems do not hold for native floats", 1, $name.to_string());
            } else {
                out.count(&format!("ieee_law_table_{}", $name));
            }
        }};
    }
    laws!(f32, "f32");
    laws!(f64, "f64");
}

pub fn watchdog<R: Send + 'static>(secs: u64, f: impl FnOnce() -> R + Send + 'static) -> Option<Result<R, String>> {
    let (tx, rx) = mpsc::channel();
    std::thread::spawn(move || {
        let r = std::panic::catch_unwind(std::panic::AssertUnwindSafe(f)).map_err(|e| {
            if let Some(s) = e.downcast_ref::<&str>() {
                s.to_string()
            } else if let Some(s) = e.downcast_ref::<String>() {
                s.clone()
            } else {
                "panic".into()
            }
        });
        let _ = tx.send(r);
    });
    rx.recv_timeout(Duration::from_secs(secs)).ok()
}

fn bad_state(target: &AnyTarget, x: &[f64]) -> Option<String> {
    if x.iter().any(|v| !v.is_finite()) {
        return Some(format!("non-finite coordinates {x:?}"));
    }
    let lp = target.logp64(x);
    if lp.is_nan() || lp == f64::NEG_INFINITY {
        return Some(format!("log-density {lp} at {x:?}"));
    }
    None
}

fn boundary_target(rng: &mut Sm) -> (AnyTarget, usize, Vec<f64>) {
    match rng.below(4) {
        0 | 1 => {
            let d = rng.range(1, 4) as usize;
            let mut x: Vec<f64> = (0..d).map(|_| rng.normal() * 0.5).collect();
            x[0] = if rng.coin(0.5) { rng.log_uniform(1e-3, 0.1) } else { rng.uniform(0.1, 2.0) }; // one step inside the boundary
            (AnyTarget::HalfLine { rate: rng.uniform(0.5, 3.0) }, d, x)
        }
        2 => {
            let d = rng.range(1, 3) as usize;
            let x: Vec<f64> = (0..d).map(|_| if rng.coin(0.5) { rng.log_uniform(1e-3, 0.05) } else { rng.uniform(0.05, 0.95) }).collect();
            (AnyTarget::LogBox, d, x)
        }
        _ => {
            let d = rng.range(1, 4) as usize;
            (AnyTarget::Quartic, d, (0..d).map(|_| rng.normal()).collect())
        }
    }
}

#[derive(Clone)]
struct MhT(AnyTarget);
impl Target<f64, f64> for MhT {
    fn unnorm_logp(&self, x: &[f64]) -> f64 {
        self.0.logp64(x)
    }
}

fn mh_case(out: &mut Out, rng: &mut Sm) {
    let id = out.fresh_id("mh");
    let (target, d, x0) = boundary_target(rng);
    let std = rng.log_uniform(0.05, 50.0);
    let seed = rng.next();
    if !out.selected(&id) {
        return;
    }
    let t2 = target.clone();
    let res = watchdog(30, move || {
        let mut c = MHMarkovChain::new(MhT(t2.clone()), IsotropicGaussian::<f64>::new(std).set_seed(seed), x0.clone());
        c.rng = <rand::rngs::SmallRng as rand::SeedableRng>::seed_from_u64(seed ^ 1);
        let mut bad = None;
        for k in 0..300 {
            let s = c.step().clone();
            if let Some(w) = bad_state(&t2, &s) {
                bad = Some(format!("step {k}: {w}"));
                break;
            }
        }
        bad
    });
    out.count("predicate_evaluations");
    match res {
        None => out.fail(&id, "C14:mh-hang", "Metropolis-Hastings did not return", d as u64, format!("{}", target.name())),
        Some(Err(p)) => out.fail(&id, "C14:mh-panic", "Metropolis-Hastings panicked", d as u64, p),
        Some(Ok(Some(w))) => out.fail(&id, "C14:mh-bad-state", "Metropolis-Hastings moved to a zero-density / NaN-density / non-finite state", d as u64, format!("{} std={std}: {w}", target.name())),
        Some(Ok(None)) => out.count(&format!("mh_{}", target.name())),
    }
    out.nontrivial(&format!("mh:{}:{d}:{seed}", target.name()));
}

fn hmc_case<T: Sc, B: AutodiffBackend>(out: &mut Out, rng: &mut Sm)
where
    StandardNormal: rand::distr::Distribution<T>,
    StandardUniform: rand_distr::Distribution<T>,
    T: rand_distr::uniform::SampleUniform + num_traits::FromPrimitive,
    B::Device: Send,
{
    let id = out.fresh_id("hmc");
    let (target, d, x0) = boundary_target(rng);
    let n_chains = rng.range(1, 6) as usize;
    let eps = match rng.below(4) {
        0 => rng.log_uniform(0.01, 0.5),
        1 => rng.log_uniform(0.5, 100.0),
        2 => rng.log_uniform(1e3, 1e15),
        _ => *rng.pick(&[1e30, 1e38, 1e300]),
    };
    let l = rng.range(1, 10) as usize;
    let seed = rng.next();
    let init: Vec<Vec<f64>> = (0..n_chains).map(|i| x0.iter().map(|v| v * (1.0 - 0.04 * i as f64)).collect()).collect();
    if !out.selected(&id) {
        return;
    }
    let t2 = target.clone();
    let res = watchdog(60, move || {
        let init_t: Vec<Vec<T>> = init.iter().map(|r| r.iter().map(|x| T::from64(*x)).collect()).collect();
        let mut s = HMC::<T, B, AnyTarget>::new(t2.clone(), init_t, T::from64(eps), l).set_seed(seed);
        let mut bad = None;
        let mut cases = vec![];
        for k in 0..25 {
            let before: Vec<f64> = s.positions.to_data().convert::<f64>().to_vec().unwrap();
            verif_hooks::tl_enable();
            s.step();
            let ev = verif_hooks::tl_drain();
            let after: Vec<f64> = s.positions.to_data().convert::<f64>().to_vec().unwrap();
            for i in 0..n_chains {
                if let Some(w) = bad_state(&t2, &after[i * d..(i + 1) * d]) {
                    bad = Some(format!("step {k} row {i}: {w}"));
                }
            }
            if k < 3 {
                if let (Some(m), Some(u), Some(a)) = (event(&ev, "hmc momentum "), event(&ev, "hmc uniform "), event(&ev, "hmc accept ")) {
                    let (m, u) = (parse_hex_list(m), parse_hex_list(u));
                    let a: Vec<bool> = a.split(',').map(|x| x == "1").collect();
                    cases.push((k, before.clone(), m, u, a, after.clone()));
                }
            }
            if bad.is_some() {
                break;
            }
        }
        (bad, cases)
    });
    out.count("predicate_evaluations");
    match res {
        None => out.fail(&id, "C14:hmc-hang", "HMC did not return", d as u64, format!("{} eps={eps}", target.name())),
        Some(Err(p)) => out.fail(&id, "C14:hmc-panic", "HMC panicked", d as u64, p),
        Some(Ok((bad, cases))) => {
            if let Some(w) = bad {
                out.fail(&id, "C14:hmc-bad-state", "HMC moved to a zero-density / NaN-density / non-finite state", d as u64, format!("{} eps={eps} L={l}: {w}", target.name()));
            }
            let hx = |v: &[f64]| v.iter().map(|x| T::from64(*x).hex()).collect::<Vec<_>>().join(" ");
            for (k, before, m, u, a, after) in cases {
                let i = 0;
                let cid = format!("{id}.{k}");
                out.case(
                    format!("c02 {cid} {} {l} {} ; {} ; {} ; {} ; {}", T::NAME, T::from64(eps).hex(), target.spec::<T>(), hx(&before[i * d..(i + 1) * d]), hx(&m[i * d..(i + 1) * d]), T::from64(u[i]).hex()),
                    format!("{cid} {} {}", if a[i] { 1 } else { 0 }, after[i * d..(i + 1) * d].iter().map(|x| T::from64(*x).tok()).collect::<Vec<_>>().join(" ")),
                );
            }
            out.count(&format!("hmc_{}", target.name()));
        }
    }
    out.nontrivial(&format!("hmc:{}:{}:{d}:{seed}", T::NAME, target.name()));
}

fn nuts_case<T: Sc, B: AutodiffBackend>(out: &mut Out, rng: &mut Sm)
where
    StandardNormal: rand::distr::Distribution<T>,
    StandardUniform: rand_distr::Distribution<T>,
    Exp1: rand_distr::Distribution<T>,
    T: rand_distr::uniform::SampleUniform + num_traits::FromPrimitive,
{
    let id = out.fresh_id("nuts");
    let (target, d, x0) = boundary_target(rng);
    let seed = rng.next();
    let inject = match rng.below(4) {
        0 => None,
        1 => Some(rng.log_uniform(1.0, 1e3)),
        2 => Some(rng.log_uniform(1e5, 1e20)),
        _ => Some(*rng.pick(&[1e30, 1e38, 1e300])),
    };
    if !out.selected(&id) {
        return;
    }
    let t2 = target.clone();
    let res = watchdog(90, move || {
        let p: Vec<T> = x0.iter().map(|x| T::from64(*x)).collect();
        let mut c = NUTSChain::<T, B, AnyTarget>::new(t2.clone(), p, T::from64(0.8)).set_seed(seed);
        c.verif_init_chain(20, 5);
        let mut bad = None;
        let mut traces = vec![];
        let t_start = std::time::Instant::now();
        for k in 0..20 {
            if c.verif_adapt_state().2.to64() < 2e-3 || t_start.elapsed().as_secs_f64() > 20.0 {
                break;
            }
            if let (Some(e), true) = (inject, k == 3) {
                c.verif_set_epsilon(T::from64(e));
            }
            verif_hooks::tl_enable();
            c.step();
            let ev = verif_hooks::tl_drain();
            let pos: Vec<f64> = c.position.to_data().convert::<f64>().to_vec().unwrap();
            if let Some(w) = bad_state(&t2, &pos) {
                bad = Some(format!("step {k}: {w}"));
                break;
            }
            if let Some(tr) = parse_step(&ev) {
                if tr.depth <= 9 {
                    traces.push((k, tr));
                }
            }
        }
        // replay at most five transitions per history, those that met a NaN joint density first
        traces.sort_by_key(|(k, tr)| (!tr.leaves.iter().any(|l| l.1.is_nan()), *k));
        traces.truncate(5);
        (bad, traces)
    });
    out.count("predicate_evaluations");
    match res {
        None => out.fail(&id, "C14:nuts-hang", "NUTS did not return", d as u64, format!("{} inject={inject:?}", target.name())),
        Some(Err(p)) => out.fail(&id, "C14:nuts-panic", "NUTS panicked", d as u64, p),
        Some(Ok((bad, traces))) => {
            if let Some(w) = bad {
                out.fail(&id, "C14:nuts-bad-state", "NUTS moved to a zero-density / NaN-density / non-finite state", d as u64, format!("{} inject={inject:?}: {w}", target.name()));
            }
            for (k, tr) in traces {
                emit_step::<T>(out, &format!("{id}.{k}"), "C14", &target, &tr, d as u64);
            }
            out.count(&format!("nuts_{}", target.name()));
        }
    }
    out.nontrivial(&format!("nuts:{}:{}:{d}:{seed}", T::NAME, target.name()));
}

/// `NUTS::run` (find_reasonable_epsilon, warm-up with dual averaging, collection) on a target that is NaN outside its
/// support, two chains, under a watchdog; every returned draw is judged with the harness's own copy of the target
fn nuts_run_case<T: Sc, B: AutodiffBackend>(out: &mut Out, rng: &mut Sm)
where
    StandardNormal: rand::distr::Distribution<T>,
    StandardUniform: rand_distr::Distribution<T>,
    Exp1: rand_distr::Distribution<T>,
    T: rand_distr::uniform::SampleUniform + num_traits::FromPrimitive,
{
    static HANGS: std::sync::atomic::AtomicUsize = std::sync::atomic::AtomicUsize::new(0);
    let id = out.fresh_id("nrun");
    let d = rng.range(1, 2) as usize;
    let (target, starts): (AnyTarget, Vec<Vec<f64>>) = if rng.coin(0.5) {
        (AnyTarget::LogBox, (0..2).map(|_| (0..d).map(|_| rng.uniform(0.2, 0.8)).collect()).collect())
    } else {
        (AnyTarget::SqrtGamma { rate: rng.uniform(0.5, 3.0) }, (0..2).map(|_| (0..d).map(|_| rng.log_uniform(0.2, 2.0)).collect()).collect())
    };
    let seed = rng.next();
    let (n_collect, n_discard) = (rng.range(5, 25) as usize, rng.range(5, 40) as usize);
    if !out.selected(&id) {
        return;
    }
    if HANGS.load(std::sync::atomic::Ordering::SeqCst) >= 2 {
        out.count("nuts_run_skipped_after_hangs");
        return;
    }
    let (tg, st) = (target.clone(), starts.clone());
    let t0 = std::time::Instant::now();
    let r = watchdog(40, move || {
        let init: Vec<Vec<T>> = st.iter().map(|r| r.iter().map(|x| T::from64(*x)).collect()).collect();
        let mut s = NUTS::<T, B, AnyTarget>::new(tg, init, T::from64(0.8)).set_seed(seed);
        let t = s.run(n_collect, n_discard);
        let v: Vec<f64> = t.to_data().convert::<f64>().to_vec().unwrap();
        v
    });
    out.count("predicate_evaluations");
    let size = (d * (n_collect + n_discard)) as u64;
    match r {
        None => {
            HANGS.fetch_add(1, std::sync::atomic::Ordering::SeqCst);
            out.fail(&id, "C14:hang:nuts-run", "NUTS::run did not return within 40 s on a small bounded-support problem", size,
                format!("{} {} d={d} starts {starts:?} seed {seed} run({n_collect}, {n_discard})", T::NAME, target.spec::<T>()));
        }
        Some(Err(e)) => out.fail(&id, "C14:panic:nuts-run", "NUTS::run panicked on a bounded-support target", size, e),
        Some(Ok(v)) => {
            for row in v.chunks(d) {
                if let Some(w) = bad_state(&target, row) {
                    out.fail(&id, "C14:nuts-bad-state", "NUTS::run returned a zero-density / NaN-density / non-finite state", size, format!("{} {}: {w}", T::NAME, target.name()));
                    break;
                }
            }
            out.count(&format!("nuts_run_{}", target.name()));
            let secs = t0.elapsed().as_secs_f64();
            if out.notes.len() < 12 {
                out.notes.push(format!("NUTS::run({n_collect},{n_discard}) on {} {} took {secs:.2} s", target.name(), T::NAME));
            }
        }
    }
    out.nontrivial(&format!("nrun:{}:{}:{d}:{seed}", T::NAME, target.name()));
}

pub fn run(out: &mut Out) {
    law_table(out);
    let mut rng = out.rng("c14");
    let n = out.n(50, 1500);
    for i in 0..n {
        mh_case(out, &mut rng);
        if i % 2 == 0 {
            hmc_case::<f32, Autodiff<NdArray<f32>>>(out, &mut rng);
            nuts_case::<f64, Autodiff<NdArray<f64>>>(out, &mut rng);
        } else {
            hmc_case::<f64, Autodiff<NdArray<f64>>>(out, &mut rng);
            nuts_case::<f32, Autodiff<NdArray<f32>>>(out, &mut rng);
        }
    }
    // the public entry point on NaN-region targets, warm-up included, under a watchdog ("does not panic or hang")
    for i in 0..out.n(8, 120) {
        if i % 2 == 0 {
            nuts_run_case::<f64, Autodiff<NdArray<f64>>>(out, &mut rng);
        } else {
            nuts_run_case::<f32, Autodiff<NdArray<f32>>>(out, &mut rng);
        }
    }
    // find_reasonable_epsilon next to a support boundary (halving while the first leapfrog is non-finite)
    for i in 0..out.n(40, 1000) {
        if i % 2 == 0 {
            crate::nuts::fre_boundary::<f32, Autodiff<NdArray<f32>>>(out, &mut rng, "C14");
        } else {
            crate::nuts::fre_boundary::<f64, Autodiff<NdArray<f64>>>(out, &mut rng, "C14");
        }
    }
}

//! C16 — Categorical: normalised probabilities, exact logp, samples follow probs, never a zero-probability category.
//!
//! The uniform variate is chosen exactly by handing `Categorical::verif_with_rng` a crafted generator; the index the
//! real `sample()` returns is compared with the Lean scan model run on the same bits.
use crate::util::*;
use mini_mcmc::distributions::{Categorical, Discrete, Target};
use rand::Rng;

fn self_test() {
    for &w in &[0u64, u64::MAX, 0x8000_0000_0000_0000, 0x1234_5678_9abc_def0] {
        let a: f64 = crafted_rng(w).random();
        assert_eq!(a, (w >> 11) as f64 / (1u64 << 53) as f64, "f64 injection self-test");
        let b: f32 = crafted_rng(w).random();
        assert_eq!(b, (w >> 40) as f32 / (1u32 << 24) as f32, "f32 injection self-test");
    }
}

fn gen_weights(rng: &mut Sm, small: bool) -> Vec<f64> {
    let n = if small { rng.range(1, 4) } else { rng.range(1, 64) } as usize;
    let style = rng.below(5);
    let mut w: Vec<f64> = (0..n)
        .map(|_| match style {
            0 => rng.range(0, 4) as f64,                 // small integers, many zeros
            1 => rng.unit(),                            // generic
            2 => if rng.coin(0.5) { 0.0 } else { rng.log_uniform(1e-12, 1e6) }, // wide range, zeros
            3 => rng.range(0, 1) as f64 * rng.dyadic(8, 4).abs(),
            _ => rng.log_uniform(1e-3, 1e3),
        })
        .collect();
    if w.iter().all(|x| *x == 0.0) {
        let k = rng.below(n as u64) as usize;
        w[k] = 1.0 + rng.unit();
    }
    // weights that already sum to almost (but not exactly) one: normalisation must still happen
    if rng.coin(0.25) {
        let s: f64 = w.iter().sum();
        for x in w.iter_mut() {
            *x /= s;
        }
        let k = rng.below(n as u64) as usize;
        let delta = rng.log_uniform(1e-12, 1e-2);
        w[k] = (w[k] + if w[k] > delta && rng.coin(0.5) { -delta } else { delta }).max(0.0);
    }
    // force zeros at the ends reasonably often (leading / trailing zero-probability categories)
    if n >= 2 && rng.coin(0.35) {
        w[0] = 0.0;
    }
    if n >= 2 && rng.coin(0.35) {
        w[n - 1] = 0.0;
    }
    if w.iter().all(|x| *x == 0.0) {
        w[n / 2] = 0.75;
    }
    w
}

macro_rules! run_ty {
    ($out:ident, $rng:ident, $ty:ty, $tyname:expr, $hex:ident, $tok:ident, $bits:expr, $shift:expr, $small:expr) => {{
        let id = $out.fresh_id("cat");
        let wts: Vec<$ty> = gen_weights(&mut $rng, $small).iter().map(|x| *x as $ty).collect();
        let wts2: Vec<$ty> = gen_weights(&mut $rng, !$small).iter().map(|x| *x as $ty).collect();
        let extra_random = $rng.range(2, 6);
        let seeds: Vec<u64> = (0..extra_random).map(|_| $rng.next()).collect();
        if $out.selected(&id) {
            guard_case($out, &id.clone(), "C16:panic", wts.len() as u64, |out| {
                let grid = (1u64 << $bits) as f64;
                // candidate variates as grid indices k (r = k / 2^bits)
                let mut ks: Vec<u64> = vec![0, 1, (1u64 << $bits) - 1, (1u64 << $bits) - 2, 1u64 << ($bits - 1)];
                let probe = Categorical::<$ty>::new(wts.clone());
                let mut cum: $ty = 0.0;
                for p in probe.probs.iter() {
                    cum += *p;
                    let k = ((cum as f64) * grid).floor();
                    if k.is_finite() && k >= 0.0 {
                        let k = (k as u64).min((1u64 << $bits) - 1);
                        ks.push(k);
                        ks.push(k.saturating_sub(1));
                        ks.push((k + 1).min((1u64 << $bits) - 1));
                    }
                }
                for s in &seeds {
                    ks.push(s >> (64 - $bits));
                }
                ks.sort();
                ks.dedup();
                let any_pos = wts.iter().any(|x| *x > 0.0);
                for (j, k) in ks.iter().enumerate() {
                    let word = (k << $shift) | (if j % 2 == 0 { (1u64 << $shift) - 1 } else { 0x5555_5555_5555_5555u64 & ((1u64 << $shift) - 1) });
                    let mut cat = Categorical::<$ty>::verif_with_rng(wts.clone(), crafted_rng(word));
                    let r: $ty = (*k as f64 / grid) as $ty;
                    let idx = cat.sample();
                    let cid = format!("{id}.{j}");
                    let n = cat.probs.len();
                    // implementation-only predicates
                    out.count("predicate_evaluations");
                    if idx >= n {
                        out.fail(&cid, "C16:out-of-range", "sample() returned an index out of range", n as u64, format!("idx={idx} n={n}"));
                        continue;
                    }
                    if any_pos && !(cat.probs[idx] > 0.0) {
                        let where_ = if *k == 0 { "r=0" } else if idx + 1 == n { "fallback-last" } else { "interior" };
                        out.fail(&cid, &format!("C16:zero-prob-category:{}", where_), "sample() returned a category whose probability is zero", n as u64,
                            format!("weights={:?} r={} (k={k}) idx={idx}", wts, r));
                    }
                    let lp = cat.logp(idx);
                    let lp_oor = cat.logp(n);
                    if !(lp_oor == <$ty>::NEG_INFINITY) {
                        out.fail(&cid, "C16:logp-out-of-range", "logp of an invalid index is not -inf", n as u64, format!("{lp_oor}"));
                    }
                    let t: $ty = <Categorical<$ty> as Target<usize, $ty>>::unnorm_logp(&cat, &[idx]);
                    if t.to_bits() != lp.to_bits() {
                        out.fail(&cid, "C16:target-logp", "Target::unnorm_logp differs from Discrete::logp", n as u64, format!("{t} vs {lp}"));
                    }
                    let sum: f64 = cat.probs.iter().map(|x| *x as f64).sum();
                    if (sum - 1.0).abs() > 1e-4 {
                        out.fail(&cid, "C16:not-normalised", "stored probabilities do not sum to one", n as u64, format!("sum={sum} weights={wts:?}"));
                    }
                    let case = format!("c16 {cid} {} {} ; {}", $tyname, $hex(r), wts.iter().map(|x| $hex(*x)).collect::<Vec<_>>().join(" "));
                    let all_lp = (0..n).map(|i| $tok(cat.logp(i))).collect::<Vec<_>>().join(" ");
                    let line = format!("{cid} {} # {idx} # {} {} # {all_lp}", cat.probs.iter().map(|x| $hex(*x)).collect::<Vec<_>>().join(" "), $tok(lp), $tok(lp_oor));
                    out.case(case, line);
                    if *k == 0 { out.count("r_exactly_0"); }
                    if *k == (1u64 << $bits) - 1 { out.count("r_1_minus_ulp"); }
                    if cat.probs[0] == 0.0 { out.count("leading_zero_prob"); }
                    if cat.probs[n - 1] == 0.0 { out.count("trailing_zero_prob"); }
                    out.nontrivial(&format!("{}:{:?}:{k}", $tyname, wts.iter().map(|x| x.to_bits() as u64).collect::<Vec<_>>()));
                }
                // the public `probs` field is an input too: overwrite it after construction (another length, other
                // zero pattern) and sample / evaluate again
                if seeds[0] % 4 == 0 {
                    let other = Categorical::<$ty>::new(wts2.clone()).probs;
                    for (j, k) in ks.iter().enumerate().take(12) {
                        let word = (k << $shift) | (0x3333_3333_3333_3333u64 & ((1u64 << $shift) - 1));
                        let mut cat = Categorical::<$ty>::verif_with_rng(wts.clone(), crafted_rng(word));
                        cat.probs = other.clone();
                        let r: $ty = (*k as f64 / grid) as $ty;
                        let idx = cat.sample();
                        let cid = format!("{id}.p{j}");
                        out.count("predicate_evaluations");
                        if idx >= other.len() || (other.iter().any(|x| *x > 0.0) && !(other[idx] > 0.0)) {
                            out.fail(&cid, "C16:zero-prob-category:probs-overwritten", "after `probs` was overwritten, sample() returned an invalid or zero-probability category", other.len() as u64,
                                format!("probs={other:?} r={r} idx={idx}"));
                        }
                        let all_lp = (0..other.len()).map(|i| $tok(cat.logp(i))).collect::<Vec<_>>().join(" ");
                        out.case(format!("c16p {cid} {} {} ; {}", $tyname, $hex(r), other.iter().map(|x| $hex(*x)).collect::<Vec<_>>().join(" ")), format!("{cid} {idx} # {all_lp}"));
                    }
                    out.count("probs_overwritten_after_construction");
                }
                out.count(&format!("weights_{}", $tyname));
            });
        }
    }};
}

pub fn run(out: &mut Out) {
    self_test();
    let mut rng = out.rng("c16");
    let n = out.n(300, 6000);
    for i in 0..n {
        let small = i % 3 == 0;
        if i % 2 == 0 {
            run_ty!(out, rng, f64, "f64", h64, td, 53, 11, small);
        } else {
            run_ty!(out, rng, f32, "f32", h32, ts, 24, 40, small);
        }
    }
}

//! C06 — long-run averages converge; the samplers' own randomness has the laws the algorithms require.
//!
//! The logical content (every kernel leaves the target invariant *given* draws with the required laws; rows are the
//! iterates after burn-in; streams are distinct) is proved / checked under C01, C02, C03, C05, C07, C08, C09. What is
//! left is distributional and is examined here, deterministically for a given seed, in two ways:
//!  (a) the draws the real steps consume (hook traces) are tested against their required laws (N(0,1) momenta and
//!      proposal noise, U(0,1) acceptance / direction / selection draws, Exp(1) slice draws; no serial correlation);
//!  (b) chains are *started in the target* (exact draws from a Gaussian / Poisson with known moments), so every
//!      correct kernel keeps them stationary; per-chain averages of means, second moments and a tail indicator over
//!      64 independent chains give a calibrated standard error (no ESS estimate needed): |z| must stay below 6.
use crate::c02::{event, parse_hex_list};
use crate::nuts::parse_step;
use crate::targets::*;
use crate::util::*;
use burn::backend::{Autodiff, NdArray};
use mini_mcmc::core::{ChainRunner, MarkovChain};
use mini_mcmc::distributions::{Conditional, IsotropicGaussian, Proposal, Target};
use mini_mcmc::gibbs::GibbsSampler;
use mini_mcmc::hmc::HMC;
use mini_mcmc::metropolis_hastings::{MHMarkovChain, MetropolisHastings};
use mini_mcmc::nuts::{NUTSChain, NUTS};
use mini_mcmc::verif_hooks;
use rand::rngs::SmallRng;
use rand::SeedableRng;

fn erfc(x: f64) -> f64 {
    let z = x.abs();
    let t = 1.0 / (1.0 + 0.5 * z);
    let r = t
        * (-z * z - 1.26551223
            + t * (1.00002368 + t * (0.37409196 + t * (0.09678418 + t * (-0.18628806 + t * (0.27886807 + t * (-1.13520398 + t * (1.48851587 + t * (-0.82215223 + t * 0.17087277)))))))))
        .exp();
    if x >= 0.0 { r } else { 2.0 - r }
}
fn phi(x: f64) -> f64 {
    0.5 * erfc(-x / std::f64::consts::SQRT_2)
}
fn ks(xs: &[f64], cdf: impl Fn(f64) -> f64) -> f64 {
    let mut s = xs.to_vec();
    s.sort_by(|a, b| a.partial_cmp(b).unwrap());
    let n = s.len() as f64;
    let mut d: f64 = 0.0;
    for (i, x) in s.iter().enumerate() {
        let f = cdf(*x);
        d = d.max((f - i as f64 / n).abs()).max((f - (i + 1) as f64 / n).abs());
    }
    d
}
/// Some(reason) if the sample is not plausibly i.i.d. from the law given by (cdf, mean, var, 4th central moment)
fn law_check(xs: &[f64], cdf: impl Fn(f64) -> f64, mean: f64, var: f64, m4: f64) -> Option<String> {
    let n = xs.len() as f64;
    if xs.len() < 1000 {
        return None;
    }
    if xs.iter().any(|x| !x.is_finite()) {
        return Some("non-finite draw".into());
    }
    // exact repeats: i.i.d. draws from a continuous law (53- or 24-bit grids) essentially never coincide; a stream that
    // re-uses generator words (a generator cloned instead of advanced) repeats whole blocks
    {
        let mut s: Vec<u64> = xs.iter().map(|x| x.to_bits()).collect();
        s.sort();
        let dups = s.windows(2).filter(|w| w[0] == w[1]).count();
        // f32-valued streams (upcast) live on a coarser grid: allow the birthday-paradox handful
        // (streams derived from f32 draws live on a coarse grid and show the birthday-paradox handful; block re-use gives
        // duplicates by the thousand)
        let allowed = 10 + (n / 200.0) as usize;
        if dups > allowed {
            return Some(format!("{dups} exactly repeated values among {n} draws"));
        }
    }
    let m = xs.iter().sum::<f64>() / n;
    let v = xs.iter().map(|x| (x - m) * (x - m)).sum::<f64>() / n;
    if (m - mean).abs() > 6.0 * (var / n).sqrt() {
        return Some(format!("mean {m} vs {mean} (n={n})"));
    }
    if (v - var).abs() > 6.0 * ((m4 - var * var) / n).sqrt() + var / n {
        return Some(format!("variance {v} vs {var} (n={n})"));
    }
    let d = ks(xs, cdf);
    if d > 3.3 / n.sqrt() {
        return Some(format!("Kolmogorov-Smirnov distance {d} (n={n})"));
    }
    let c1 = xs.iter().zip(xs[1..].iter()).map(|(a, b)| (a - m) * (b - m)).sum::<f64>() / (n - 1.0) / v;
    if c1.abs() > 6.0 / n.sqrt() {
        return Some(format!("lag-1 autocorrelation {c1} (n={n})"));
    }
    None
}
fn check_normal(out: &mut Out, id: &str, key: &str, what: &str, xs: &[f64]) {
    out.count("predicate_evaluations");
    out.count_n("draws_examined", xs.len() as u64);
    if let Some(w) = law_check(xs, phi, 0.0, 1.0, 3.0) {
        out.fail(id, key, what, xs.len() as u64, w);
    }
}
fn check_uniform(out: &mut Out, id: &str, key: &str, what: &str, xs: &[f64]) {
    out.count("predicate_evaluations");
    out.count_n("draws_examined", xs.len() as u64);
    if xs.iter().any(|x| !(*x >= 0.0 && *x < 1.0)) {
        out.fail(id, key, what, xs.len() as u64, "draw outside [0,1)".into());
        return;
    }
    if let Some(w) = law_check(xs, |x| x.clamp(0.0, 1.0), 0.5, 1.0 / 12.0, 1.0 / 80.0) {
        out.fail(id, key, what, xs.len() as u64, w);
    }
}
fn check_exp1(out: &mut Out, id: &str, key: &str, what: &str, xs: &[f64]) {
    out.count("predicate_evaluations");
    out.count_n("draws_examined", xs.len() as u64);
    if let Some(w) = law_check(xs, |x| if x <= 0.0 { 0.0 } else { 1.0 - (-x).exp() }, 1.0, 1.0, 9.0) {
        out.fail(id, key, what, xs.len() as u64, w);
    }
}

// ---------------------------------------------------------------- Gaussian targets with known moments

/// a user-defined proposal that consumes exactly ONE generator word per step (so that two generators seeded alike
/// stay in lock-step for ever) and keeps a log of the uniforms it drew
#[derive(Clone, Debug)]
struct UniWalk {
    rng: SmallRng,
    log: Vec<f64>,
    w: f64,
}
impl Proposal<f64, f64> for UniWalk {
    fn sample(&mut self, current: &[f64]) -> Vec<f64> {
        let u: f64 = rand::Rng::random(&mut self.rng);
        self.log.push(u);
        vec![current[0] + self.w * (u - 0.5)]
    }
    fn logp(&self, _from: &[f64], _to: &[f64]) -> f64 {
        0.0
    }
    fn set_seed(mut self, seed: u64) -> Self {
        self.rng = SmallRng::seed_from_u64(seed);
        self
    }
}
#[derive(Clone, Debug)]
struct StdNormal1;
impl Target<f64, f64> for StdNormal1 {
    fn unnorm_logp(&self, x: &[f64]) -> f64 {
        -0.5 * x[0] * x[0]
    }
}
/// an asymmetric proposal with an exact density: a Gaussian step with drift, `y = x + a + s·z`
#[derive(Clone, Debug)]
struct DriftWalk {
    rng: SmallRng,
    a: f64,
    s: f64,
}
impl Proposal<f64, f64> for DriftWalk {
    fn sample(&mut self, current: &[f64]) -> Vec<f64> {
        let z: f64 = rand::Rng::sample(&mut self.rng, rand_distr::StandardNormal);
        vec![current[0] + self.a + self.s * z]
    }
    fn logp(&self, from: &[f64], to: &[f64]) -> f64 {
        let d = to[0] - from[0] - self.a;
        -d * d / (2.0 * self.s * self.s) - (self.s * (2.0 * std::f64::consts::PI).sqrt()).ln()
    }
    fn set_seed(mut self, seed: u64) -> Self {
        self.rng = SmallRng::seed_from_u64(seed);
        self
    }
}

/// sample correlation of two equally long sequences at a lag (b shifted by `lag`)
fn xcorr(a: &[f64], b: &[f64], lag: i64) -> f64 {
    let n = a.len().min(b.len()) as i64;
    let (ia, ib, len) = if lag >= 0 { (0, lag, n - lag) } else { (-lag, 0, n + lag) };
    if len < 10 {
        return 0.0;
    }
    let xa = &a[ia as usize..(ia + len) as usize];
    let xb = &b[ib as usize..(ib + len) as usize];
    let (ma, mb) = (xa.iter().sum::<f64>() / len as f64, xb.iter().sum::<f64>() / len as f64);
    let cov: f64 = xa.iter().zip(xb).map(|(x, y)| (x - ma) * (y - mb)).sum();
    let (va, vb): (f64, f64) = (xa.iter().map(|x| (x - ma) * (x - ma)).sum(), xb.iter().map(|y| (y - mb) * (y - mb)).sum());
    cov / (va * vb).sqrt().max(1e-300)
}

#[derive(Clone, Debug)]
struct Gauss {
    mean: Vec<f64>,
    cov: Vec<f64>,  // row-major d x d
    prec: Vec<f64>, // inverse
    chol: Vec<f64>, // lower Cholesky factor of cov
}
fn invert(a: &[f64], d: usize) -> Vec<f64> {
    let mut m = vec![0.0; d * 2 * d];
    for i in 0..d {
        for j in 0..d {
            m[i * 2 * d + j] = a[i * d + j];
        }
        m[i * 2 * d + d + i] = 1.0;
    }
    for c in 0..d {
        let p = m[c * 2 * d + c];
        for j in 0..2 * d {
            m[c * 2 * d + j] /= p;
        }
        for r in 0..d {
            if r != c {
                let f = m[r * 2 * d + c];
                for j in 0..2 * d {
                    m[r * 2 * d + j] -= f * m[c * 2 * d + j];
                }
            }
        }
    }
    (0..d * d).map(|k| m[(k / d) * 2 * d + d + k % d]).collect()
}
fn random_gauss(rng: &mut Sm, d: usize) -> Gauss {
    let a: Vec<f64> = (0..d * d).map(|_| rng.normal() * 0.5).collect();
    let mut cov = vec![0.0; d * d];
    for i in 0..d {
        for j in 0..d {
            cov[i * d + j] = (0..d).map(|k| a[i * d + k] * a[j * d + k]).sum::<f64>() + if i == j { 0.6 } else { 0.0 };
        }
    }
    let mut chol = vec![0.0; d * d];
    for i in 0..d {
        for j in 0..=i {
            let s: f64 = (0..j).map(|k| chol[i * d + k] * chol[j * d + k]).sum();
            chol[i * d + j] = if i == j { (cov[i * d + i] - s).sqrt() } else { (cov[i * d + j] - s) / chol[j * d + j] };
        }
    }
    Gauss { mean: (0..d).map(|_| rng.normal()).collect(), prec: invert(&cov, d), cov, chol }
}
impl Gauss {
    fn d(&self) -> usize {
        self.mean.len()
    }
    fn draw(&self, rng: &mut Sm) -> Vec<f64> {
        let d = self.d();
        let z: Vec<f64> = (0..d).map(|_| rng.normal()).collect();
        (0..d).map(|i| self.mean[i] + (0..=i).map(|k| self.chol[i * d + k] * z[k]).sum::<f64>()).collect()
    }
    fn any(&self) -> AnyTarget {
        AnyTarget::GaussD { mean: self.mean.clone(), prec: self.prec.clone() }
    }
    /// largest eigenvalue of the precision matrix (power iteration): leapfrog is stable for eps < 2 / sqrt(lambda_max)
    fn prec_lambda_max(&self) -> f64 {
        let d = self.d();
        let mut v = vec![1.0; d];
        let mut lam = 1.0;
        for _ in 0..200 {
            let w: Vec<f64> = (0..d).map(|i| (0..d).map(|j| self.prec[i * d + j] * v[j]).sum::<f64>()).collect();
            lam = w.iter().map(|x| x * x).sum::<f64>().sqrt();
            v = w.iter().map(|x| x / lam).collect();
        }
        lam
    }
}
#[derive(Clone)]
struct GaussT(AnyTarget);
impl Target<f64, f64> for GaussT {
    fn unnorm_logp(&self, x: &[f64]) -> f64 {
        self.0.logp64(x)
    }
}
#[derive(Clone)]
struct GaussCond {
    g: Gauss,
    rng: SmallRng,
}
impl Conditional<f64> for GaussCond {
    fn sample(&mut self, i: usize, given: &[f64]) -> f64 {
        let d = self.g.d();
        let pii = self.g.prec[i * d + i];
        let s: f64 = (0..d).filter(|j| *j != i).map(|j| self.g.prec[i * d + j] * (given[j] - self.g.mean[j])).sum();
        let z: f64 = rand_distr::Distribution::sample(&rand_distr::StandardNormal, &mut self.rng);
        self.g.mean[i] - s / pii + z / pii.sqrt()
    }
}

/// a common start far from the bulk (mean + 4 sd in every coordinate): after a burn-in many times the mixing time of
/// these well-conditioned Gaussians a working kernel has forgotten it, a kernel that barely moves has not
fn displaced_start(g: &Gauss) -> Vec<f64> {
    let d = g.d();
    (0..d).map(|i| g.mean[i] + 4.0 * g.cov[i * d + i].sqrt()).collect()
}

/// per-chain averages → z-scores against the truth; chains[c][t][k]
fn moments_check(out: &mut Out, id: &str, sampler: &str, g: &Gauss, chains: &[Vec<Vec<f64>>]) {
    let d = g.d();
    let m = chains.len() as f64;
    let mut tests: Vec<(String, f64, Vec<f64>)> = vec![];
    for i in 0..d {
        tests.push((format!("E[x{i}]"), g.mean[i], chains.iter().map(|c| c.iter().map(|x| x[i]).sum::<f64>() / c.len() as f64).collect()));
        let sd = g.cov[i * d + i].sqrt();
        tests.push((format!("P(x{i} > mean + sd)"), 1.0 - phi(1.0), chains.iter().map(|c| c.iter().filter(|x| x[i] > g.mean[i] + sd).count() as f64 / c.len() as f64).collect()));
        for j in 0..=i {
            let truth = g.cov[i * d + j] + g.mean[i] * g.mean[j];
            tests.push((format!("E[x{i}·x{j}]"), truth, chains.iter().map(|c| c.iter().map(|x| x[i] * x[j]).sum::<f64>() / c.len() as f64).collect()));
        }
    }
    for (name, truth, per_chain) in tests {
        let mean = per_chain.iter().sum::<f64>() / m;
        let var = per_chain.iter().map(|x| (x - mean) * (x - mean)).sum::<f64>() / (m - 1.0);
        let se = (var / m).sqrt();
        let z = (mean - truth) / se;
        out.count("predicate_evaluations");
        out.count("moment_tests");
        if !(z.abs() < 6.0) {
            out.fail(id, &format!("C06:biased-estimate:{sampler}"), "pooled post-warm-up estimate is outside what Monte-Carlo error explains", chains.len() as u64,
                format!("{sampler}: {name} = {mean:.5} vs truth {truth:.5} (z = {z:.2}, standard error {se:.5} from {} independent chains started in the target)", chains.len()));
        }
        if out.notes.len() < 8 {
            out.notes.push(format!("{sampler} {name}: z = {z:.2}"));
        }
    }
}

type B32 = Autodiff<NdArray<f32>>;
type B64 = Autodiff<NdArray<f64>>;

pub fn run(out: &mut Out) {
    let mut rng = out.rng("c06");
    let reps = out.n(1, 6);
    for rep in 0..reps {
        // ---------------- (a) laws of the consumed draws
        {
            let id = out.fresh_id("law-mh");
            if out.selected(&id) {
                guard_case(out, &id.clone(), "C06:panic", 1, |out| {
                    let g = random_gauss(&mut rng, 2);
                    let mut c = MHMarkovChain::new(GaussT(g.any()), IsotropicGaussian::<f64>::new(0.9).set_seed(rng.next()), g.draw(&mut rng));
                    c.rng = SmallRng::seed_from_u64(rng.next());
                    verif_hooks::tl_enable();
                    for _ in 0..12000 {
                        c.step();
                    }
                    let ev = verif_hooks::tl_drain();
                    let us: Vec<f64> = ev.iter().filter_map(|e| e.strip_prefix("mh u=")).map(|s| f64::from_bits(u64::from_str_radix(s.split(' ').next().unwrap(), 16).unwrap())).collect();
                    check_uniform(out, &id, "C06:mh-acceptance-draw-law", "Metropolis-Hastings acceptance draws are not i.i.d. uniform on [0,1)", &us);
                    let mut p = IsotropicGaussian::<f64>::new(1.7).set_seed(rng.next());
                    let x0 = vec![0.3; 4];
                    let noise: Vec<f64> = (0..3000).flat_map(|_| p.sample(&x0).into_iter().map(|y| (y - 0.3) / 1.7).collect::<Vec<_>>()).collect();
                    check_normal(out, &id, "C06:proposal-noise-law", "IsotropicGaussian proposal noise is not i.i.d. N(0, std^2)", &noise);
                    let mut p32 = IsotropicGaussian::<f32>::new(0.4).set_seed(rng.next());
                    let x32 = vec![0.0f32; 4];
                    let noise32: Vec<f64> = (0..3000).flat_map(|_| p32.sample(&x32).into_iter().map(|y| y as f64 / 0.4f32 as f64).collect::<Vec<_>>()).collect();
                    check_normal(out, &id, "C06:proposal-noise-law", "IsotropicGaussian<f32> proposal noise is not i.i.d. N(0, std^2)", &noise32);
                });
            }
        }
        // mutual independence of the streams of a seeded multi-chain MH sampler: proposal draws vs acceptance draws,
        // within a chain and across chains, at lags -1, 0, 1 (a proposal that uses one word per step keeps colliding
        // generators in lock-step, so a seed collision shows up as a correlation of exactly 1)
        {
            let id = out.fresh_id("law-mh-indep");
            if out.selected(&id) {
                guard_case(out, &id.clone(), "C06:panic", 1, |out| {
                    let n_chains = 8usize;
                    let n_steps = 3000usize;
                    let seed = match rng.below(3) { 0 => rng.below(1000), 1 => u64::MAX - rng.below(16), _ => rng.next() };
                    let init: Vec<Vec<f64>> = (0..n_chains).map(|_| vec![rng.normal()]).collect();
                    let mut s = MetropolisHastings::new(StdNormal1, UniWalk { rng: SmallRng::seed_from_u64(0), log: vec![], w: 2.5 }, init).seed(seed);
                    let mut us: Vec<Vec<f64>> = vec![vec![]; n_chains];
                    for _ in 0..n_steps {
                        for (i, c) in s.chains.iter_mut().enumerate() {
                            verif_hooks::tl_enable();
                            c.step();
                            let ev = verif_hooks::tl_drain();
                            if let Some(u) = ev.iter().filter_map(|e| e.strip_prefix("mh u=")).map(|s| f64::from_bits(u64::from_str_radix(s.split(' ').next().unwrap(), 16).unwrap())).next() {
                                us[i].push(u);
                            }
                        }
                    }
                    let ws: Vec<Vec<f64>> = s.chains.iter().map(|c| c.proposal.log.clone()).collect();
                    let thr = 6.0 / (n_steps as f64).sqrt();
                    for i in 0..n_chains {
                        for j in 0..n_chains {
                            for lag in [-1i64, 0, 1] {
                                let mut pairs: Vec<(&str, f64)> = vec![("proposal/acceptance", xcorr(&ws[i], &us[j], lag))];
                                if i < j {
                                    pairs.push(("acceptance/acceptance", xcorr(&us[i], &us[j], lag)));
                                    pairs.push(("proposal/proposal", xcorr(&ws[i], &ws[j], lag)));
                                }
                                for (what, r) in pairs {
                                    out.count("predicate_evaluations");
                                    if r.abs() > thr {
                                        out.fail(&id, "C06:mh-stream-independence", "draws of two streams of a seeded Metropolis-Hastings sampler are correlated (they must be mutually independent)", 1,
                                            format!("{what} draws of chains {i} and {j} at lag {lag}: correlation {r:.4} (n = {n_steps}, threshold {thr:.4}), seed {seed}"));
                                    }
                                }
                            }
                        }
                    }
                    out.count_n("draws_examined", (2 * n_chains * n_steps) as u64);
                });
            }
        }
        macro_rules! hmc_laws {
            ($T:ty, $B:ty, $name:expr) => {{
                let id = out.fresh_id("law-hmc");
                if out.selected(&id) {
                    guard_case(out, &id.clone(), "C06:panic", 1, |out| {
                        let g = random_gauss(&mut rng, 3);
                        let init: Vec<Vec<$T>> = (0..12).map(|_| g.draw(&mut rng).iter().map(|x| *x as $T).collect()).collect();
                        let mut s = HMC::<$T, $B, AnyTarget>::new(g.any(), init, 0.2, 4).set_seed(rng.next());
                        let (mut moms, mut unis) = (vec![], vec![]);
                        for _ in 0..500 {
                            verif_hooks::tl_enable();
                            s.step();
                            let ev = verif_hooks::tl_drain();
                            if let (Some(m), Some(u)) = (event(&ev, "hmc momentum "), event(&ev, "hmc uniform ")) {
                                moms.extend(parse_hex_list(m));
                                unis.extend(parse_hex_list(u));
                            }
                        }
                        check_normal(out, &id, "C06:hmc-momentum-law", &format!("HMC momenta ({}) are not i.i.d. standard normal", $name), &moms);
                        check_uniform(out, &id, "C06:hmc-acceptance-draw-law", &format!("HMC acceptance draws ({}) are not i.i.d. uniform on [0,1)", $name), &unis);
                    });
                }
            }};
        }
        hmc_laws!(f32, B32, "f32");
        hmc_laws!(f64, B64, "f64");
        macro_rules! nuts_laws {
            ($T:ty, $B:ty, $name:expr) => {{
                let id = out.fresh_id("law-nuts");
                if out.selected(&id) {
                    guard_case(out, &id.clone(), "C06:panic", 1, |out| {
                        let g = random_gauss(&mut rng, 3);
                        let (mut moms, mut exps, mut dirs, mut accs, mut sels) = (vec![], vec![], vec![], vec![], vec![]);
                        for _ in 0..4 {
                            let p: Vec<$T> = g.draw(&mut rng).iter().map(|x| *x as $T).collect();
                            let mut c = NUTSChain::<$T, $B, AnyTarget>::new(g.any(), p, 0.8).set_seed(rng.next());
                            c.verif_init_chain(350, 40);
                            for _ in 0..350 {
                                if c.verif_adapt_state().2.to64() < 2e-3 {
                                    break;
                                }
                                verif_hooks::tl_enable();
                                c.step();
                                let ev = verif_hooks::tl_drain();
                                if let Some(tr) = parse_step(&ev) {
                                    moms.extend(tr.mom.iter());
                                    exps.push(tr.exp1);
                                    for d in &tr.doublings {
                                        dirs.push(d.0);
                                        accs.push(d.4);
                                    }
                                    sels.extend(tr.sel.iter());
                                }
                            }
                        }
                        check_normal(out, &id, "C06:nuts-momentum-law", &format!("NUTS momenta ({}) are not i.i.d. standard normal", $name), &moms);
                        check_exp1(out, &id, "C06:nuts-slice-law", &format!("NUTS slice draws ({}) are not i.i.d. Exp(1)", $name), &exps);
                        check_uniform(out, &id, "C06:nuts-direction-law", &format!("NUTS direction draws ({}) are not i.i.d. uniform", $name), &dirs);
                        check_uniform(out, &id, "C06:nuts-accept-law", &format!("NUTS candidate-adoption draws ({}) are not i.i.d. uniform", $name), &accs);
                        check_uniform(out, &id, "C06:nuts-selection-law", &format!("NUTS selection draws ({}) are not i.i.d. uniform", $name), &sels);
                    });
                }
            }};
        }
        nuts_laws!(f32, B32, "f32");
        nuts_laws!(f64, B64, "f64");

        // ---------------- (b) stationarity of chains started in the target
        let n_chains = 64usize;
        {
            let id = out.fresh_id("mom-mh");
            let d = rng.range(1, 4) as usize;
            let g = random_gauss(&mut rng, d);
            let init: Vec<Vec<f64>> = (0..n_chains).map(|_| g.draw(&mut rng)).collect();
            let seed = rng.next();
            if out.selected(&id) {
                guard_case(out, &id.clone(), "C06:panic", 1, |out| {
                    let mut s = MetropolisHastings::new(GaussT(g.any()), IsotropicGaussian::<f64>::new(1.1 / (d as f64).sqrt()), init).seed(seed);
                    let a = s.run(out.n(2500, 6000) as usize, 0).unwrap();
                    let chains: Vec<Vec<Vec<f64>>> = (0..n_chains).map(|c| (0..a.shape()[1]).map(|t| (0..d).map(|k| a[[c, t, k]]).collect()).collect()).collect();
                    moments_check(out, &id, "MH", &g, &chains);
                    // ergodicity: the same sampler from a common displaced start, burn-in 2000
                    let init2: Vec<Vec<f64>> = (0..n_chains).map(|_| displaced_start(&g)).collect();
                    let mut s2 = MetropolisHastings::new(GaussT(g.any()), IsotropicGaussian::<f64>::new(1.1 / (d as f64).sqrt()), init2).seed(seed ^ 0x5555);
                    let a2 = s2.run(out.n(1500, 4000) as usize, 2000).unwrap();
                    let chains2: Vec<Vec<Vec<f64>>> = (0..n_chains).map(|c| (0..a2.shape()[1]).map(|t| (0..d).map(|k| a2[[c, t, k]]).collect()).collect()).collect();
                    moments_check(out, &id, "MH-displaced-start", &g, &chains2);
                });
            }
        }
        // MH with an asymmetric proposal (drifted Gaussian step): the Hastings correction must enter with the right sign
        {
            let id = out.fresh_id("mom-mh-asym");
            let g = Gauss { mean: vec![0.0], cov: vec![1.0], prec: vec![1.0], chol: vec![1.0] };
            let init: Vec<Vec<f64>> = (0..n_chains).map(|_| g.draw(&mut rng)).collect();
            let seed = rng.next();
            let (a, sd) = (rng.uniform(0.3, 0.9) * if rng.coin(0.5) { 1.0 } else { -1.0 }, rng.uniform(0.8, 1.6));
            if out.selected(&id) {
                guard_case(out, &id.clone(), "C06:panic", 1, |out| {
                    let mut s = MetropolisHastings::new(StdNormal1, DriftWalk { rng: SmallRng::seed_from_u64(1), a, s: sd }, init).seed(seed);
                    let arr = s.run(out.n(2500, 6000) as usize, 0).unwrap();
                    let chains: Vec<Vec<Vec<f64>>> = (0..n_chains).map(|c| (0..arr.shape()[1]).map(|t| vec![arr[[c, t, 0]]]).collect()).collect();
                    moments_check(out, &id, "MH-asymmetric-proposal", &g, &chains);
                });
            }
        }
        // chains of an unseeded multi-chain sampler started from one point must not be copies of each other
        {
            let id = out.fresh_id("indep-unseeded");
            if out.selected(&id) {
                guard_case(out, &id.clone(), "C06:panic", 1, |out| {
                    let g = random_gauss(&mut rng, 2);
                    let start = g.draw(&mut rng);
                    let distinct = |rows: Vec<Vec<u64>>| -> bool {
                        let mut r = rows.clone();
                        r.sort();
                        r.dedup();
                        r.len() == rows.len()
                    };
                    let mut nuts = NUTS::<f64, B64, AnyTarget>::new(g.any(), vec![start.clone(); 4], 0.8);
                    let t = nuts.run(12, 8);
                    let v: Vec<f64> = t.to_data().convert::<f64>().to_vec().unwrap();
                    let rows: Vec<Vec<u64>> = v.chunks(12 * 2).map(|c| c.iter().map(|x| x.to_bits()).collect()).collect();
                    out.count("predicate_evaluations");
                    if !distinct(rows) {
                        out.fail(&id, "C06:chains-not-independent:NUTS", "two chains of an unseeded NUTS sampler started from one point returned identical draws", 4, String::new());
                    }
                    let mut mh = MetropolisHastings::new(GaussT(g.any()), IsotropicGaussian::<f64>::new(0.8), vec![start.clone(); 4]);
                    let a = mh.run(12, 0).unwrap();
                    let rows: Vec<Vec<u64>> = (0..4).map(|c| (0..12).flat_map(|t| (0..2).map(move |k| (c, t, k))).map(|(c, t, k)| a[[c, t, k]].to_bits()).collect()).collect();
                    out.count("predicate_evaluations");
                    if !distinct(rows) {
                        out.fail(&id, "C06:chains-not-independent:MH", "two chains of an unseeded MH sampler started from one point returned identical draws", 4, String::new());
                    }
                });
            }
        }
        {
            let id = out.fresh_id("mom-gibbs");
            let d = rng.range(2, 4) as usize;
            let g = random_gauss(&mut rng, d);
            let init: Vec<Vec<f64>> = (0..n_chains).map(|_| g.draw(&mut rng)).collect();
            let seeds: Vec<u64> = (0..n_chains).map(|_| rng.next()).collect();
            if out.selected(&id) {
                guard_case(out, &id.clone(), "C06:panic", 1, |out| {
                    let mut s = GibbsSampler::new(GaussCond { g: g.clone(), rng: SmallRng::seed_from_u64(1) }, init);
                    for (c, sd) in s.chains.iter_mut().zip(seeds.iter()) {
                        c.target.rng = SmallRng::seed_from_u64(*sd); // the conditional's own randomness: one stream per chain
                    }
                    let a = s.run(out.n(1500, 4000) as usize, 0).unwrap();
                    let chains: Vec<Vec<Vec<f64>>> = (0..n_chains).map(|c| (0..a.shape()[1]).map(|t| (0..d).map(|k| a[[c, t, k]]).collect()).collect()).collect();
                    moments_check(out, &id, "Gibbs", &g, &chains);
                });
            }
        }
        macro_rules! hmc_moments {
            ($T:ty, $B:ty, $name:expr) => {{
                let id = out.fresh_id("mom-hmc");
                let d = rng.range(1, 4) as usize;
                let g = random_gauss(&mut rng, d);
                let init: Vec<Vec<$T>> = (0..n_chains).map(|_| g.draw(&mut rng).iter().map(|x| *x as $T).collect()).collect();
                let seed = rng.next();
                let steps = out.n(500, 2000) as usize;
                if out.selected(&id) {
                    guard_case(out, &id.clone(), "C06:panic", 1, |out| {
                        let mut s = HMC::<$T, $B, AnyTarget>::new(g.any(), init, 0.25, 5).set_seed(seed);
                        let t = s.run(steps, 0);
                        let v: Vec<f64> = t.to_data().convert::<f64>().to_vec().unwrap();
                        let chains: Vec<Vec<Vec<f64>>> = (0..n_chains).map(|c| (0..steps).map(|k| v[(c * steps + k) * d..(c * steps + k + 1) * d].to_vec()).collect()).collect();
                        moments_check(out, &id, &format!("HMC-{}", $name), &g, &chains);
                        let init2: Vec<Vec<$T>> = (0..n_chains).map(|_| displaced_start(&g).iter().map(|x| *x as $T).collect()).collect();
                        let mut s2 = HMC::<$T, $B, AnyTarget>::new(g.any(), init2, 0.25, 5).set_seed(seed ^ 0x5555);
                        let t2 = s2.run(steps, 400);
                        let v2: Vec<f64> = t2.to_data().convert::<f64>().to_vec().unwrap();
                        let chains2: Vec<Vec<Vec<f64>>> = (0..n_chains).map(|c| (0..steps).map(|k| v2[(c * steps + k) * d..(c * steps + k + 1) * d].to_vec()).collect()).collect();
                        moments_check(out, &id, &format!("HMC-{}-displaced-start", $name), &g, &chains2);
                    });
                }
            }};
        }
        if rep % 2 == 0 {
            hmc_moments!(f32, B32, "f32");
        } else {
            hmc_moments!(f64, B64, "f64");
        }
        // the same with a coarse step (60-75 % of the stability limit, L = 3): a sizeable share of the proposals is
        // rejected, so whatever a step does differently after a rejection (carried state) shows in the moments
        macro_rules! hmc_moments_coarse {
            ($T:ty, $B:ty, $name:expr) => {{
                let id = out.fresh_id("mom-hmc-coarse");
                let d = rng.range(1, 3) as usize;
                let g = random_gauss(&mut rng, d);
                let init: Vec<Vec<$T>> = (0..n_chains).map(|_| g.draw(&mut rng).iter().map(|x| *x as $T).collect()).collect();
                let seed = rng.next();
                let steps = out.n(600, 2000) as usize;
                let eps = rng.uniform(1.2, 1.5) / g.prec_lambda_max().sqrt();
                if out.selected(&id) {
                    guard_case(out, &id.clone(), "C06:panic", 1, |out| {
                        let mut s = HMC::<$T, $B, AnyTarget>::new(g.any(), init, eps as $T, 3).set_seed(seed);
                        let t = s.run(steps, 0);
                        let v: Vec<f64> = t.to_data().convert::<f64>().to_vec().unwrap();
                        let chains: Vec<Vec<Vec<f64>>> = (0..n_chains).map(|c| (0..steps).map(|k| v[(c * steps + k) * d..(c * steps + k + 1) * d].to_vec()).collect()).collect();
                        let moved = chains.iter().map(|c| c.windows(2).filter(|w| w[0] != w[1]).count()).sum::<usize>() as f64 / (n_chains * (steps - 1)) as f64;
                        out.notes.push(format!("HMC-coarse-{}: eps {:.3}, acceptance rate {:.2}", $name, eps, moved));
                        moments_check(out, &id, &format!("HMC-coarse-{}", $name), &g, &chains);
                        // (no displaced-start group here: with a fixed trajectory length close to a half period of some
                        // direction HMC mixes arbitrarily slowly on a Gaussian, so "burn-in >> mixing time" cannot be
                        // promised; a kernel that freezes is caught by the share of moves instead — at 60-75 % of the
                        // stability limit the leapfrog energy error is small and far more than a quarter of the proposals
                        // are accepted)
                        out.count("predicate_evaluations");
                        if moved < 0.25 {
                            out.fail(&id, &format!("C06:kernel-frozen:HMC-coarse-{}", $name), "HMC hardly ever moves at a step size well inside the stability region", n_chains as u64,
                                format!("share of transitions that moved: {moved:.3} (eps {eps:.3}, L = 3)"));
                        }
                    });
                }
            }};
        }
        if rep % 2 == 0 {
            hmc_moments_coarse!(f64, B64, "f64");
        } else {
            hmc_moments_coarse!(f32, B32, "f32");
        }
        macro_rules! nuts_moments {
            ($T:ty, $B:ty, $name:expr) => {{
                let id = out.fresh_id("mom-nuts");
                let d = rng.range(1, 3) as usize;
                let g = random_gauss(&mut rng, d);
                let init: Vec<Vec<$T>> = (0..n_chains).map(|_| g.draw(&mut rng).iter().map(|x| *x as $T).collect()).collect();
                let seed = rng.next();
                let (collect, warm) = (out.n(200, 600) as usize, 100usize);
                if out.selected(&id) {
                    guard_case(out, &id.clone(), "C06:panic", 1, |out| {
                        let mut s = NUTS::<$T, $B, AnyTarget>::new(g.any(), init, 0.8).set_seed(seed);
                        let t = s.run(collect, warm);
                        let v: Vec<f64> = t.to_data().convert::<f64>().to_vec().unwrap();
                        let chains: Vec<Vec<Vec<f64>>> = (0..n_chains).map(|c| (0..collect).map(|k| v[(c * collect + k) * d..(c * collect + k + 1) * d].to_vec()).collect()).collect();
                        moments_check(out, &id, &format!("NUTS-{}", $name), &g, &chains);
                    });
                }
            }};
        }
        if rep % 2 == 0 {
            nuts_moments!(f64, B64, "f64");
        } else {
            nuts_moments!(f32, B32, "f32");
        }
        out.nontrivial(&format!("c06:{rep}"));
        out.nontrivial(&format!("c06b:{rep}"));
    }
    out.samples.push("law tests: MH acceptance draws / proposal noise, HMC momenta + uniforms (f32, f64), NUTS momenta + Exp(1) + direction/adoption/selection uniforms (f32, f64)".into());
    out.samples.push("stationarity tests: 64 chains started in a random Gaussian target (dim 1-4) for MH, Gibbs, HMC, NUTS; z-scores of E[x_i], E[x_i x_j], P(x_i > mean + sd)".into());
}

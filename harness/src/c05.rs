//! C05 — one Gibbs step refreshes every coordinate once, conditioning on the freshest state.
//!
//! A recording `Conditional` returns scripted values (so its answers never depend on what it is given) and logs the
//! arguments of every call; the real `GibbsMarkovChain::step` / `GibbsSampler::run` are driven with it and the
//! call log, the resulting state and the number of calls are compared exactly with the Lean sweep model.
use crate::util::*;
use mini_mcmc::core::{ChainRunner, MarkovChain};
use mini_mcmc::distributions::Conditional;
use mini_mcmc::gibbs::{GibbsMarkovChain, GibbsSampler};
use std::fmt::Debug;

#[derive(Clone, Debug, PartialEq)]
struct Rec<T: Clone> {
    script: Vec<T>,
    k: usize,
    log: Vec<(usize, Vec<T>)>,
    /// panic (once) when asked for the call with this number
    panic_at: Option<usize>,
}
impl<T: Clone> Conditional<T> for Rec<T> {
    fn sample(&mut self, i: usize, given: &[T]) -> T {
        if self.panic_at == Some(self.k) {
            self.panic_at = None;
            panic!("scripted failure of the user's conditional");
        }
        self.log.push((i, given.to_vec()));
        let v = self.script[self.k % self.script.len()].clone();
        self.k += 1;
        v
    }
}

trait Tok: Clone + Debug + PartialEq + Send + Sync + ndarray::LinalgScalar + num_traits::ToPrimitive {
    fn tok(&self) -> String;
    fn gen(r: &mut Sm) -> Self;
    /// identity of two values as the chain stores them (bit patterns for floats, so that NaN answers can be scripted)
    fn same(&self, o: &Self) -> bool {
        self == o
    }
}
fn same_vec<T: Tok>(a: &[T], b: &[T]) -> bool {
    a.len() == b.len() && a.iter().zip(b).all(|(x, y)| x.same(y))
}
impl Tok for i64 {
    fn tok(&self) -> String {
        self.to_string()
    }
    fn gen(r: &mut Sm) -> Self {
        (r.below(2001) as i64) - 1000
    }
}
impl Tok for usize {
    fn tok(&self) -> String {
        self.to_string()
    }
    fn gen(r: &mut Sm) -> Self {
        r.below(50) as usize
    }
}
impl Tok for f64 {
    fn tok(&self) -> String {
        h64(*self)
    }
    fn gen(r: &mut Sm) -> Self {
        // a conditional may answer NaN (0/0 in a degenerate model, a missing-value marker) or an infinity
        if r.coin(0.06) { *r.pick(&[f64::NAN, f64::INFINITY, -0.0]) } else { r.normal() * 3.0 }
    }
    fn same(&self, o: &Self) -> bool {
        self.to_bits() == o.to_bits()
    }
}
impl Tok for f32 {
    fn tok(&self) -> String {
        h32(*self)
    }
    fn gen(r: &mut Sm) -> Self {
        if r.coin(0.06) { *r.pick(&[f32::NAN, f32::NEG_INFINITY, 0.0]) } else { r.normal() as f32 }
    }
    fn same(&self, o: &Self) -> bool {
        self.to_bits() == o.to_bits()
    }
}

fn toks<T: Tok>(v: &[T]) -> String {
    v.iter().map(|x| x.tok()).collect::<Vec<_>>().join(",")
}
fn log_str<T: Tok>(log: &[(usize, Vec<T>)]) -> String {
    log.iter().map(|(i, g)| format!("{i}:{}", toks(g))).collect::<Vec<_>>().join(" ")
}

fn one<T: Tok>(out: &mut Out, rng: &mut Sm, tyname: &str, small: bool) {
    let id = out.fresh_id("gs");
    let d = if small { rng.range(1, 3) } else { rng.range(1, 64) } as usize;
    let nsteps = rng.range(1, 4) as usize;
    let s0: Vec<T> = (0..d).map(|_| T::gen(rng)).collect();
    let script: Vec<T> = (0..d * nsteps).map(|_| T::gen(rng)).collect();
    let via_run = rng.coin(0.4);
    let n_chains = if via_run { rng.range(1, 8) as usize } else { 1 };
    let n_discard = rng.below(nsteps as u64 + 1) as usize;
    // via run(): the steps are split over two consecutive run() calls on the same sampler (the chains' conditionals keep
    // their state between the calls); via step(): in a fifth of the cases the conditional fails once, at a scripted call
    let split = rng.below(nsteps as u64 + 1) as usize;
    let panic_at: Option<usize> = if !via_run && rng.coin(0.2) { Some(rng.below((d * nsteps) as u64) as usize) } else { None };
    if !out.selected(&id) {
        return;
    }
    guard_case(out, &id.clone(), "C05:panic", (d * nsteps) as u64, |out| {
        let cond = Rec { script: script.clone(), k: 0, log: vec![], panic_at };
        let case = |cid: &str| {
            format!(
                "c05 {cid} {nsteps} ; {} ; {}",
                s0.iter().map(|x| x.tok()).collect::<Vec<_>>().join(" "),
                script.iter().map(|x| x.tok()).collect::<Vec<_>>().join(" ")
            )
        };
        if via_run {
            // the same start state in every chain: every chain must produce the same log (clones of one conditional)
            let mut s = GibbsSampler::new(cond, vec![s0.clone(); n_chains]);
            // first `split` steps in one run() (all discarded or all collected), the rest in a second one
            if split > 0 {
                let _ = if split % 2 == 0 { s.run(split, 0) } else { s.run(0, split) }.expect("stack");
                out.count("two_consecutive_runs");
            }
            let (nsteps, n_discard) = (nsteps - split, n_discard.min(nsteps - split));
            let a = s.run(nsteps - n_discard, n_discard).expect("stack");
            for ch in 0..n_chains {
                let c = &s.chains[ch];
                let cid = format!("{id}.{ch}");
                let line = format!("{cid} {} # {} # {}", log_str(&c.target.log), toks(&c.current_state), c.target.k);
                out.case(case(&cid), line);
                // returned rows: the last collected row is the chain's current state
                if nsteps - n_discard > 0 {
                    let last = a.slice(ndarray::s![ch, nsteps - n_discard - 1, ..]).to_vec();
                    if !same_vec(&last, &c.current_state) {
                        out.fail(&cid, "C05:run-last-row", "last row returned by run() is not the chain's current state", d as u64, format!("{last:?} vs {:?}", c.current_state));
                    }
                }
            }
            out.count("via_run");
        } else {
            let mut c = GibbsMarkovChain::new(cond, &s0);
            if let Some(pa) = panic_at {
                // sweeps until the scripted failure, which is caught; then one more (complete) sweep
                let full = pa / d;
                for _ in 0..full {
                    c.step();
                }
                let r = std::panic::catch_unwind(std::panic::AssertUnwindSafe(|| {
                    c.step();
                }));
                if r.is_ok() {
                    out.fail(&id, "C05:no-panic", "the scripted failure of the conditional did not surface", d as u64, String::new());
                }
                c.step();
                let line = format!("{id} {} # {} # {}", log_str(&c.target.log), toks(&c.current_state), c.target.k);
                out.case(
                    format!("c05p {id} {d} {pa} ; {} ; {}", s0.iter().map(|x| x.tok()).collect::<Vec<_>>().join(" "), script.iter().map(|x| x.tok()).collect::<Vec<_>>().join(" ")),
                    line,
                );
                out.count("conditional_failed_mid_sweep");
                out.nontrivial(&format!("{tyname}:{d}:panic:{pa}"));
                return;
            }
            for _ in 0..nsteps {
                let before = c.current_state.clone();
                let lb = c.target.log.len();
                let r = c.step().clone();
                // implementation-only predicates, per step
                if r.len() != d || c.target.log.len() != lb + d {
                    out.fail(&id, "C05:calls-per-step", "a step did not ask the conditional exactly once per coordinate", d as u64, format!("d={d} calls={}", c.target.log.len() - lb));
                }
                for (j, (i, given)) in c.target.log[lb..].iter().enumerate() {
                    let expect: Vec<T> = r[..j.min(d)].iter().chain(before[j.min(d)..].iter()).cloned().collect();
                    if *i != j || !same_vec(given, &expect) {
                        out.fail(&id, "C05:stale-or-misordered", "call did not receive the freshest state / wrong coordinate order", d as u64,
                            format!("call {j}: index {i}, given {:?}, expected {:?}", given, expect));
                        break;
                    }
                }
            }
            let line = format!("{id} {} # {} # {}", log_str(&c.target.log), toks(&c.current_state), c.target.k);
            out.case(case(&id), line);
            out.count("via_step");
        }
        out.nontrivial(&format!("{tyname}:{d}:{nsteps}:{via_run}:{n_chains}"));
        out.count(&format!("type_{tyname}"));
        out.count(if d <= 3 { "dim_1_3" } else if d <= 16 { "dim_4_16" } else { "dim_17_64" });
    });
}

pub fn run(out: &mut Out) {
    let mut rng = out.rng("c05");
    let n = out.n(400, 6000);
    for k in 0..n {
        let small = k % 4 == 0;
        match k % 4 {
            0 => one::<i64>(out, &mut rng, "i64", small),
            1 => one::<f64>(out, &mut rng, "f64", false),
            2 => one::<usize>(out, &mut rng, "usize", false),
            _ => one::<f32>(out, &mut rng, "f32", k % 8 == 3),
        }
    }
}

//! C07 (same seed, same output; thread-count / schedule independence) and C08 (distinct streams per chain).
use crate::util::*;
use burn::backend::{Autodiff, NdArray};
use mini_mcmc::core::{init_with_seed, ChainRunner, MarkovChain};
use mini_mcmc::distributions::{Conditional, DiffableGaussian2D, Gaussian2D, IsotropicGaussian, Proposal};
use mini_mcmc::gibbs::GibbsSampler;
use mini_mcmc::hmc::HMC;
use mini_mcmc::metropolis_hastings::MetropolisHastings;
use mini_mcmc::nuts::NUTS;
use ndarray::{arr1, arr2};
use rand::rngs::SmallRng;
use rand::{Rng, RngCore, SeedableRng};

type B32 = Autodiff<NdArray<f32>>;
type B64 = Autodiff<NdArray<f64>>;

fn words(r: &SmallRng) -> String {
    let mut r = r.clone();
    (0..4).map(|_| format!("{:016x}", r.next_u64())).collect::<Vec<_>>().join(",")
}

#[derive(Clone, Debug, PartialEq)]
pub struct DetCond;
impl Conditional<f64> for DetCond {
    fn sample(&mut self, i: usize, given: &[f64]) -> f64 {
        let s: f64 = given.iter().enumerate().map(|(k, v)| v * (k as f64 + 1.0)).sum();
        (s * 0.61 + i as f64).cos()
    }
}

/// a user-defined seedable proposal (uniform box walk)
#[derive(Clone, Debug)]
pub struct BoxWalk {
    rng: SmallRng,
    w: f64,
}
impl Proposal<f64, f64> for BoxWalk {
    fn sample(&mut self, current: &[f64]) -> Vec<f64> {
        current.iter().map(|x| x + self.w * (self.rng.random::<f64>() - 0.5)).collect()
    }
    fn logp(&self, _from: &[f64], _to: &[f64]) -> f64 {
        0.0
    }
    fn set_seed(mut self, seed: u64) -> Self {
        self.rng = SmallRng::seed_from_u64(seed);
        self
    }
}

fn gauss() -> Gaussian2D<f64> {
    Gaussian2D { mean: arr1(&[0.3, -0.2]), cov: arr2(&[[1.5, 0.4], [0.4, 0.8]]) }
}
fn dgauss32() -> DiffableGaussian2D<f32> {
    DiffableGaussian2D::new([0.0f32, 1.0], [[4.0, 2.0], [2.0, 3.0]])
}
fn dgauss64() -> DiffableGaussian2D<f64> {
    DiffableGaussian2D::new([0.0f64, 1.0], [[4.0, 2.0], [2.0, 3.0]])
}

#[derive(Clone, Copy, Debug, PartialEq)]
pub enum Kind {
    Mh,
    MhBox,
    Gibbs,
    Hmc,
    Nuts,
}
pub const KINDS: [Kind; 5] = [Kind::Mh, Kind::MhBox, Kind::Gibbs, Kind::Hmc, Kind::Nuts];

/// build the sampler of the given kind from (n_chains, seed) and run it; output as bit patterns
pub fn run_kind(kind: Kind, n_chains: usize, seed: u64, c: usize, d: usize, progress: bool) -> Vec<u64> {
    let init64 = init_with_seed::<f64>(n_chains, 2, 99);
    match kind {
        Kind::Mh => {
            let mut s = MetropolisHastings::new(gauss(), IsotropicGaussian::<f64>::new(0.7), init64).seed(seed);
            let a = if progress { s.run_progress(c, d).unwrap().0 } else { s.run(c, d).unwrap() };
            a.iter().map(|x| x.to_bits()).collect()
        }
        Kind::MhBox => {
            let p = BoxWalk { rng: SmallRng::seed_from_u64(0), w: 1.5 };
            let mut s = MetropolisHastings::new(gauss(), p, init64).seed(seed);
            let a = if progress { s.run_progress(c, d).unwrap().0 } else { s.run(c, d).unwrap() };
            a.iter().map(|x| x.to_bits()).collect()
        }
        Kind::Gibbs => {
            let mut s = GibbsSampler::new(DetCond, init64).set_seed(seed);
            let a = if progress { s.run_progress(c, d).unwrap().0 } else { s.run(c, d).unwrap() };
            a.iter().map(|x| x.to_bits()).collect()
        }
        Kind::Hmc => {
            let init32 = init_with_seed::<f32>(n_chains, 2, 99);
            let mut s = HMC::<f32, B32, _>::new(dgauss32(), init32, 0.2, 3).set_seed(seed);
            let t = if progress { s.run_progress(c, d).unwrap().0 } else { s.run(c, d) };
            let v: Vec<f32> = t.to_data().to_vec().unwrap();
            v.iter().map(|x| x.to_bits() as u64).collect()
        }
        Kind::Nuts => {
            let init32 = init_with_seed::<f32>(n_chains, 2, 99);
            let mut s = NUTS::<f32, B32, _>::new(dgauss32(), init32, 0.8).set_seed(seed);
            let t = if progress { s.run_progress(c, d).unwrap().0 } else { s.run(c, d) };
            let v: Vec<f32> = t.to_data().to_vec().unwrap();
            v.iter().map(|x| x.to_bits() as u64).collect()
        }
    }
}

fn seeds_of_interest(rng: &mut Sm) -> u64 {
    if rng.coin(0.35) {
        *rng.pick(&[0u64, 1, 42, u64::MAX, u64::MAX - 1, u64::MAX - 3, 1 << 63, (1 << 63) - 1])
    } else {
        rng.next()
    }
}

// ------------------------------------------------------------------ C07

pub fn run_c07(out: &mut Out) {
    let mut rng = out.rng("c07");
    // (a) exact seeding: generator words of every chain vs. the Lean model
    for _ in 0..out.n(60, 1500) {
        let id = out.fresh_id("sd");
        let seed = seeds_of_interest(&mut rng);
        let n = rng.range(1, 8) as usize;
        let kind = *rng.pick(&["mh", "gibbs", "nuts", "hmc"]);
        if !out.selected(&id) {
            continue;
        }
        guard_case(out, &id.clone(), "C07:seed-panic", n as u64, |out| {
            let init64 = init_with_seed::<f64>(n, 2, 5);
            let line = match kind {
                "mh" => {
                    let s = MetropolisHastings::new(gauss(), IsotropicGaussian::<f64>::new(0.7), init64).seed(seed);
                    s.chains.iter().map(|c| format!("a:{} p:{}", words(&c.rng), words(&c.proposal.verif_rng()))).collect::<Vec<_>>().join(" | ")
                }
                "gibbs" => {
                    let s = GibbsSampler::new(DetCond, init64).set_seed(seed);
                    s.chains.iter().map(|c| format!("a:{}", words(&c.rng))).collect::<Vec<_>>().join(" | ")
                }
                "nuts" => {
                    let s = NUTS::<f64, B64, _>::new(dgauss64(), init64, 0.8).set_seed(seed);
                    s.verif_chains().iter().map(|c| format!("a:{}", words(&c.verif_rng()))).collect::<Vec<_>>().join(" | ")
                }
                _ => {
                    let s = HMC::<f64, B64, _>::new(dgauss64(), init64, 0.1, 2).set_seed(seed);
                    (0..n).map(|_| format!("a:{}", words(&s.rng))).collect::<Vec<_>>().join(" | ")
                }
            };
            out.case(format!("c07 {id} {kind} {seed} {n}"), format!("{id} {line}"));
            out.count(&format!("seeding_{kind}"));
            if seed > u64::MAX - 8 {
                out.count("seed_wraps");
            }
            out.nontrivial(&format!("{kind}:{seed}:{n}"));
        });
    }
    // (a') the uniform variates the samplers draw from such a generator: `random::<f64>()`, `random::<f32>()` vs. the model
    for _ in 0..out.n(60, 1500) {
        let id = out.fresh_id("un");
        let seed = seeds_of_interest(&mut rng);
        if !out.selected(&id) {
            continue;
        }
        let base = SmallRng::seed_from_u64(seed);
        let mut a = base.clone();
        let mut b = base.clone();
        let f64s = (0..4).map(|_| h64(a.random::<f64>())).collect::<Vec<_>>().join(",");
        let f32s = (0..4).map(|_| h32(b.random::<f32>())).collect::<Vec<_>>().join(",");
        out.case(format!("c07u {id} {seed}"), format!("{id} {f64s} {f32s}"));
        out.count("uniform_variates");
    }
    // (b) run-level reproducibility: twice, under different pool sizes, next to concurrently running samplers, with progress
    let reps = out.n(12, 150);
    for r in 0..reps {
        let id = out.fresh_id("rp");
        let kind = KINDS[(r as usize) % KINDS.len()];
        let seed = seeds_of_interest(&mut rng);
        let n = rng.range(1, 6) as usize;
        let c = rng.range(4, 12) as usize;
        let d = rng.range(0, 6) as usize;
        let with_progress = r % 2 == 0 || (r % 5 == 3 && d >= 1);
        if !out.selected(&id) {
            continue;
        }
        guard_case(out, &id.clone(), &format!("C07:panic:{kind:?}"), (n * (c + d)) as u64, |out| {
            let reference = run_kind(kind, n, seed, c, d, false);
            out.count("predicate_evaluations");
            // twice
            if run_kind(kind, n, seed, c, d, false) != reference {
                out.fail(&id, &format!("C07:not-reproducible:{kind:?}"), "two samplers built from the same inputs and seed gave different output", (n * (c + d)) as u64,
                    format!("kind={kind:?} seed={seed} chains={n} c={c} d={d}"));
                return;
            }
            // pool sizes
            for threads in [1usize, 2, 5, 16] {
                let pool = rayon::ThreadPoolBuilder::new().num_threads(threads).build().unwrap();
                let got = pool.install(|| run_kind(kind, n, seed, c, d, false));
                out.count("predicate_evaluations");
                if got != reference {
                    out.fail(&id, &format!("C07:thread-count:{kind:?}"), "output depends on the number of worker threads", (n * (c + d)) as u64,
                        format!("kind={kind:?} seed={seed} threads={threads}"));
                }
            }
            // concurrent samplers in the process
            let stop = std::sync::Arc::new(std::sync::atomic::AtomicBool::new(false));
            let noise: Vec<_> = [Kind::Hmc, Kind::Nuts, Kind::Mh]
                .into_iter()
                .map(|k| {
                    let stop = stop.clone();
                    std::thread::spawn(move || {
                        let mut i = 0u64;
                        while !stop.load(std::sync::atomic::Ordering::Relaxed) {
                            let _ = run_kind(k, 2, 1000 + i, 5, 1, false);
                            i += 1;
                        }
                    })
                })
                .collect();
            let got = run_kind(kind, n, seed, c, d, false);
            stop.store(true, std::sync::atomic::Ordering::Relaxed);
            for h in noise {
                let _ = h.join();
            }
            out.count("predicate_evaluations");
            if got != reference {
                out.fail(&id, &format!("C07:concurrent:{kind:?}"), "output changes when other samplers run concurrently in the process", (n * (c + d)) as u64,
                    format!("kind={kind:?} seed={seed}"));
            }
            // different seed, different output
            let other = run_kind(kind, n, seed.wrapping_add(1), c, d, false);
            out.count("predicate_evaluations");
            // a chain that never left its initial point (every transition rejected, e.g. NUTS with a still un-adapted
            // step size over a handful of steps) legitimately gives the same rows for every seed: not a seed defect
            let width = reference.len() / (n * c).max(1);
            let distinct_rows: std::collections::HashSet<&[u64]> = if width > 0 { reference.chunks(width).collect() } else { Default::default() };
            let moved = distinct_rows.len() > n;
            if other == reference && !moved {
                out.count("seed_diff_skipped_stuck_chain");
            }
            if other == reference && kind != Kind::Gibbs && moved {
                out.fail(&id, &format!("C07:seed-ignored:{kind:?}"), "different seeds give identical output", (n * (c + d)) as u64, format!("kind={kind:?} seeds {seed}, {}", seed.wrapping_add(1)));
            }
            // progress mode consumes the same streams
            if with_progress {
                let p = run_kind(kind, n, seed, c, d, true);
                out.count("predicate_evaluations");
                let same = if kind == Kind::Nuts {
                    // NUTS progress rows are the plain-run trajectory shifted by one draw: rows 0..c-1 of progress = rows 1..c of a run of c+1
                    let longer = run_kind(kind, n, seed, c + 1, d, false);
                    (0..n).all(|ch| (0..c).all(|k| (0..2).all(|j| p[(ch * c + k) * 2 + j] == longer[(ch * (c + 1) + k + 1) * 2 + j])))
                } else {
                    p == reference
                };
                if !same {
                    out.fail(&id, &format!("C07:progress-differs:{kind:?}"), "run_progress does not return the draws run returns from the same seed", (n * (c + d)) as u64, format!("kind={kind:?} seed={seed}"));
                }
                out.count("with_progress");
            }
            out.count(&format!("reproducibility_{kind:?}"));
            out.nontrivial(&format!("rp:{kind:?}:{seed}:{n}:{c}:{d}"));
        });
    }
    // (c) wide configurations (size thresholds are where "fast paths" live): HMC batches with thousands of coordinates,
    //     many chains, seeded initialisers for tens of thousands of coordinates — same seed, same bits, any pool size
    for r in 0..out.n(4, 24) {
        let id = out.fresh_id("wide");
        let seed = seeds_of_interest(&mut rng);
        let (n_chains, dim) = *rng.pick(&[(512usize, 8usize), (2048, 2), (40, 128), (4100, 2), (64, 64)]);
        if !out.selected(&id) {
            continue;
        }
        guard_case(out, &id.clone(), "C07:panic:wide", (n_chains * dim) as u64, |out| {
            let run_hmc = || -> Vec<u32> {
                let init32 = init_with_seed::<f32>(n_chains, dim, 7);
                let mut s = HMC::<f32, B32, _>::new(mini_mcmc::distributions::RosenbrockND {}, init32, 0.001, 2).set_seed(seed);
                let t = s.run(2, 0);
                let v: Vec<f32> = t.to_data().to_vec().unwrap();
                v.iter().map(|x| x.to_bits()).collect()
            };
            let reference = run_hmc();
            out.count("predicate_evaluations");
            if run_hmc() != reference {
                out.fail(&id, "C07:not-reproducible:wide-hmc", "two HMC samplers with a wide batch built from the same inputs and seed gave different output", (n_chains * dim) as u64,
                    format!("chains={n_chains} dim={dim} seed={seed}"));
            }
            let pool = rayon::ThreadPoolBuilder::new().num_threads(if r % 2 == 0 { 1 } else { 5 }).build().unwrap();
            if pool.install(run_hmc) != reference {
                out.fail(&id, "C07:thread-count:wide-hmc", "wide-batch HMC output depends on the number of worker threads", (n_chains * dim) as u64, format!("chains={n_chains} dim={dim} seed={seed}"));
            }
            // seeded initialisers, large requests
            let (n, d) = *[(64usize, 1024usize), (4096, 8), (300, 300), (1, 40000)].get(r as usize % 4).unwrap();
            let a64 = init_with_seed::<f64>(n, d, seed);
            let a32 = init_with_seed::<f32>(n, d, seed);
            out.count("predicate_evaluations");
            for threads in [1usize, 4, 16] {
                let pool = rayon::ThreadPoolBuilder::new().num_threads(threads).build().unwrap();
                let (b64, b32) = pool.install(|| (init_with_seed::<f64>(n, d, seed), init_with_seed::<f32>(n, d, seed)));
                if b64 != a64 || b32 != a32 {
                    out.fail(&id, "C07:init-impure:large", "init_with_seed of a large request is not a pure function of its arguments (depends on the thread pool / call)", (n * d) as u64,
                        format!("n={n} d={d} seed={seed} threads={threads}"));
                    break;
                }
            }
            // the first rows of the large request are the small request
            let small = init_with_seed::<f64>(2, d, seed);
            if a64.len() >= 2 && small[..] != a64[..2] {
                out.fail(&id, "C07:init-prefix:large", "the first rows of a large seeded request differ from a small request with the same seed", (n * d) as u64, format!("n={n} d={d} seed={seed}"));
            }
            let mut rows: Vec<Vec<u64>> = a64.iter().map(|r| r.iter().map(|x| x.to_bits()).collect()).collect();
            rows.sort();
            rows.dedup();
            if d >= 1 && rows.len() != a64.len() {
                out.fail(&id, "C07:init-rows-repeat", "a large seeded request contains repeated rows", (n * d) as u64, format!("n={n} d={d} seed={seed}: {} distinct of {}", rows.len(), a64.len()));
            }
            out.count("wide_configurations");
            out.nontrivial(&format!("wide:{n_chains}:{dim}:{n}:{d}:{seed}"));
        });
    }
}

// ------------------------------------------------------------------ C08

fn all_distinct<T: PartialEq>(v: &[T]) -> Option<(usize, usize)> {
    for i in 0..v.len() {
        for j in 0..i {
            if v[i] == v[j] {
                return Some((j, i));
            }
        }
    }
    None
}

pub fn run_c08(out: &mut Out) {
    let mut rng = out.rng("c08");
    for r in 0..out.n(40, 600) {
        let id = out.fresh_id("st");
        let n = if r % 5 == 0 { 64 } else { rng.range(2, 64) as usize };
        let seeded = rng.coin(0.6) || r % 3 == 0;
        // every third case: a seed so close to u64::MAX that `seed + chain index (+1)` passes the top of the range
        let seed = if r % 3 == 0 { u64::MAX - rng.below(4) } else { seeds_of_interest(&mut rng) };
        let kind = KINDS[(r as usize) % KINDS.len()];
        if kind == Kind::Gibbs || !out.selected(&id) {
            continue;
        }
        guard_case(out, &id.clone(), &format!("C08:panic:{kind:?}"), n as u64, |out| {
            let same64: Vec<Vec<f64>> = vec![vec![0.25, -0.5]; n];
            let same32: Vec<Vec<f32>> = vec![vec![0.25, -0.5]; n];
            let tag = if seeded { "seeded" } else { "unseeded" };
            out.count("predicate_evaluations");
            match kind {
                Kind::Mh | Kind::MhBox => {
                    // generator states
                    let (acc, prop, next_props, traj): (Vec<String>, Vec<String>, Vec<Vec<u64>>, Vec<Vec<u64>>) = if kind == Kind::Mh {
                        let mut s = MetropolisHastings::new(gauss(), IsotropicGaussian::<f64>::new(0.7), same64.clone());
                        if seeded {
                            s = s.seed(seed);
                            let line = s.chains.iter().map(|c| format!("a:{} p:{}", words(&c.rng), words(&c.proposal.verif_rng()))).collect::<Vec<_>>().join(" | ");
                            out.case(format!("c07 {id} mh {seed} {n}"), format!("{id} {line}"));
                        }
                        let acc = s.chains.iter().map(|c| words(&c.rng)).collect();
                        let prop = s.chains.iter().map(|c| words(&c.proposal.verif_rng())).collect();
                        let np = s.chains.iter_mut().map(|c| c.proposal.sample(&[0.25, -0.5]).iter().map(|x| x.to_bits()).collect()).collect();
                        let tr = s.chains.iter_mut().map(|c| { let mut v = vec![]; for _ in 0..6 { v.extend(c.step().iter().map(|x| x.to_bits())); } v }).collect();
                        (acc, prop, np, tr)
                    } else {
                        let p = BoxWalk { rng: SmallRng::seed_from_u64(3), w: 1.0 };
                        let mut s = MetropolisHastings::new(gauss(), p, same64.clone());
                        if seeded {
                            s = s.seed(seed);
                        }
                        let acc = s.chains.iter().map(|c| words(&c.rng)).collect();
                        let prop = s.chains.iter().map(|c| words(&c.proposal.rng)).collect();
                        let np = s.chains.iter_mut().map(|c| c.proposal.sample(&[0.25, -0.5]).iter().map(|x| x.to_bits()).collect()).collect();
                        let tr = s.chains.iter_mut().map(|c| { let mut v = vec![]; for _ in 0..6 { v.extend(c.step().iter().map(|x| x.to_bits())); } v }).collect();
                        (acc, prop, np, tr)
                    };
                    if let Some((i, j)) = all_distinct(&acc) {
                        out.fail(&id, &format!("C08:mh-accept-shared:{tag}"), "two chains share an acceptance stream", n as u64, format!("{kind:?} chains {i},{j} seed={seed}"));
                    }
                    if let Some((i, j)) = all_distinct(&prop) {
                        out.fail(&id, &format!("C08:mh-proposal-shared:{tag}"), "two chains share a proposal stream (identical generator state)", n as u64, format!("{kind:?} chains {i},{j} seed={seed}"));
                    }
                    if let Some((i, j)) = all_distinct(&next_props) {
                        out.fail(&id, &format!("C08:mh-proposal-shared:{tag}"), "chains started from one state receive identical proposal noise", n as u64, format!("{kind:?} chains {i},{j} seed={seed}"));
                    }
                    if let Some((i, j)) = all_distinct(&traj) {
                        out.fail(&id, &format!("C08:mh-trajectories-equal:{tag}"), "chains started from one state follow identical trajectories", n as u64, format!("{kind:?} chains {i},{j} seed={seed}"));
                    }
                    for i in 0..n {
                        for j in 0..n {
                            if acc[i] == prop[j] {
                                out.fail(&id, &format!("C08:mh-accept-equals-proposal:{tag}"), "an acceptance generator is seeded identically to a proposal generator", n as u64, format!("{kind:?} accept chain {i}, proposal chain {j} seed={seed}"));
                            }
                        }
                    }
                }
                Kind::Nuts => {
                    let mut s = NUTS::<f64, B64, _>::new(dgauss64(), same64.clone(), 0.8);
                    if seeded {
                        s = s.set_seed(seed);
                        let line = s.verif_chains().iter().map(|c| format!("a:{}", words(&c.verif_rng()))).collect::<Vec<_>>().join(" | ");
                        out.case(format!("c07 {id} nuts {seed} {n}"), format!("{id} {line}"));
                    }
                    let w: Vec<String> = s.verif_chains().iter().map(|c| words(&c.verif_rng())).collect();
                    if let Some((i, j)) = all_distinct(&w) {
                        out.fail(&id, &format!("C08:nuts-stream-shared:{tag}"), "two NUTS chains share a random stream", n as u64, format!("chains {i},{j} seed={seed}"));
                    }
                    if n <= 8 {
                        let t = s.run(10, 0);
                        let v: Vec<f64> = t.to_data().to_vec().unwrap();
                        // a chain that never left the start state (all proposals rejected) cannot be told apart: give it a unique tag
                        let traj: Vec<Vec<u64>> = (0..n)
                            .map(|ch| {
                                let tr: Vec<u64> = v[ch * 20..(ch + 1) * 20].iter().map(|x| x.to_bits()).collect();
                                if tr.chunks(2).all(|r| r == &tr[0..2]) { vec![ch as u64] } else { tr }
                            })
                            .collect();
                        if let Some((i, j)) = all_distinct(&traj) {
                            out.fail(&id, &format!("C08:nuts-trajectories-equal:{tag}"), "NUTS chains started from one state follow identical trajectories", n as u64, format!("chains {i},{j}"));
                        }
                    }
                }
                Kind::Hmc => {
                    let mut s = HMC::<f32, B32, _>::new(dgauss32(), same32.clone(), 0.2, 3);
                    if seeded {
                        s = s.set_seed(seed);
                    }
                    // the draws a step consumes (hook): momentum rows and acceptance uniforms must differ between chains
                    mini_mcmc::verif_hooks::tl_enable();
                    s.step();
                    let ev = mini_mcmc::verif_hooks::tl_drain();
                    for e in &ev {
                        if let Some(rest) = e.strip_prefix("hmc uniform ") {
                            let us: Vec<&str> = rest.split(',').collect();
                            if let Some((i, j)) = all_distinct(&us) {
                                out.fail(&id, &format!("C08:hmc-uniform-shared:{tag}"), "two HMC chains received the same acceptance draw in one step", n as u64, format!("rows {i},{j} seed={seed}"));
                            }
                        }
                        if let Some(rest) = e.strip_prefix("hmc momentum ") {
                            let ms: Vec<&str> = rest.split(',').collect();
                            let rows: Vec<&[&str]> = ms.chunks(2).collect();
                            if let Some((i, j)) = all_distinct(&rows) {
                                out.fail(&id, &format!("C08:hmc-momentum-shared:{tag}"), "two HMC chains received the same momentum in one step", n as u64, format!("rows {i},{j} seed={seed}"));
                            }
                        }
                    }
                    s.step();
                    let v: Vec<f32> = s.positions.to_data().to_vec().unwrap();
                    let rows: Vec<Vec<u32>> = (0..n).map(|ch| v[ch * 2..ch * 2 + 2].iter().map(|x| x.to_bits()).collect()).collect();
                    if let Some((i, j)) = all_distinct(&rows) {
                        out.fail(&id, &format!("C08:hmc-rows-equal:{tag}"), "HMC batch rows started from one state moved identically", n as u64, format!("rows {i},{j} seed={seed}"));
                    }
                }
                Kind::Gibbs => {}
            }
            out.count(&format!("{kind:?}_{tag}"));
            out.nontrivial(&format!("{kind:?}:{tag}:{n}:{seed}"));
        });
    }
}
